"""Leaf definitions: every repo-local function that a rule expectation NAMES (calls to it stay calls in normalised terms) has its own
definition pinned in rules/leaves.json (reviewed; regenerate with tools/leaves.py). A property checks the leaves that its own
expectations mention, transitively - so a change to `TypePathType::is_compact` is seen by every rule that relies on `is_compact`."""
import json, os, re
from .core import q
from .core.norm import Norm, show, cshort

RX = re.compile(r"([A-Za-z_][A-Za-z0-9_]*::[A-Za-z_][A-Za-z0-9_#]*)(?:<[^>()]*>)?(?=[(,)])")
_LEAVES = None


def leaves():
    global _LEAVES
    if _LEAVES is None:
        with open(os.path.join(os.path.dirname(os.path.abspath(__file__)), "leaves.json")) as fh:
            _LEAVES = json.load(fh)
    return _LEAVES


def check(ctx):
    L = leaves()
    todo = [n for n in sorted(ctx.mentions) if n in L]
    seen = set()
    by_short = None
    n_checked = 0
    while todo:
        name = todo.pop()
        if name in seen:
            continue
        seen.add(name)
        for m in RX.findall(L[name]):
            if m in L and m not in seen:
                todo.append(m)
        if by_short is None:
            by_short = {}
            for c, b in ctx.P.all_bodies(q.LIB):
                if "body" in b and b.get("dk") in ("Fn", "AssocFn") and not q.derived(b):
                    by_short.setdefault(cshort(b["path"]), []).append(b)
        fs = by_short.get(name, [])
        rid = ctx.prop + ".L"
        if len(fs) != 1:
            ctx.bad(rid, "leaf/missing-anchor/" + name, "", "the function `%s`, which this property's rules rely on by name, resolves to %d definitions" % (name, len(fs)))
            continue
        n_checked += 1
        got = show(Norm(fs[0]).term(fs[0]["body"]), 10 ** 6)
        ok = q.term_matches(got, L[name])
        ctx.expect(ok, rid, "leaf/" + name, fs[0]["sp"], "`%s` is defined as reviewed" % name,
                   "the definition of `%s`, which this property's rules rely on by name, changed\nfound:    %s\nexpected: %s" % (name, got[:2500], L[name][:2500]))
    ctx.counts["leaf definitions checked"] = n_checked
