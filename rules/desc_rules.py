"""Rule instances over the description crate (scale_typegen_description), shared by C12 / C13 / C14."""
from .core import q
from .core.q import ANY, expect_term, expect_fn, site, peel, arm_syms, arms_by_variant
from .core.norm import Norm, show, cshort, subterms
from .core.ir import walk, strip
from .core import templates as T
from . import k8, k10, k13, panics

D = "scale_typegen_description"
LIBS = ("scale_typegen", "scale_typegen_description")
INTS = {"U8": "u8", "U16": "u16", "U32": "u32", "U64": "u64", "U128": "u128", "I8": "i8", "I16": "i16", "I32": "i32", "I64": "i64", "I128": "i128"}


def graph(ctx, entry=None):
    """call graph; with `entry`, indirect calls through fn-pointer fields are bound only to the functions passed at THAT
    entry's constructor call (the three transformer instantiations do not reach each other)"""
    cache = ctx.__dict__.setdefault("_graphs", {})
    if entry not in cache:
        edges, table = k10.fnptr_bindings(ctx.P, LIBS)
        if entry is not None:
            mine = {b["bound_to"] for b in table if b["in"] == entry}
            edges = [(u, f) for u, f in edges if f in mine]
            table = [b for b in table if b["in"] == entry]
        cache[entry] = (k10.call_graph(ctx.P, LIBS, edges), table)
    return cache[entry]


def typedef_match_fn(ctx, rid, role, out_pred, crate=D):
    hits = []
    for b, ms in q.fns_with_match_on(ctx.P, lambda t: t.startswith("scale_info::TypeDef<"), (crate,), ret_pred=out_pred):
        # dispatching matches only: every arm names a variant (no catch-all)
        # .. and the arms work on the payload (most of them bind it): a match that only classifies (`Composite(_) => "struct "`) is not the dispatch
        full = [m for m in ms if "_" not in arms_by_variant(m)
                and 2 * sum(1 for a in m["arms"] if any(x.get("k") == "Bind" for x in walk(a["pat"]))) >= len(m["arms"])]
        if full:
            hits.append((b, full))
    return q.anchor_fn(ctx, rid, role, hits)


def seed_and_rng(ctx, rid, module):
    """K4 + who-may-call: the only randomness is ChaCha8Rng::seed_from_u64(seed) with seed flowing by identity"""
    P = ctx.P
    fn = q.fn1(P, "%s::example_from_seed" % module, D)
    if fn is None:
        ctx.bad(rid, "missing-anchor/%s::example_from_seed" % module, "", "example_from_seed not found")
        return
    i_seed = q.param_index(fn, lambda t: t == "u64")
    t = show(Norm(fn).term(fn["body"]), 10 ** 5)
    ctx.expect(("SeedableRng::seed_from_u64(P%d)" % i_seed) in t and t.count("seed_from_u64") == 1, rid, "seed/identity/" + module, fn["sp"],
               "the generator is seeded with exactly the seed parameter", "seed term: " + t[:300])
    # no other RNG construction in anything reachable from this entry
    g, _table = graph(ctx, fn["path"])
    reach = k10.reachable(g, [fn["path"]])
    ctors = []
    for c, b in P.all_bodies((D,)):
        if "body" not in b or b["path"] not in reach:
            continue
        for n in walk(b["body"]):
            if n.get("k") in ("Call", "MethodCall"):
                cal = n.get("callee", "")
                if any(x in cal for x in ("SeedableRng::", "thread_rng", "from_entropy", "OsRng", "rand::random", "from_os_rng", "from_rng")):
                    ctors.append((cshort(b["path"]), cshort(cal)))
    ok = all(c == "SeedableRng::seed_from_u64" for _f, c in ctors)
    ctx.expect(ok, rid, "seed/only-rng-source", "", "every RNG reachable from the entry is created by seed_from_u64 (%d sites)" % len(ctors), "RNG construction sites: %s" % ctors)
    ex = q.fn1(P, "%s::example" % module, D)
    if ex is not None:
        et = show(Norm(ex).term(ex["body"]))
        ctx.expect("example_from_seed(" in et and ("MAGIC_SEED" in et or "'42'" in et), rid, "seed/default/" + module, ex["sp"], "example() uses a fixed constant seed", "example(): " + et[:200])


def transformer_guard(ctx, rid, module):
    """K13 + fn-pointer bindings: recursion only through Transformer::resolve with an erroring recurse policy"""
    fn = q.fn1(ctx.P, "%s::example_from_seed" % module, D)
    if fn is None:
        return
    g, table = graph(ctx, fn["path"])
    reach = k10.reachable(g, [fn["path"]])
    mine = [b for b in table if b["in"] == fn["path"]]
    ctx.expect(len(mine) == 3, rid, "guard/bindings/" + module, fn["sp"], "the three policies are bound at the constructor call: %s" % [(b["field"].split(".")[-1], cshort(b["bound_to"])) for b in mine],
               "fn-pointer bindings found: %s" % mine)
    with ctx.only(lambda k: "Transformer::resolve" in k and (k.endswith("marker-order") or module in k or "example_from_seed" in k)):
        k13.check_sccs(ctx, rid, g, reach, LIBS, mine)
    # cache-hit policy returns None (compute another example): no stale value is reused, recursion protection still applies
    for b in mine:
        if b["field"].endswith(".cache_hit_policy"):
            pf = ctx.P.body(b["bound_to"])
            pt = show(Norm(pf).term(pf["body"]))
            ctx.expect(pt == "v1::None", rid, "guard/cache-hit/" + module, pf["sp"], "cache hits compute a fresh example (policy returns None)", "cache-hit policy: " + pt[:120])
    # direct recursion that bypasses the transformer must be type-expression recursion
    others = [c for c in k10.sccs(g) if any(m in reach for m in c) and not any(cshort(m) == "Transformer::resolve" for m in c)]
    return reach, others


def panic_inventory(ctx, rid, entry_suffix, crates=(D,)):
    fn = q.fn1(ctx.P, entry_suffix, D)
    if fn is None:
        ctx.bad(rid, "missing-anchor/" + entry_suffix, "", "entry point not found")
        return set()
    g, table = graph(ctx, fn["path"])
    reach = k10.reachable(g, [fn["path"]])
    inv = [s for s in k10.inventory(ctx.P, crates) if s.owner in reach]
    ctx.count("functions reachable from " + entry_suffix, len(reach), 5)
    ctx.count("panic-capable sites reachable from " + entry_suffix, len(inv), 3)
    panics.discharge_all(ctx, rid, ctx.P, inv, g, {"bindings": table})
    return reach


# ------------------------------------------------------------------- goldens ----
import json as _json, os as _os
_GOLD = None


def golden(key):
    global _GOLD
    if _GOLD is None:
        with open(_os.path.join(_os.path.dirname(_os.path.abspath(__file__)), "golden.json")) as fh:
            _GOLD = _json.load(fh)
    return _GOLD[key]


def expect_golden(ctx, rid, key, gkey, suffix, why, crate=D, mask=None):
    """the function's term equals the reviewed one; `mask` (applied to both) blanks a sub-term that the rule deliberately leaves open"""
    fn = q.fn1(ctx.P, suffix, crate)
    if fn is None:
        ctx.bad(rid, "missing-anchor/" + suffix, "", "function `%s` not found" % suffix)
        return None
    t = show(Norm(fn).term(fn["body"]), 10 ** 7)
    g = golden(gkey)
    if mask is not None:
        t, g = mask(t), mask(g)
    expect_term(ctx, rid, key, fn["sp"], t, g, why)
    return fn
