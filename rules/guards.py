"""Dominating-condition extraction and small-integer guard evaluation (core service `evalpred`).

dominating(N, fn_body, node) lists the conditions known to hold when control reaches `node`:
enclosing `if` branches (with polarity), enclosing match arms, and the negations of earlier
`if c { diverge }` statements in every enclosing block. Conditions are normalised terms, so they
are compared by meaning of their operands (renaming / let-introduction do not matter).
len_set(conds, X) evaluates the guards that constrain `len(X)` over {0,1,2,3} (3 = "3 or more").
"""
from .core.ir import children, strip
from .core.norm import show, _diverges, pat_repr

LEN_FNS = ("Vec::len", "slice::len", "BTreeSet::len", "HashSet::len", "HashMap::len", "BTreeMap::len", "Punctuated::len", "String::len", "str::len")
EMPTY_FNS = ("Vec::is_empty", "slice::is_empty", "BTreeSet::is_empty", "HashSet::is_empty", "HashMap::is_empty", "BTreeMap::is_empty",
             "Punctuated::is_empty", "String::is_empty", "str::is_empty")


def path_to(root, target):
    """list of nodes from root to target (inclusive) or None"""
    if root is target:
        return [root]
    for c in children(root):
        if isinstance(c, dict):
            p = path_to(c, target)
            if p is not None:
                return [root] + p
    return None


def dominating(N, body, node):
    """[(polarity, term)] conditions that hold at `node`; polarity False means the term is known false.
    Also ("arm", scrutinee_term, pattern_repr) entries for enclosing match arms."""
    path = path_to(body, node)
    out = []
    if path is None:
        return out
    for i, p in enumerate(path[:-1]):
        nxt = path[i + 1]
        k = p.get("k")
        if k == "If":
            if nxt is p.get("then"):
                out.append((True, N._t(p["cond"])))
            elif nxt is p.get("else"):
                out.append((False, N._t(p["cond"])))
        elif k is None and "stmts" in p:
            # block: earlier statements that diverge under a condition
            for st in p["stmts"]:
                if st is nxt:
                    break
                if st.get("k") in ("SSemi", "SExpr"):
                    inner = strip(st["e"])
                    if inner.get("k") == "If" and _diverges(N._t(inner["then"])) and "else" not in inner:
                        out.append((False, N._t(inner["cond"])))
                    elif inner.get("k") == "If" and "else" in inner:
                        tt, et = N._t(inner["then"]), N._t(inner["else"])
                        if _diverges(tt) and not _diverges(et):
                            out.append((False, N._t(inner["cond"])))
                        elif _diverges(et) and not _diverges(tt):
                            out.append((True, N._t(inner["cond"])))
                elif st.get("k") == "SLet" and "els" in st:
                    out.append((True, ("iflet", pat_repr(st["pat"]), N._t(st["init"]))))
        elif k is None and "pat" in p and "body" in p:
            pass
        elif k == "Match" and p.get("src") == "Normal":
            for a in p["arms"]:
                if a is nxt:
                    out.append(("arm", N._t(p["scrut"]), pat_repr(a["pat"])))
                    if "guard" in a and path[i + 2] is a.get("body"):
                        out.append((True, N._t(a["guard"])))
    return out


def flatten(conds):
    """split conjunctions / push negations through || : returns [(polarity, term)]"""
    out = []
    for c in conds:
        if c[0] == "arm":
            out.append(c)
            continue
        pol, t = c
        _flat(pol, t, out)
    return out


def _flat(pol, t, out):
    if t[0] == "op" and t[1] == "Not" and len(t[2]) == 1:
        _flat(not pol, t[2][0], out)
    elif t[0] == "op" and t[1] == "&&" and pol:
        _flat(True, t[2][0], out)
        _flat(True, t[2][1], out)
    elif t[0] == "op" and t[1] == "||" and not pol:
        _flat(False, t[2][0], out)
        _flat(False, t[2][1], out)
    elif t[0] == "op" and t[1] in ("&&", "||"):
        # a negated conjunction / an asserted disjunction: stated in the polarity with fewer negated leaves
        from .core.norm import _not, _negs
        nt = _not(t)
        if _negs(nt) < _negs(t):
            _flat(not pol, nt, out)
        else:
            out.append((pol, t))
    elif t[0] == "iflet-not":
        out.append((not pol, ("iflet", t[1], t[2])))
    else:
        out.append((pol, t))


def len_set(conds, X):
    """allowed values of len(X) in {0,1,2,3(+)} given the conditions; X is a rendered term string"""
    allowed = {0, 1, 2, 3}
    for c in flatten(conds):
        if c[0] == "arm":
            continue
        pol, t = c
        s = _len_pred(t, X)
        if s is None:
            continue
        allowed &= (s if pol else ({0, 1, 2, 3} - s))
    return allowed


def _len_pred(t, X):
    """set of lens for which term t is true, or None if t does not constrain len(X)"""
    if t[0] == "call" and t[1] in EMPTY_FNS and len(t[2]) == 1 and show(t[2][0]) == X:
        return {0}
    if t[0] == "op" and len(t[2]) == 2:
        a, b = t[2]
        op = t[1]
        if a[0] == "lit" and b[0] == "call":
            a, b = b, a
            op = {"<": ">", ">": "<", "<=": ">=", ">=": "<="}.get(op, op)
        if a[0] == "call" and a[1] in LEN_FNS and len(a[2]) == 1 and show(a[2][0]) == X and b[0] == "lit":
            try:
                n = int(b[1])
            except (TypeError, ValueError):
                return None
            # 3 stands for every value >= 3: only exact when n <= 3 comparisons stay monotone
            res = set()
            for v in (0, 1, 2, 3):
                if op == "==":
                    ok = v == n if v < 3 else n >= 3
                elif op == "!=":
                    ok = v != n if v < 3 else True
                elif op == ">":
                    ok = v > n
                elif op == ">=":
                    ok = v >= n
                elif op == "<":
                    ok = v < n if v < 3 else False if n <= 3 else True
                elif op == "<=":
                    ok = v <= n if v < 3 else n >= 3
                else:
                    return None
                if ok:
                    res.add(v)
            return res
    return None


def holds(conds, term_str, polarity=True):
    """is `term_str` (rendered) among the known conditions with the given polarity"""
    for c in flatten(conds):
        if c[0] == "arm":
            continue
        pol, t = c
        if pol == polarity and show(t) == term_str:
            return True
    return False


def cond_strings(conds):
    out = []
    for c in flatten(conds):
        if c[0] == "arm":
            out.append("%s ~ %s" % (show(c[1])[:80], c[2]))
        else:
            out.append(("" if c[0] else "!") + show(c[1])[:160])
    return out
