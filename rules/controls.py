"""Positive controls: the zero-expectation rules must fire on the deliberately bad crate in /verif/controls on every run.
A rule that does not fire on its control is an ENGINE ERROR (the scan silently matches nothing), never a pass."""
import hashlib, json, os, shutil, subprocess, fcntl
from . import engine
from .core.ir import Program

CONTROLS = os.path.join(engine.VERIF, "controls")
EXPECT = {
    # property -> [(description, rule function runner, predicate on violated keys)]
    "C06": [("ambient nondeterminism (std::time)", "ambient", lambda ks: any(k.startswith("ambient/") and "SystemTime" in k for k in ks)),
            ("hash order reaching a returned Vec", "hash_order", lambda ks: any(k.startswith("hash-site/scale_typegen::control_hash_order") for k in ks)),
            ("hash-ordered loop with a loop-carried counter", "hash_order", lambda ks: any(k.startswith("hash-site/scale_typegen::control_hash_loop") for k in ks)),
            ("hash-ordered loop steered by a `seen` set", "hash_order", lambda ks: any(k.startswith("hash-site/scale_typegen::control_hash_seen_set") for k in ks)),
            ("set-compared list post-processed by position", "hash_order", lambda ks: any(k.startswith("set-compared-list/") for k in ks))],
    "C17": [("id compared for order / used in arithmetic", "id_opacity", lambda ks: any(k.startswith("id-opacity/arith-or-order/scale_typegen::control_id_opacity") for k in ks)),
            ("identifier built from an id", "id_opacity", lambda ks: any(k.startswith("id-opacity/ident/") for k in ks)),
            ("id interpolated into tokens", "id_opacity", lambda ks: any(k.startswith("id-opacity/token/") for k in ks)),
            ("id-ordered set iterated into output", "id_opacity", lambda ks: any(k.startswith("id-ordered-iteration/scale_typegen::control_id_ordered_iteration") for k in ks))],
    "C09": [("`std` emitted outside AllocCratePath::to_tokens", "literals", lambda ks: "literal/std" in ks),
            ("`alloc` hard-coded in a template", "literals", lambda ks: "literal/alloc" in ks),
            ("string literal spelling a std path", "literals", lambda ks: "string-literal/std-path" in ks),
            ("hard-coded crate root", "literals", lambda ks: any(k.startswith("hard-coded-root/") for k in ks))],
}


def facts():
    key = hashlib.sha256()
    for f in ("src/lib.rs", "Cargo.toml", "Cargo.lock"):
        with open(os.path.join(CONTROLS, f), "rb") as fh:
            key.update(fh.read())
    with open(os.path.join(engine.VERIF, "driver", "src", "main.rs"), "rb") as fh:
        key.update(fh.read())
    fdir = os.path.join(engine.CACHE, "controls-facts", key.hexdigest()[:20])
    if os.path.exists(os.path.join(fdir, "scale_typegen.json")):
        return fdir
    os.makedirs(engine.CACHE, exist_ok=True)
    lock = open(os.path.join(engine.CACHE, "lock-controls"), "w")
    fcntl.flock(lock, fcntl.LOCK_EX)
    try:
        if os.path.exists(os.path.join(fdir, "scale_typegen.json")):
            return fdir
        engine.ensure_driver()
        shutil.rmtree(fdir, ignore_errors=True)
        os.makedirs(fdir)
        target = os.path.join(engine.CACHE, "target-controls")
        for d in __import__("glob").glob(os.path.join(target, "debug", ".fingerprint", "verif-controls-*")):
            shutil.rmtree(d, ignore_errors=True)
        env = dict(os.environ)
        env.update({"LD_LIBRARY_PATH": engine.sysroot_lib() + ":" + env.get("LD_LIBRARY_PATH", ""), "RUSTFLAGS": "-Zmir-opt-level=0 -Awarnings",
                    "RUSTC_WRAPPER": engine.DRIVER, "CARGO_TARGET_DIR": target, "CARGO_NET_OFFLINE": "true", "TGFACTS_OUT": fdir,
                    "TGFACTS_NONCE": "controls", "TGFACTS_CRATES": "scale_typegen"})
        r = subprocess.run(["cargo", "+nightly", "check", "--offline", "--locked"], cwd=CONTROLS, env=env, capture_output=True, text=True)
        if r.returncode != 0 or not os.path.exists(os.path.join(fdir, "scale_typegen.json")):
            shutil.rmtree(fdir, ignore_errors=True)
            raise engine.EngineError("positive-controls crate could not be analysed:\n" + r.stderr[-2000:])
        return fdir
    finally:
        fcntl.flock(lock, fcntl.LOCK_UN)
        lock.close()


def verify(prop):
    """returns a list of control descriptions that fired; raises EngineError if one did not"""
    if prop not in EXPECT:
        return []
    P = Program(facts())
    results = {}

    def run(kind):
        if kind in results:
            return results[kind]
        c = engine.Ctx(prop, P, "quick", CONTROLS)
        try:
            if kind == "ambient":
                from .props import c06
                c06.ambient(c, floors=False)
            elif kind == "hash_order":
                from .props import c06
                c06.hash_order(c, floors=False)
            elif kind == "id_opacity":
                from . import gen_rules as G
                G.id_opacity(c, "K9", crates=("scale_typegen",), floors=False)
            elif kind == "literals":
                from .props import c09
                c09.check(c, floors=False, only_literals=True)
        except Exception as e:
            raise engine.EngineError("positive control `%s` crashed: %s" % (kind, e))
        results[kind] = {i["key"] for i in c.violations()}
        return results[kind]
    fired = []
    for desc, kind, pred in EXPECT[prop]:
        ks = run(kind)
        if not pred(ks):
            raise engine.EngineError("positive control did not fire: `%s` (rule scan `%s` matched nothing on /verif/controls; violated keys there: %s)" % (desc, kind, sorted(ks)[:8]))
        fired.append(desc)
    return fired
