"""Rule instances over the generator crate (scale_typegen), shared by several properties.

Every function takes (ctx, rid) — the property's own rule id — evaluates its
instances on the typed program in ctx.P and registers them with ctx.ok / ctx.bad.
Anchors are found by role (types, signatures, ADTs); a role that does not resolve
is reported (fail closed). Violation keys never contain line numbers.
"""
import re
from .core import q
from .core.q import ANY, expect_term, site, peel, arm_syms, arms_by_variant
from .core.norm import Norm, show, cshort, subterms, pat_variants, pat_repr, as_for_loop
from .core.ir import walk, strip, children
from .core import templates as T

GEN = ("scale_typegen",)
PRIMS_INT = ["U8", "U16", "U32", "U64", "U128", "I8", "I16", "I32", "I64", "I128"]


def _norm(ctx, fn):
    cache = ctx.__dict__.setdefault("_norms", {})
    if fn["path"] not in cache:
        cache[fn["path"]] = Norm(fn)
    return cache[fn["path"]]


def is_typedef(t):
    return t.startswith("scale_info::TypeDef<")


def is_prim(t):
    return t == "scale_info::TypeDefPrimitive"


def is_tpt(t):
    return t.endswith("type_path::TypePathType")


# ------------------------------------------------------------------ anchors ----
def resolver_fn(ctx, rid):
    """the fn matching on TypeDef and returning Result<TypePath, TypegenError>"""
    hits = q.fns_with_match_on(ctx.P, is_typedef, GEN,
                               ret_pred=lambda o: o.startswith("std::result::Result<typegen::type_path::TypePath,"))
    fn = q.anchor_fn(ctx, rid, "resolver (match on TypeDef -> Result<TypePath,_>)", hits)
    if fn is None:
        return None
    b, ms = fn
    if len(ms) != 1:
        ctx.bad(rid, "missing-anchor/resolver-match", b["sp"], "expected one TypeDef match in the resolver, found %d" % len(ms))
        return None
    return b, ms[0]


def syn_fn(ctx, rid):
    """TypePathType -> syn::Type conversion: fn with a match on TypePathType returning syn::Type"""
    hits = q.fns_with_match_on(ctx.P, is_tpt, GEN, ret_pred=lambda o: o == "syn::Type")
    fn = q.anchor_fn(ctx, rid, "syn conversion (match on TypePathType -> syn::Type)", hits)
    if fn is None:
        return None
    b, ms = fn
    return b, ms[0]


def _rec_expected(fn, id_term):
    """rendered recursive call of the resolver with literal `false` / `None` in nested position"""
    ins = fn["inputs"]
    i_id = q.param_index(fn, lambda t: t == "u32")
    i_field = q.param_index(fn, lambda t: t == "bool")
    i_par = q.param_index(fn, lambda t: "TypeParameter]" in t)
    i_name = q.param_index(fn, lambda t: t.startswith("std::option::Option<&str"))
    if None in (i_id, i_field, i_par, i_name):
        return None
    args = [None] * len(ins)
    args[0] = "P0"
    args[i_id] = id_term
    args[i_field] = "false"
    args[i_par] = "P%d" % i_par
    args[i_name] = "v1::None"
    return cshort(fn["path"]) + "(" + ",".join(args) + ")"


# -------------------------------------------------------------------- C01.1 ----
def prim_syn_table(ctx, rid, strict_root=True):
    """K1: TypeDefPrimitive -> ::core::primitive::<lower>, Str -> <alloc>::string::String, 256-bit unimplemented"""
    hits = q.fns_with_match_on(ctx.P, is_prim, GEN, ret_pred=lambda o: o in ("syn::Type", "syn::TypePath"))
    fn = q.anchor_fn(ctx, rid, "primitive table (match on TypeDefPrimitive in fn -> syn::Type / syn::TypePath)", hits)
    if fn is None:
        return
    b, ms = fn
    m = ms[0]
    N = _norm(ctx, b)
    variants = q.variants_of(ctx.P, "TypeDefPrimitive", "scale_info")
    ctx.count("TypeDefPrimitive variants", len(variants or []), 15)
    arms = arms_by_variant(m)
    raw = {id(n): (items, kind) for n, items, kind, _p in T.find_templates(m)}
    for v in variants:
        key = "prim-syn/" + v
        arm = arms.get(v)
        if arm is None:
            ctx.bad(rid, key, site(m), "no explicit arm for TypeDefPrimitive::%s%s" % (v, " (swallowed by a catch-all arm)" if "_" in arms else ""))
            continue
        t = N.term(arm["body"])
        if v in ("U256", "I256"):
            ctx.expect(t == ("opaque", "diverge") or t[0] == "tpl", rid, key, site(arm),
                       "256-bit integers are not Rust primitives: arm diverges (exception, W5)", "unexpected arm body: " + show(t))
            continue
        if v == "Str":
            ok = t[0] == "tpl" and t[1].startswith("parse_quote") and t[2] == "#0 :: string :: String"
            tys = [peel(e.get("ty", "")) for n, items, kind, _p in T.find_templates(arm["body"]) for e, info, _r in T.interps(items)]
            ok = ok and tys == ["typegen::settings::AllocCratePath"]
            if not ok and not strict_root:
                ok = t[0] == "tpl" and t[2] in (":: std :: string :: String", ":: alloc :: string :: String")
            ctx.expect(ok, rid, key, site(arm), "Str -> #alloc::string::String rooted at the AllocCratePath parameter",
                       "expected T[#alloc :: string :: String] with an AllocCratePath interpolation, found " + show(t) + " interp types " + str(tys))
            continue
        exp = ["T[:: core :: primitive :: %s]()" % v.lower()]
        if not strict_root:
            exp += ["T[:: std :: primitive :: %s]()" % v.lower(), "T[%s]()" % v.lower()]
        expect_term(ctx, rid, key, arm, t, exp, "%s -> ::core::primitive::%s" % (v, v.lower()))


# ------------------------------------------------------------- C01.3 .. C01.12 ----
def resolver_arms(ctx, rid):
    """K2+K4 on the resolver: all 8 TypeDef arms, children resolved recursively with is_field=false / None,
    results stored in the right TypePathType slot"""
    a = resolver_fn(ctx, rid)
    if a is None:
        return
    fn, m = a
    N = _norm(ctx, fn)
    arms = arms_by_variant(m)
    variants = q.variants_of(ctx.P, "TypeDef", "scale_info")
    ctx.count("TypeDef variants", len(variants or []), 8)
    for v in variants:
        if v not in arms:
            ctx.bad(rid, "resolver-arm/" + v, site(m), "no explicit arm for TypeDef::%s in the resolver%s" % (v, " (catch-all)" if "_" in arms else ""))
    if "_" in arms:
        ctx.bad(rid, "resolver-arm/wildcard", site(arms["_"]), "catch-all arm in the resolver's TypeDef match")
    # the scrutinee local (the resolved, possibly Cow-unwrapped type) becomes symbol TY
    scr = strip(m["scrut"])
    ty_id = None
    if scr.get("k") == "Field" and scr["name"] == "type_def":
        base = strip(scr["base"])
        if base.get("k") == "Path" and base.get("r") == "local":
            ty_id = base["id"]
    if ty_id is None:
        ctx.bad(rid, "missing-anchor/resolver-scrutinee", site(m), "the TypeDef match does not scrutinise `<local>.type_def`")
        return
    i_field = q.param_index(fn, lambda t: t == "bool")

    def REC(idt):
        return _rec_expected(fn, idt) + "?"

    def RECNQ(idt):
        return _rec_expected(fn, idt)

    def slots(v, variant):
        arm = arms.get(v)
        if arm is None:
            return None, None, None
        syms = arm_syms(arm["pat"])
        syms[ty_id] = "TY"
        lits = list(q.struct_lits(arm["body"], "TypePathType", variant))
        if len(lits) != 1:
            ctx.bad(rid, "resolver-arm/%s/literal" % v, site(arm), "expected exactly one TypePathType::%s literal in the %s arm, found %d" % (variant, v, len(lits)))
            return None, None, None
        t = N.term(lits[0], syms)
        return arm, lits[0], t[3]

    # Array
    arm, lit, f = slots("Array", "Array")
    if f:
        expect_term(ctx, rid, "resolver/Array.len", lit, f.get("len", ("opaque", "missing")), "(A.len as usize)", "array length is the registry's len (widening cast)")
        expect_term(ctx, rid, "resolver/Array.of", lit, f.get("of", ("opaque", "missing")), REC("A.type_param.id"), "element type resolved recursively, nested position")
    arm, lit, f = slots("Sequence", "Vec")
    if f:
        expect_term(ctx, rid, "resolver/Sequence.of", lit, f.get("of", ("opaque", "missing")), REC("A.type_param.id"), "sequence element resolved recursively")
    arm, lit, f = slots("Tuple", "Tuple")
    if f:
        expect_term(ctx, rid, "resolver/Tuple.elements", lit, f.get("elements", ("opaque", "missing")),
                    "Iterator::collect(Iterator::map(A.fields,|1|{%s}))?" % RECNQ("C1_0.id"), "tuple members in order, each resolved recursively")
    arm, lit, f = slots("Compact", "Compact")
    if f:
        expect_term(ctx, rid, "resolver/Compact.inner", lit, f.get("inner", ("opaque", "missing")), REC("A.type_param.id"), "compact inner type")
        expect_term(ctx, rid, "resolver/Compact.is_field", lit, f.get("is_field", ("opaque", "missing")), "P%d" % i_field, "is_field is the function's own flag")
        expect_term(ctx, rid, "resolver/Compact.path", lit, f.get("compact_type_path", ("opaque", "missing")),
                    "ok_or(P0.settings.compact_type_path,TypegenError::CompactPathNone)?", "compact path from settings or CompactPathNone")
    arm, lit, f = slots("BitSequence", "BitVec")
    if f:
        expect_term(ctx, rid, "resolver/BitSequence.order", lit, f.get("bit_order_type", ("opaque", "missing")), REC("A.bit_order_type.id"), "bit order type")
        expect_term(ctx, rid, "resolver/BitSequence.store", lit, f.get("bit_store_type", ("opaque", "missing")), REC("A.bit_store_type.id"), "bit store type")
        expect_term(ctx, rid, "resolver/BitSequence.path", lit, f.get("decoded_bits_type_path", ("opaque", "missing")),
                    "ok_or(P0.settings.decoded_bits_type_path,TypegenError::DecodedBitsPathNone)?", "decoded-bits path from settings or DecodedBitsPathNone")
    arm, lit, f = slots("Primitive", "Primitive")
    if f:
        expect_term(ctx, rid, "resolver/Primitive.def", lit, f.get("def", ("opaque", "missing")), "A", "primitive kind copied from the registry")
    # Composite | Variant: via the substitute funnel with the resolved, non-skipped parameters in order
    for v in ("Composite", "Variant"):
        arm = arms.get(v)
        if arm is None:
            continue
        syms = arm_syms(arm["pat"])
        # TY = the type as the match sees it (after the Cow unwrapping, C01.12): the path AND the parameters must be taken from that same value,
        # so the arm is rendered without a symbol and the scrutinee's own term is then abbreviated
        tys = show(N.term(strip(scr["base"]), syms), 10 ** 6)
        t = show(N.term(arm["body"], syms), 10 ** 6).replace(tys, "TY")
        exp = "TypeGenerator::type_path_maybe_with_substitutes(P0,TY.path,vec+(for(TY.type_params){if(let v1::Some($)=elem(TY.type_params).ty){%s?}else{'()'}}))" % RECNQ("elem(TY.type_params).ty@v1::Some.0.id")
        expect_term(ctx, rid, "resolver/%s.path" % v, arm, t, exp, "struct/enum reference: own path + non-skipped type params resolved in order (order-preserving filter_map)")
    # result wrapping
    body_t = N.term(fn["body"], {ty_id: "TY"})
    from .core.norm import subterms as _st
    wraps = [x for x in _st(body_t) if x[0] == "call" and x[1] == "TypePath::from_type" and x[2] and x[2][0][0] == "match"]
    oks = [x for x in _st(body_t) if x[0] == "call" and x[1] == "Ok" and x[2] and any(y is wraps[0] for y in _st(x[2][0]))] if wraps else []
    ctx.expect(len(wraps) == 1 and oks, rid, "resolver/result", fn["sp"], "result = Ok(TypePath::from_type(<match>))", "result term: " + show(body_t)[:300])


def resolver_entry_flags(ctx, rid):
    """K4: public entry points pass is_field = true (field) / false and the right name / params"""
    a = resolver_fn(ctx, rid)
    if a is None:
        return
    fn, _m = a
    name = cshort(fn["path"])
    i_id = q.param_index(fn, lambda t: t == "u32")
    i_field = q.param_index(fn, lambda t: t == "bool")
    i_par = q.param_index(fn, lambda t: "TypeParameter]" in t)
    i_name = q.param_index(fn, lambda t: t.startswith("std::option::Option<&str"))
    sites = q.call_terms(ctx, fn["path"], GEN)      # seen through private forwarding helpers
    callers = [(b, n, t) for b, n, t in sites if b["path"] != fn["path"]]
    ctx.count("resolver entry points", len(callers), 2)
    for b, n, t in callers:
        args = t[2]
        fld = show(args[i_field])
        if "field" in cshort(b["path"]).lower():
            ok = fld == "true" and args[i_par][0] == "param" and args[i_name][0] == "param" and args[i_id][0] == "param"
            ctx.expect(ok, rid, "entry/" + cshort(b["path"]), site(n), "field entry: is_field=true, id / parent params / original name passed through",
                       "field entry point calls the resolver as " + show(t))
        else:
            ok = fld == "false" and show(args[i_par]) in ("[]",) and show(args[i_name]) == "v1::None" and args[i_id][0] == "param"
            ctx.expect(ok, rid, "entry/" + cshort(b["path"]), site(n), "plain entry: is_field=false, no parent params, no name",
                       "entry point calls the resolver as " + show(t))
    # every public function of the generator that hands out a resolved path is such an entry point itself (it does not go through ANOTHER
    # entry point, whose flags it would inherit)
    direct = {b["path"] for b, _n, _t in callers}
    for c, b in ctx.P.all_bodies(GEN):
        if b.get("pub") and b.get("dk") in ("Fn", "AssocFn") and "typegen::TypeGenerator" in b["path"] and "type_path::TypePath," in b.get("output", "") \
                and b.get("output", "").startswith("std::result::Result<") and any(t == "u32" for t in b.get("inputs", [])) and b["path"] != fn["path"]:
            ctx.expect(b["path"] in direct, rid, "entry/direct/" + cshort(b["path"]), b["sp"], "public resolver entry calls the resolver itself with its own flags",
                       "`%s` hands out resolved type paths but does not call the resolver itself: it goes through another entry point and inherits that entry's is_field / parameter flags"
                       % cshort(b["path"]))
    # a nested resolution must not go through an entry point: the entry points start over with an empty parent-parameter list
    entry_paths = {b["path"] for b, _n, _t in callers}
    for n in walk(fn["body"]):
        if n.get("k") in ("Call", "MethodCall") and n.get("callee") in entry_paths:
            ctx.bad(rid, "nested-call/through-entry/" + cshort(n["callee"]), site(n),
                    "the resolver resolves a nested type through the entry point `%s`, which passes no parent parameters: a generic parameter used inside "
                    "this position is resolved to a concrete type" % cshort(n["callee"]))
    # nested recursive calls: literal false + None
    nested = [(n, t) for b, n, t in sites if b["path"] == fn["path"]]
    ctx.count("nested resolver calls", len(nested), 5)
    for n, t in nested:
        ok = show(t[2][i_field]) == "false" and show(t[2][i_name]) == "v1::None" and show(t[2][i_par]) == "P%d" % i_par
        ctx.expect(ok, rid, "nested-call/" + show(t[2][i_id])[-60:], site(n), "nested call passes is_field=false, None, own parent params",
                   "nested resolver call " + show(t))


def cow_unwrap(ctx, rid):
    """K4: a type whose ident is `Cow` is replaced by the type of its first parameter before the TypeDef match"""
    a = resolver_fn(ctx, rid)
    if a is None:
        return
    fn, m = a
    N = _norm(ctx, fn)
    scr = strip(m["scrut"])
    base = strip(scr.get("base", {}))
    lid = base.get("id")
    t = N.local_term(lid) if lid is not None else ("opaque", "?")
    i_id = q.param_index(fn, lambda t: t == "u32")
    got = show(t, 10 ** 5)
    R0 = "TypeGenerator::resolve_type(P0,P%d)?" % i_id
    exp = "TypeGenerator::resolve_type(P0,if((let v1::Some($)=Path::ident(%s.path)&&(Path::ident(%s.path)@v1::Some.0=='Cow'))){ok_or(%s.type_params['0'].ty,TypegenError::InvalidType(%s))?.id}else{P%d})?" % (R0, R0, R0, ANY, i_id)
    expect_term(ctx, rid, "cow-unwrap", m, got, exp, "Cow<T> is transparent: resolved type replaced by its first parameter's type")


def term_arms(N, fn, enum, param=0):
    """variant -> the arm's value as text, read off the function's whole term when that is one match on the parameter (so that what surrounds
    the match in the source - a constructor applied once after it, early returns in arms - is already in the arms); {} otherwise.
    The variant's fields read `A.field` as in the arm-by-arm reading."""
    ft = N.term(fn["body"])
    if ft[0] != "match" or ft[1] != ("param", param):
        return {}
    out = {}
    for p, g, b in ft[2]:
        m = re.match(r"%s::(\w+)" % enum, p)
        if g is not None or not m or m.group(1) in out:
            return {}
        v = m.group(1)
        out[v] = show(b, 10 ** 6).replace("P%d@%s::%s." % (param, enum, v), "A.")
    return out


# ------------------------------------------------------------ C01.13 .. C01.20 ----
def syn_arms(ctx, rid, strict_alloc=True):
    """K2+K4 on TypePathType::to_syn_type: per-variant templates and child conversions with the same alloc path
    (strict_alloc=False: which alloc path is threaded is not this property's concern)"""
    a = syn_fn(ctx, rid)
    if a is None:
        return
    fn, m = a
    N = _norm(ctx, fn)
    arms = arms_by_variant(m)
    variants = q.variants_of(ctx.P, "TypePathType", "scale_typegen")
    ctx.count("TypePathType variants", len(variants or []), 7)
    for v in variants:
        if v not in arms:
            ctx.bad(rid, "syn-arm/" + v, site(m), "no explicit arm for TypePathType::%s in the syn conversion" % v)
    conv = "TypePath::to_syn_type"
    i_alloc = q.param_index(fn, lambda t: t.endswith("AllocCratePath"))
    AP = ("P%d" % i_alloc) if strict_alloc else ANY

    def C(x):
        return "%s(%s,%s)" % (conv, x, AP)
    exp = {
        "Path": "Type::Path(if(slice::is_empty(A.params)){T[#0](A.path)}else{T[#0 < #( #1 ),* >](A.path,Iterator::map(A.params,|1|{%s}))})" % C("C1_0"),
        "Vec": "Type::Path(T[#0 :: vec :: Vec < #1 >](%s,%s))" % (AP, C("A.of")),
        "Array": "Type::Array(T[[ #0 ; #1 ]](%s,A.len))" % C("A.of"),
        "Tuple": "Type::Tuple(T[( #( #0 , )* )](Iterator::map(A.elements,|1|{%s})))" % C("C1_0"),
        "Compact": "Type::Path(if(A.is_field){T[#0](%s)}else{T[#0 < #1 >](A.compact_type_path,%s)})" % (C("A.inner"), C("A.inner")),
        "BitVec": "Type::Path(T[#0 < #1 , #2 >](A.decoded_bits_type_path,%s,%s))" % (C("A.bit_store_type"), C("A.bit_order_type")),
    }
    why = {
        "Path": "named type: path, with <args> in order when there are any",
        "Vec": "sequence -> <alloc>::vec::Vec<elem>",
        "Array": "array -> [elem; len]",
        "Tuple": "tuple -> (e0, e1, ..) with the comma inside the repetition (1-tuples keep it)",
        "Compact": "compact: bare inner type in field position (attribute carries the marker), Compact<inner> elsewhere",
        "BitVec": "bit sequence -> DecodedBits<Store, Order> (store first)",
    }
    by_term = term_arms(N, fn, "TypePathType")
    for v, e in exp.items():
        arm = arms.get(v)
        if arm is None:
            continue
        t = by_term.get(v) if by_term.get(v) is not None else N.term(arm["body"], arm_syms(arm["pat"]))
        expect_term(ctx, rid, "syn/" + v, arm, t, e, why[v])
    # the wrapper: TypePath::to_syn_type dispatches Parameter -> its tokens, Type -> this conversion
    w = q.fn1(ctx.P, "type_path::TypePath::to_syn_type", "scale_typegen")
    if w is None:
        ctx.bad(rid, "missing-anchor/TypePath::to_syn_type", "", "TypePath::to_syn_type not found")
    else:
        Nw = _norm(ctx, w)
        t = Nw.term(w["body"])
        exp_w = q.mk_match("P0.0", [("TypePathInner::Parameter($)", "Type::Path(T[#0](P0.0@TypePathInner::Parameter.0))"),
                                    ("TypePathInner::Type($)", "TypePathType::to_syn_type(P0.0@TypePathInner::Type.0,%s)" % ("P1" if strict_alloc else ANY))])
        expect_term(ctx, rid, "syn/wrapper", w["sp"], t, exp_w, "parameter -> its own tokens; concrete type -> conversion with the same alloc path")
    tp = [b for b in q.fn_by_suffix(ctx.P, "quote::ToTokens>::to_tokens", "scale_typegen") if "TypeParameter as" in b["path"] and "TypeParameters" not in b["path"]]
    if len(tp) == 1:
        Np = _norm(ctx, tp[0])
        expect_term(ctx, rid, "syn/param-tokens", tp[0]["sp"], Np.term(tp[0]["body"]), "Extend::extend(P1,T[#0](P0.name))", "a type parameter renders as its generated name only")
    else:
        ctx.bad(rid, "missing-anchor/TypeParameter::to_tokens", "", "impl ToTokens for TypeParameter not found (%d)" % len(tp))


# ----------------------------------------------------------- C01.21 .. C01.23 ----
CORE_CLASS = {"Option": "option", "Result": "result", "Range": "ops", "RangeInclusive": "ops", "Duration": "time"}
ALLOC_CLASS = {"Cow": "borrow", "BTreeMap": "collections", "BTreeSet": "collections", "BinaryHeap": "collections",
               "VecDeque": "collections", "LinkedList": "collections"}


def scale_info_prelude_names(P):
    c = P.crates.get("scale_info")
    names = set()
    if c is None:
        return names
    for b in c.bodies.values():
        if "body" not in b:
            continue
        for n in walk(b["body"]):
            if n.get("k") == "Call" and n.get("callee", "").endswith("Path::prelude"):
                a = strip(n["args"][0])
                if a.get("k") == "Lit":
                    names.add(a["v"])
    return names


def prelude_fn(ctx, rid, outer=False):
    """the function holding the prelude table: the match on &str in the fn -> TypePathType, or in a private helper that belongs to it
    (q.owners). With outer=True the fn -> TypePathType itself is returned"""
    hits = []
    for c, b in ctx.P.all_bodies(GEN):
        if "body" not in b or q.derived(b):
            continue
        ms = [m for m in q.matches_on(b["body"], lambda t: t in ("str", "std::string::String"))]
        if not ms:
            continue
        if b.get("output", "").endswith("type_path::TypePathType"):
            hits.append((b, ms))
            continue
        own = [ctx.P.body(o) for o in q.owners(ctx, b["path"], GEN) if o != b["path"]]
        if own and all(o is not None and o.get("output", "").endswith("type_path::TypePathType") for o in own) and len(own) == 1:
            hits.append((own[0] if outer else b, ms))
    fn = q.anchor_fn(ctx, rid, "prelude table (match on &str in fn -> TypePathType)", hits)
    return fn


def prelude_table(ctx, rid, only_panic_discharge=False, strict_root=True):
    """K1: prelude names -> paths; table ⊇ scale-info's prelude set (minus PhantomData, W5)"""
    a = prelude_fn(ctx, rid)
    if a is None:
        return None
    fn, ms = a
    m = ms[0]
    N = _norm(ctx, fn)
    i_alloc = q.param_index(fn, lambda t: t.endswith("AllocCratePath"))
    keys = {}
    for arm in m["arms"]:
        for v in pat_variants(arm["pat"]):
            if v.startswith("lit:"):
                keys[v[4:]] = arm
    ctx.count("prelude table entries", len(keys), 22)
    si = scale_info_prelude_names(ctx.P)
    ctx.count("scale-info prelude names", len(si), 20)
    missing = sorted(n for n in si if n not in keys and n != "PhantomData")
    for n in sorted(si):
        if n == "PhantomData":
            continue
        ctx.expect(n not in missing, rid, "prelude/missing/" + n, site(m),
                   "scale-info emits the single-segment path `%s`; the table has an arm for it" % n,
                   "scale-info 2.11 describes std's `%s` with the prelude path `%s`, but the generator's prelude table has no arm for it: "
                   "the catch-all arm panics (`Unknown prelude type`) for a well-formed registry" % (n, n))
    if only_panic_discharge:
        return missing
    from .core.norm import rewrite as _rw, _renumber_slots
    sc = N.term(m["scrut"])

    def for_key(t, k):
        """an arm shared by several names that splices the matched name into its template (`format_ident!("{}", name)`): the template for name k"""
        t = _rw(t, lambda n: ("lit", k) if n == sc else n[2][0] if n[0] == "call" and n[1] == "__private::IdentFragmentAdapter" and len(n[2]) == 1 else None)
        if t[0] != "tpl":
            return t
        text, slots = t[2], list(t[3])
        for i, sl in enumerate(slots):
            if sl[0] == "call" and sl[1] == "format_ident" and len(sl[2]) == 1 and sl[2][0][0] == "fmt" \
                    and all(p_[0] == "lit" or (p_[0] == "arg" and p_[2][0] == "lit" and isinstance(p_[2][1], str)) for p_ in sl[2][0][1]):
                ident = "".join(p_[1] if p_[0] == "lit" else p_[2][1] for p_ in sl[2][0][1])
                if re.fullmatch(r"[A-Za-z_]\w*", ident):
                    text = " ".join(ident if tok == "#%d" % i else tok for tok in text.split(" "))
        text, slots = _renumber_slots(text, slots)
        return ("tpl", t[1], text, slots)
    for k, arm in sorted(keys.items()):
        t = for_key(N.term(arm["body"]), k)
        if t[0] != "tpl":
            ctx.bad(rid, "prelude/" + k, site(arm), "arm for `%s` is not a path template: %s" % (k, show(t)))
            continue
        text = t[2]
        segs = [s for s in text.split(" ") if s not in ("::",)]
        last_ok = segs[-1] == k
        if k in ALLOC_CLASS:
            exp = "#0 :: %s :: %s" % (ALLOC_CLASS[k], k)
            ok = text == exp and show(t[3][0]) == "P%d" % i_alloc
            if not strict_root and not ok:
                # the same std type under another root: identity of the type is what matters here
                ok = text in (":: std :: %s :: %s" % (ALLOC_CLASS[k], k), ":: alloc :: %s :: %s" % (ALLOC_CLASS[k], k))
        elif k in CORE_CLASS:
            exp = ":: core :: %s :: %s" % (CORE_CLASS[k], k)
            ok = text == exp or (not strict_root and text == ":: std :: %s :: %s" % (CORE_CLASS[k], k))
        elif k.startswith("NonZero"):
            exp = ":: core :: num :: %s" % k
            ok = text == exp or (not strict_root and text == ":: std :: num :: %s" % k)
        else:
            exp = "(a known root class)"
            ok = False
        ctx.expect(ok and last_ok, rid, "prelude/" + k, site(arm), "`%s` -> %s" % (k, exp),
                   "prelude name `%s` maps to `%s` (expected `%s`)" % (k, text, exp))
    return missing


def generated_path(ctx, rid):
    """K4: >= 2 segments -> root module ident followed by all segments in order; params passed through"""
    a = prelude_fn(ctx, rid, outer=True)
    if a is None:
        return
    fn, ms = a
    N = _norm(ctx, fn)
    i_root = q.param_index(fn, lambda t: t == "proc_macro2::Ident")
    i_params = q.param_index(fn, lambda t: t.startswith("std::vec::Vec<typegen::type_path::TypePath"))
    i_path = q.param_index(fn, lambda t: t.startswith("&scale_info::Path<"))
    t = N.term(fn["body"])
    ok = t[0] == "struct" and t[2] == "Path"
    if not ok:
        ctx.bad(rid, "generated-path/result", fn["sp"], "result is not a TypePathType::Path literal: " + show(t)[:200])
        return
    expect_term(ctx, rid, "generated-path/params", fn["sp"], t[3]["params"], "P%d" % i_params, "generic arguments passed through unchanged")
    pm = t[3]["path"]
    ok = pm[0] == "match" and show(pm[1]) == "P%d.segments" % i_path
    ctx.expect(ok, rid, "generated-path/dispatch", fn["sp"], "path chosen by the number of segments", "path term: " + show(pm)[:200])
    if not ok:
        return
    arms = {p: b for p, g, b in pm[2]}
    ctx.expect("[]" in arms and arms["[]"] == ("opaque", "diverge"), rid, "generated-path/empty", fn["sp"],
               "empty path: unreachable for struct/enum (W3), diverges", "arms: " + str(list(arms)))
    gen = arms.get("_", arms.get("$"))          # the catch-all arm, whether it names the slice or not
    exp = ("T[#0](vec+(From::from(P%d),for(P%d.segments){From::from(format_ident(F[{__private::IdentFragmentAdapter(elem(P%d.segments))}]))}))"
           % (i_root, i_path, i_path))
    if gen is None:
        ctx.bad(rid, "generated-path/multi", fn["sp"], "no arm for multi-segment paths")
    else:
        expect_term(ctx, rid, "generated-path/multi", fn["sp"], gen, exp,
                    "generated path = root module ident, then every segment in order (order-preserving map), no leading `::`")


# ---------------------------------------------------------------- C01.24 .. 28 ----
def create_type_ir_fn(ctx, rid):
    fns = [b for b in q.fn_by_suffix(ctx.P, "create_type_ir", "scale_typegen")]
    return q.anchor_fn(ctx, rid, "create_type_ir", fns)


def cck_fn(ctx, rid):
    hits = [b for c, b in ctx.P.all_bodies(GEN)
            if b.get("output", "").startswith("std::result::Result<typegen::ir::type_ir::CompositeIRKind,")]
    return q.anchor_fn(ctx, rid, "composite-kind builder (fn -> Result<CompositeIRKind,_>)", hits)


def enum_struct_ir(ctx, rid):
    """K4 on the EnumIR / struct CompositeIR construction: index <- v.index, name <- v.name, kind <- same v's fields"""
    fn = create_type_ir_fn(ctx, rid)
    if fn is None:
        return
    N = _norm(ctx, fn)
    i_ty = q.param_index(fn, lambda t: t.startswith("&scale_info::Type<"))
    TY = "P%d" % i_ty
    enums = list(q.struct_lits(fn["body"], "type_ir::EnumIR"))
    all_enum_sites = [(b["path"], n) for c, b in ctx.P.all_bodies(GEN) if "body" in b and not q.derived(b) for n in q.struct_lits(b["body"], "type_ir::EnumIR")]
    ctx.expect(len(all_enum_sites) == 1 and len(enums) == 1, rid, "enum-ir/who-may-construct", fn["sp"],
               "EnumIR is constructed at exactly one site", "EnumIR literals at: " + str([p for p, _ in all_enum_sites]))
    tp_sym = None
    # the type-parameters local (mutated by the composite-kind builder)
    for lid, (origin, path, pat) in N.defs.items():
        if pat.get("ty", "").endswith("type_params::TypeParameters") and not pat.get("ty", "").startswith("&") and origin[0] == "let":
            tp_sym = lid            # (the owned local, not a `&mut` alias of it handed to a helper)
    syms = {tp_sym: "TP"} if tp_sym is not None else {}
    name_exp = "syn::parse_str(Path::ident(%s.path)@v1::Some.0)?" % TY
    docs_exp = "TypeGenerator::docs_from_scale_info(P0,%s.docs)" % TY
    if enums:
        t = N.term(enums[0], syms)
        f = t[3]
        vexp = ("Iterator::collect(Iterator::map(%s.type_def@TypeDef::Variant.0.variants,|1|{Ok((C1_0.index,type_ir::CompositeIR{docs:TypeGenerator::docs_from_scale_info(P0,C1_0.docs),"
                "kind:TypeGenerator::create_composite_ir_kind(P0,C1_0.fields,TP)?,name:syn::parse_str(C1_0.name)?}))}))?") % TY
        expect_term(ctx, rid, "enum-ir/variants", enums[0], f["variants"], vexp,
                    "per variant, in registry order: (v.index, CompositeIR{name <- v.name, kind <- v.fields of the same v, docs <- v.docs})")
        expect_term(ctx, rid, "enum-ir/name", enums[0], f["name"], name_exp, "item name = last path segment")
        expect_term(ctx, rid, "enum-ir/docs", enums[0], f["docs"], docs_exp, "type docs")
    structs = [n for n in q.struct_lits(fn["body"], "type_ir::CompositeIR")
               if show(N.term(n, syms)[3].get("kind", ("opaque", "?"))).find("@TypeDef::Composite") >= 0]
    ctx.expect(len(structs) == 1, rid, "struct-ir/anchor", fn["sp"], "one CompositeIR literal for the struct arm", "found %d" % len(structs))
    if structs:
        t = N.term(structs[0], syms)
        f = t[3]
        expect_term(ctx, rid, "struct-ir/kind", structs[0], f["kind"],
                    "TypeGenerator::create_composite_ir_kind(P0,%s.type_def@TypeDef::Composite.0.fields,TP)?" % TY, "struct fields from the composite's own field list")
        expect_term(ctx, rid, "struct-ir/name", structs[0], f["name"], name_exp, "item name = last path segment")
        expect_term(ctx, rid, "struct-ir/docs", structs[0], f["docs"], docs_exp, "type docs")
    # early return for non struct/enum
    bt = N.term(fn["body"], syms)
    ok = bt[0] == "call" and bt[1] == "Ok" and bt[2][0][0] == "call" and bt[2][0][1] == "then" \
        and show(bt[2][0][2][0]) == "(let TypeDef::Composite($)=%s.type_def||let TypeDef::Variant($)=%s.type_def)" % (TY, TY) and bt[2][0][2][1][0] == "struct"
    ctx.expect(ok, rid, "type-ir/only-struct-enum", fn["sp"], "an IR is built iff the definition is Composite or Variant (Ok(None) otherwise)",
               "result: " + show(bt)[:200])
    # the TypeIR literal
    tirs = list(q.struct_lits(fn["body"], "type_ir::TypeIR"))
    if len(tirs) == 1:
        t = N.term(tirs[0], syms)
        f = t[3]
        expect_term(ctx, rid, "type-ir/codec-flag", tirs[0], f["insert_codec_attributes"], "P0.settings.insert_codec_attributes", "codec flag copied from settings")
        expect_term(ctx, rid, "type-ir/type-params", tirs[0], f["type_params"], "TP", "the (used-marked) parameter list of this definition")
        kd = f["kind"]
        ok = kd[0] == "match" and show(kd[1]) == "%s.type_def" % TY
        ctx.expect(ok, rid, "type-ir/kind", site(tirs[0]), "kind chosen by the definition's TypeDef", "kind term " + show(kd)[:200])
    else:
        ctx.bad(rid, "missing-anchor/TypeIR-literal", fn["sp"], "expected one TypeIR literal in create_type_ir, found %d" % len(tirs))
    # TP initialisation
    if tp_sym is not None:
        def init_of(x):
            # the initial value of a local that is afterwards only mutated in place (possibly under one guard: `if c { mut[I; ..] } else { I }`)
            while x[0] == "mut":
                x = x[2]
            if x[0] == "if":
                a, b = init_of(x[2]), init_of(x[3])
                if a == b:
                    return a
            return x
        init = init_of(N.local_term(tp_sym))
        expect_term(ctx, rid, "type-ir/params-init", fn["sp"], init, "TypeParameters::from_scale_info(%s.type_params)" % TY, "declared parameters from the definition's own type_params")
    else:
        ctx.bad(rid, "missing-anchor/type-params-local", fn["sp"], "no TypeParameters local in create_type_ir")


def field_closures(ctx, rid):
    """K4+K14: the two per-field closures of the composite-kind builder"""
    fn = cck_fn(ctx, rid)
    if fn is None:
        return
    N = _norm(ctx, fn)
    cls = list(q.closures(fn["body"], lambda t: t.startswith("scale_info::Field<")))
    # only closures that build a field IR (not the all()/any() predicates)
    cls = [c for c in cls if "CompositeFieldIR" in c.get("ty", "") or "CompositeFieldIR" in show(N.term(c["body"]))]
    # the per-field constructions as the function's term has them: the element function of the list under Named(..) / Unnamed(..), whether the
    # source maps a closure over the fields, pushes in a loop, or calls a private helper per field
    by_term = {}
    for x in subterms(N.term(fn["body"])):
        if x[0] == "call" and x[1] in ("CompositeIRKind::Named", "CompositeIRKind::Unnamed") and len(x[2]) == 1:
            a = x[2][0][1] if x[2][0][0] == "try" else x[2][0]
            if a[0] == "call" and a[1] == "Iterator::collect" and len(a[2]) == 1 and a[2][0][0] == "call" and a[2][0][1] == "Iterator::map" \
                    and len(a[2][0][2]) == 2 and a[2][0][2][1][0] == "closure" and show(a[2][0][2][0]) == "P1":
                by_term.setdefault(x[1], a[2][0][2][1][3])
    use_terms = len(by_term) == 2
    ctx.count("field-emitting closures", 2 if use_terms else len(cls), 2)
    i_tp = q.param_index(fn, lambda t: t.endswith("type_params::TypeParameters"))
    TP = "P%d" % i_tp
    PATH = "TypeGenerator::resolve_field_type_path(P0,C1_0.ty.id,TypeParameters::params(%s),C1_0.type_name)?" % TP
    FIR = "CompositeFieldIR::new(%s,TypePath::is_compact(%s),(let v1::Some($)=C1_0.type_name&&str::contains(C1_0.type_name@v1::Some.0,'Box<')))" % (PATH, PATH)
    MARK = "for(BTreeSet::iter(TypePath::parent_type_params(%s))){TypeParameters::mark_used(%s,elem(BTreeSet::iter(TypePath::parent_type_params(%s))))}" % (PATH, TP, PATH)
    exp_named = "{%s;Ok((syn::parse_str(C1_0.name@v1::Some.0)?,%s))}" % (MARK, FIR)
    exp_unnamed = "{%s;Ok(%s)}" % (MARK, FIR)
    ctx.mention(exp_named, exp_unnamed)
    seen = set()
    items = [(fn, bt) for _k, bt in sorted(by_term.items())] if use_terms else [(c, N.term(c["body"])) for c in cls]
    for c, t in items:
        s = show(t, 10 ** 5)
        if q.term_matches(s, exp_named):
            seen.add("named")
            ctx.ok(rid, "field-closure/named", site(c), "ident <- field.name; path <- resolve_field_type_path(field.ty.id, params, field.type_name); is_compact <- path.is_compact(); is_boxed <- type_name contains `Box<`; used params marked")
        elif q.term_matches(s, exp_unnamed):
            seen.add("unnamed")
            ctx.ok(rid, "field-closure/unnamed", site(c), "same field IR as the named closure, without ident")
        else:
            ctx.bad(rid, "field-closure/unexpected", site(c), "a per-field closure deviates from the field-IR construction shared by named and unnamed fields\nfound:    %s\nexpected: %s\n      or: %s" % (s, exp_named, exp_unnamed))
    for k in ("named", "unnamed"):
        if k not in seen and len(items) >= 2 and not any(i["key"] == "field-closure/unexpected" and not i["ok"] for i in ctx.instances):
            ctx.bad(rid, "field-closure/" + k, fn["sp"], "no %s-field closure found" % k)
    # pipelines + kind selection
    t = N.term(fn["body"])
    NAMED = "Iterator::all(P1,|1|{Option::is_some(C1_0.name)})"
    UNNAMED = "Iterator::all(P1,|1|{Option::is_none(C1_0.name)})"
    NMAP = "CompositeIRKind::Named(Iterator::collect(Iterator::map(P1,|1|{%s}))?)" % ANY
    UMAP = "CompositeIRKind::Unnamed(Iterator::collect(Iterator::map(P1,|1|{%s}))?)" % ANY
    # decision normal form (the question order with the fewest tests, assignments no field list can produce left open): all-unnamed and all-named
    # together is exactly the empty list, so the emptiness test itself is decided away, as is the `unreachable!()` of the source
    E = "slice::is_empty(P1)"
    NO = "CompositeIRKind::NoFields"
    exp_sel = ("if(%s){Ok(if(%s){%s}else{%s})}else{if(%s){Ok(%s)}else{Err(TypegenError::InvalidFields(%s))}}"
               % (UNNAMED, NAMED, NO, UMAP, NAMED, NMAP, ANY))
    expect_term(ctx, rid, "kind-selection", fn["sp"], t, exp_sel,
                "empty -> NoFields; mixed -> Err(InvalidFields); all named -> Named(order-preserving map); all unnamed -> Unnamed(order-preserving map)")
    # CompositeFieldIR::new is a plain constructor
    nf = q.fn1(ctx.P, "CompositeFieldIR::new", "scale_typegen")
    if nf is None:
        ctx.bad(rid, "missing-anchor/CompositeFieldIR::new", "", "CompositeFieldIR::new not found")
    else:
        expect_term(ctx, rid, "cfir-new", nf["sp"], _norm(ctx, nf).term(nf["body"]),
                    "type_ir::CompositeFieldIR{is_boxed:P2,is_compact:P1,type_path:P0}", "constructor stores its arguments unchanged")


# --------------------------------------------------------------- C01.29 .. 34 ----
def type_ir_tokens_fn(ctx, rid):
    fns = [b for b in q.fn_by_suffix(ctx.P, "ToTokensWithSettings>::to_tokens", "scale_typegen") if "type_ir::TypeIR as" in b["path"]]
    return q.anchor_fn(ctx, rid, "impl ToTokensWithSettings for TypeIR", fns)


def CA(x, fl):
    # the private helper that yields the attribute is looked through: `#[codec(compact)]` iff the flag is set and the field is compact
    return "then((%s&&%s.is_compact),T[# [ codec ( compact ) ]]())" % (fl, x)


def dispatch_on_kind(t):
    """`ts.extend(quote!(#a #b #item))` with item = match self.kind { .. => quote!(..) } is the match around the whole template: what is written
    once around the choice belongs to each alternative"""
    from .core.norm import _tpl_over_match, _extend_over_match
    if t[0] == "call" and t[1] == "Extend::extend" and len(t[2]) == 2 and t[2][1][0] == "tpl":
        inner = t[2][1]
        ks = [sl for sl in inner[3] if sl[0] == "match" and show(sl[1]) == "P0.kind"]
        if len(ks) == 1:
            return _extend_over_match(t[2][0], _tpl_over_match(inner, min_slots=1))
    return t


def item_templates(ctx, rid):
    """K4/K5: struct / enum item templates, variant template with codec(index = <identity of v.index>)"""
    fn = type_ir_tokens_fn(ctx, rid)
    if fn is None:
        return
    N = _norm(ctx, fn)
    t = dispatch_on_kind(N.term(fn["body"]))
    if t[0] != "match" or show(t[1]) != "P0.kind":
        ctx.bad(rid, "item/dispatch", fn["sp"], "TypeIR::to_tokens does not dispatch on self.kind: " + show(t)[:200])
        return
    arms = {p.split("(")[0].split("::")[-1]: b for p, g, b in t[2]}
    S = "P0.kind@TypeIRKind::Struct.0"
    E = "P0.kind@TypeIRKind::Enum.0"
    # the two private field emitters are looked through: the struct / variant templates carry the field templates in their field slot
    exp_struct = ("Extend::extend(P1,T[#0 #1 pub struct #2 #3 #4 #5](P0.derives,TypeIR::docs(P0),TypeIR::ident(P0),P0.type_params,%s,"
                  "then((let CompositeIRKind::NoFields=%s.kind||let CompositeIRKind::Unnamed(_)=%s.kind),T[;]())))") % (struct_fields_exp(S), S, S)
    if "Struct" in arms:
        expect_term(ctx, rid, "item/struct", fn["sp"], arms["Struct"], exp_struct,
                    "`#derives #docs pub struct #ident #generics #fields #semi`; `;` iff the struct is a unit or tuple struct; marker from the unused-parameter set")
    else:
        ctx.bad(rid, "item/struct", fn["sp"], "no Struct arm")
    # the list of variants (a loop over the IR's variants, then the optional marker variant) under `#( #variants , )*` reads as its pieces: one
    # repetition of `variant ,` over the variants, then the optional `__Ignore(..) ,`
    VAR = ("Iterator::map(%s.variants,|1|{T[#0 #1 #2 #3 ,](then(P0.insert_codec_attributes,T[# [ codec ( index = #0 ) ]](Literal::u8_unsuffixed(C1_0.0))),"
           "C1_0.1.docs,C1_0.1.name,%s)})") % (E, enum_fields_exp("C1_0.1", inner="C2_0"))
    PH = "TypeParameters::unused_params_phantom_data(P0.type_params)"
    exp_enum = ("Extend::extend(P1,T[#0 #1 pub enum #2 #3 { #( #4 )* #5 }](P0.derives,TypeIR::docs(P0),TypeIR::ident(P0),P0.type_params,%s,"
                "Option::map(%s,|1|{T[__Ignore ( #0 ) ,](C1_0)})))") % (VAR, PH)
    if "Enum" in arms:
        expect_term(ctx, rid, "item/enum", fn["sp"], arms["Enum"], exp_enum,
                    "`#derives #docs pub enum #ident #generics { #(#variants,)* }`; variants in order, each `#[codec(index = v.index)]`(iff flag) docs ident fields; "
                    "`__Ignore(PhantomData)` appended iff there are unused parameters")
    else:
        ctx.bad(rid, "item/enum", fn["sp"], "no Enum arm")
    for nm, fld in (("ident", "name"), ("docs", "docs")):
        h = q.fn1(ctx.P, "type_ir::TypeIR::" + nm, "scale_typegen")
        if h is None:
            ctx.bad(rid, "missing-anchor/TypeIR::" + nm, "", "helper TypeIR::%s not found" % nm)
            continue
        exp_h = q.mk_match("P0.kind", [("TypeIRKind::Struct($)", "P0.kind@TypeIRKind::Struct.0.%s" % fld), ("TypeIRKind::Enum($)", "P0.kind@TypeIRKind::Enum.0.%s" % fld)])
        expect_term(ctx, rid, "item/helper-" + nm, h["sp"], _norm(ctx, h).term(h["body"]), exp_h, "item %s taken from the struct / enum IR" % nm)


PH_GEN = "TypeParameters::unused_params_phantom_data(P0.type_params)"
FL_GEN = "P0.insert_codec_attributes"
ST_GEN = "P2"


def struct_fields_exp(C):
    """the field list of a struct item for the composite C (a term in TypeIR::to_tokens' own parameters)"""
    SKIP = "then(%s,T[# [ codec ( skip ) ]]())" % FL_GEN
    return q.mk_match(C + ".kind", [
        ("CompositeIRKind::NoFields", "if(let v1::Some($)=%s){T[( pub #0 )](%s@v1::Some.0)}else{T[]()}" % (PH_GEN, PH_GEN)),
        ("CompositeIRKind::Named($)", "T[{ #( #0 )* #1 }](Iterator::map(%s.kind@CompositeIRKind::Named.0,|1|{T[#0 pub #1 : #2 ,](%s,C1_0.0,ToTokensWithSettings::to_token_stream(C1_0.1,%s))}),"
                                      "Option::map(%s,|1|{T[#0 pub __ignore : #1](%s,C1_0)}))" % (C, CA("C1_0.1", FL_GEN), ST_GEN, PH_GEN, SKIP)),
        ("CompositeIRKind::Unnamed($)", "T[( #( #0 )* #1 )](Iterator::map(%s.kind@CompositeIRKind::Unnamed.0,|1|{T[#0 pub #1 ,](%s,ToTokensWithSettings::to_token_stream(C1_0,%s))}),"
                                        "Option::map(%s,|1|{T[#0 pub #1](%s,C1_0)}))" % (C, CA("C1_0", FL_GEN), ST_GEN, PH_GEN, SKIP))])


def enum_fields_exp(C, inner="C1_0"):
    """the field list of an enum variant for the composite C (inner: how the per-field closure's parameter reads at that nesting depth)"""
    X = inner
    return q.mk_match(C + ".kind", [
        ("CompositeIRKind::NoFields", "T[]()"),
        ("CompositeIRKind::Named($)", "T[{ #( #0 )* }](Iterator::map(%s.kind@CompositeIRKind::Named.0,|1|{T[#0 #1 : #2 ,](%s,%s.0,ToTokensWithSettings::to_token_stream(%s.1,%s))}))" % (C, CA(X + ".1", FL_GEN), X, X, ST_GEN)),
        ("CompositeIRKind::Unnamed($)", "T[( #( #0 )* )](Iterator::map(%s.kind@CompositeIRKind::Unnamed.0,|1|{T[#0 #1 ,](%s,ToTokensWithSettings::to_token_stream(%s,%s))}))" % (C, CA(X, FL_GEN), X, ST_GEN))])


def field_templates(ctx, rid, strict_alloc=True):
    """K4+K5+K14: the four field emitters, compact attribute guard, marker with codec(skip), Box wrapper. The emitters are private helpers of
    TypeIR::to_tokens and are looked through: their templates are read from the field slot of the struct / variant template."""
    fn = type_ir_tokens_fn(ctx, rid)
    if fn is None:
        return
    t = dispatch_on_kind(_norm(ctx, fn).term(fn["body"]))
    slot_s = slot_e = None
    for x in subterms(t):
        if x[0] == "tpl" and x[2] == "#0 #1 pub struct #2 #3 #4 #5" and len(x[3]) == 6:
            slot_s = x[3][4]
        if x[0] == "tpl" and x[2] in ("#0 #1 #2 #3", "#0 #1 #2 #3 ,") and len(x[3]) == 4 and slot_e is None:
            slot_e = x[3][3]
    S = "P0.kind@TypeIRKind::Struct.0"
    EV = "C1_0.1"
    if slot_s is None or slot_e is None:
        ctx.bad(rid, "missing-anchor/field-emitters", fn["sp"], "the field slot of the struct template / of the variant template was not found in TypeIR::to_tokens")
        return
    expect_term(ctx, rid, "fields/struct", fn["sp"], slot_s, struct_fields_exp(S),
                "unit: `(pub #marker)` iff marker; named: `{ #(#[codec(compact)]? pub name: ty,)* #[codec(skip)]? pub __ignore: marker }`; tuple likewise; "
                "compact attribute iff is_compact && flag; fields in IR order")
    expect_term(ctx, rid, "fields/enum", fn["sp"], slot_e, enum_fields_exp(EV, inner="C2_0"),
                "variant fields: same slots as the struct emitter without `pub` and without marker (sibling agreement)")
    bw = [b for b in q.fn_by_suffix(ctx.P, "ToTokensWithSettings>::to_tokens", "scale_typegen") if "CompositeFieldIR as" in b["path"]]
    if len(bw) != 1:
        ctx.bad(rid, "missing-anchor/CompositeFieldIR::to_tokens", "", "impl ToTokensWithSettings for CompositeFieldIR not found")
    else:
        exp_b = ("Extend::extend(P1,if(P0.is_boxed){T[#0 :: boxed :: Box < #1 >](P2.alloc_crate_path,TypePath::to_syn_type(P0.type_path,P2.alloc_crate_path))}"
                 "else{T[#0](TypePath::to_syn_type(P0.type_path,P2.alloc_crate_path))})")
        if not strict_alloc:
            exp_b = [exp_b, ("Extend::extend(P1,if(P0.is_boxed){T[%s :: boxed :: Box < #%s >](%sTypePath::to_syn_type(P0.type_path,%s))}"
                             "else{T[#0](TypePath::to_syn_type(P0.type_path,%s))})") % (ANY, ANY, ANY, ANY, ANY)]
        expect_term(ctx, rid, "fields/box-wrap", bw[0]["sp"], _norm(ctx, bw[0]).term(bw[0]["body"]), exp_b,
                    "`<alloc>::boxed::Box<ty>` iff is_boxed, else `ty`; ty converted with the settings' alloc path")


# -------------------------------------------------------------------- module ----
def module_template(ctx, rid):
    """K4: `pub mod #name { use super::#root; #(#modules)* #(#types)* }` over BTreeMap::values in key order"""
    fns = [b for b in q.fn_by_suffix(ctx.P, "ToTokensWithSettings>::to_tokens", "scale_typegen") if "module_ir::ModuleIR as" in b["path"]]
    fn = q.anchor_fn(ctx, rid, "impl ToTokensWithSettings for ModuleIR", fns)
    if fn is None:
        return
    t = _norm(ctx, fn).term(fn["body"])
    M = "Iterator::map(BTreeMap::values(P0.children),|1|{ToTokensWithSettings::to_token_stream(C1_0,P2)})"
    Ty = "Iterator::map(BTreeMap::values(P0.types),|1|{ToTokensWithSettings::to_token_stream(C1_0.1,P2)})"
    exps = ["Extend::extend(P1,T[pub mod #0 { use super :: #1 ; #( #2 )* #( #3 )* }](P0.name,P0.root_mod,%s,%s))" % (M, Ty),
            "Extend::extend(P1,T[pub mod #0 { use super :: #1 ; #( #2 )* #( #3 )* }](P0.name,P0.root_mod,%s,%s))" % (Ty, M)]
    expect_term(ctx, rid, "module-template", fn["sp"], t, exps,
                "module = `pub mod name { use super::root; child modules; types }`, both lists iterated as BTreeMap::values (key order)")


# ----------------------------------------------------------------- C03.1 / C02.1 ----
def gen_mod_fn(ctx, rid):
    fns = q.fn_by_suffix(ctx.P, "generate_types_mod", "scale_typegen")
    return q.anchor_fn(ctx, rid, "generate_types_mod", fns)


LOOP_WRAP = {}      # id(loop body node) -> (iterated term, body template with the symbol BODY where the source body goes)


def loop_body_term(N, body, syms):
    """the loop body's term, with the tests of a filtered source in front of it"""
    from .core.norm import rewrite
    t = N.term(body, syms)
    w = LOOP_WRAP.get(id(body))
    if w is None:
        return t
    it, tmpl = w
    old, new = ("elem", it), ("elem", ("field", ("field", ("param", 0), "type_registry"), "types"))
    t = rewrite(t, lambda n: new if n == old else None)
    from .core.norm import _mk_if
    def put(n):
        if n == ("sym", "BODY"):
            return t
        if n[0] == "if" and any(x == ("sym", "BODY") for x in subterms(n)) and n[2] != ("sym", "BODY") and n[3] != ("sym", "BODY"):
            return None
        return None
    r = rewrite(tmpl, put)
    # rebuild the conditionals around the body so that the boolean identities see the real branches
    def rebuild(n):
        if n[0] == "if":
            return _mk_if(n[1], n[2], n[3])
        return None
    return rewrite(r, rebuild)


def definition_loop(ctx, rid, fn):
    """the `for` over registry entries in generate_types_mod: (loop match node, pat, body)"""
    from .core.norm import _mk_for
    N = _norm(ctx, fn)
    for n in walk(fn["body"]):
        fl = as_for_loop(n)
        if fl is None:
            continue
        it = N.term(fl[1])
        if show(it) == "P0.type_registry.types":
            return n, fl[0], fl[2]
        # a loop over the entries that pass a filter (possibly bound to a name first) is the loop over all entries whose body starts with the test
        probe = _mk_for(it, ("sym", "BODY"))
        if probe[0] == "for" and show(probe[1]) == "P0.type_registry.types":
            LOOP_WRAP[id(fl[2])] = (it, probe[2])
            return n, fl[0], fl[2]
    ctx.bad(rid, "missing-anchor/definition-loop", fn["sp"], "no loop over the registry's entries in generate_types_mod")
    return None


def keep_first_or_error(ctx, rid):
    """K12+K5: module map written only through a vacant entry; occupied -> no write, Err(DuplicateTypePath) iff !types_equal(new, kept)"""
    fn = gen_mod_fn(ctx, rid)
    if fn is None:
        return
    N = _norm(ctx, fn)
    lp = definition_loop(ctx, rid, fn)
    if lp is None:
        return
    loop, pat, body = lp
    ms = q.matches_on(body, lambda t: t.startswith("std::collections::btree_map::Entry<"))
    if len(ms) != 1:
        ctx.bad(rid, "missing-anchor/entry-match", fn["sp"], "expected one match on btree_map::Entry in the definition loop, found %d" % len(ms))
        return
    m = ms[0]
    E = "elem(P0.type_registry.types)"
    arms = arms_by_variant(m)

    def fixE(t):
        # the element of a filtered source is the element of the registry's list (the filter only decides whether the body runs)
        w = LOOP_WRAP.get(id(body))
        if w is None:
            return t
        from .core.norm import rewrite
        old, new = ("elem", w[0]), ("elem", ("field", ("field", ("param", 0), "type_registry"), "types"))
        return rewrite(t, lambda n: new if n == old else None)
    sc = show(fixE(N.term(m["scrut"])))
    ctx.expect(sc.startswith("BTreeMap::entry(") and sc.endswith(",%s.ty.path)" % E), rid, "keep-first/key", site(m),
               "the module map is keyed by the entry's full path", "entry key term: " + sc[-200:])
    va = arms.get("Vacant")
    oc = arms.get("Occupied")
    if va is None or oc is None:
        ctx.bad(rid, "keep-first/arms", site(m), "Vacant / Occupied arms not both explicit")
        return
    def arm_term(arm):
        # an arm that yields Ok(()) / Err(e) to a `?` around the match (the match moved into a fallible helper) is the statement it stands for
        from .core.norm import _mk_try, _is_unit
        t = fixE(N.term(arm["body"], arm_syms(arm["pat"])))
        if str(strip(arm["body"]).get("ty", "")).startswith(("std::result::Result<", "core::result::Result<")):
            if t[0] == "seq":
                tail = _mk_try(t[2])
                t = (t[1][0] if len(t[1]) == 1 else ("seq", t[1], ("lit", "()"))) if _is_unit(tail) or tail == ("tup", []) else ("seq", t[1], tail)
            else:
                t = _mk_try(t)
            from .core.norm import rewrite
            t = rewrite(t, lambda n: ("lit", "()") if n == ("tup", []) else None)        # the unit of `Ok(())` is the unit of a statement
        return show(t)
    vt = arm_term(va)
    expect_term(ctx, rid, "keep-first/vacant", va, vt, "VacantEntry::insert(A,(%s.id,%s))" % (E, ANY), "vacant: insert (this entry's id, its IR)")
    ot = arm_term(oc)
    exp_o = "early{Not(utils::types_equal(%s.id,OccupiedEntry::get(A).0,P0.type_registry))=>return Err(TypegenError::DuplicateTypePath(ToString::to_string(%s.ty.path)))}'()'" % (E, E)
    expect_term(ctx, rid, "keep-first/occupied", oc, ot, exp_o,
                "occupied: nothing is written; Err(DuplicateTypePath(path)) iff the new type is not shape-equal to the kept one (ids flow by identity)")
    # no other insertion into any ModuleIR.types
    writers = []
    for c, b in ctx.P.all_bodies(GEN):
        if "body" not in b or q.derived(b):
            continue
        for n in walk(b["body"]):
            if n.get("k") == "MethodCall" and cshort(n.get("callee", "")) in ("BTreeMap::insert", "BTreeMap::entry", "BTreeMap::extend", "BTreeMap::append", "BTreeMap::get_mut", "BTreeMap::remove", "BTreeMap::retain"):
                rt = peel(n["recv"].get("adj") or n["recv"].get("ty", ""))
                if "(u32, typegen::ir::type_ir::TypeIR)" in rt:
                    writers.append((cshort(b["path"]), cshort(n["callee"])))
    ctx.expect(writers == [("TypeGenerator::generate_types_mod", "BTreeMap::entry")], rid, "keep-first/who-may-write", fn["sp"],
               "the per-module type map is mutated only through that entry() call", "writers of ModuleIR.types: " + str(writers))


# ----------------------------------------------------------- C02 / C05 / C17 ----
def definition_predicate(ctx, rid, require_skip_substituted=True):
    """K5+K14: a definition is emitted iff not substituted, namespace non-empty and Composite|Variant; placed in the
    module chain of its namespace under its full path"""
    fn = gen_mod_fn(ctx, rid)
    if fn is None:
        return
    N = _norm(ctx, fn)
    lp = definition_loop(ctx, rid, fn)
    if lp is None:
        return
    loop, pat, body = lp
    root = None
    for lid, (origin, path, p) in N.defs.items():
        if peel(p.get("ty", "")).endswith("module_ir::ModuleIR") and origin[0] == "let" and p.get("mut"):
            root = lid
    syms = {root: "ROOT"} if root is not None else {}
    t = show(loop_body_term(N, body, syms), 10 ** 6)
    E = "elem(P0.type_registry.types)"
    FLAT = "DerivesRegistry::flatten_recursive_derives(P0.settings.derives,P0.type_registry)?"
    IR = "TypeGenerator::create_type_ir(P0,%s.ty,%s)?" % (E, FLAT)
    exp = ("if((TypeSubstitutes::contains(P0.settings.substitutes,%s.ty.path.segments)||slice::is_empty(Path::namespace(%s.ty.path)))){'()'}else{"
           "if(let v1::Some($)=%s){match(BTreeMap::entry(ModuleIR::get_or_insert_submodule(ROOT,Path::namespace(%s.ty.path)).types,%s.ty.path)){%s}}else{'()'}}") % (E, E, IR, E, E, ANY)
    exps = [exp]
    if not require_skip_substituted:
        # defining a substituted type as well leaves the module closed (an unreferenced extra item)
        exps.append(("if(slice::is_empty(Path::namespace(%s.ty.path))){'()'}else{"
                     "if(let v1::Some($)=%s){match(BTreeMap::entry(ModuleIR::get_or_insert_submodule(ROOT,Path::namespace(%s.ty.path)).types,%s.ty.path)){%s}}else{'()'}}") % (E, IR, E, E, ANY))
    expect_term(ctx, rid, "define/predicate-and-placement", site(loop), t, exps,
                "an item is defined iff the path is not substituted, has a namespace (>= 2 segments) and the definition is a struct/enum; "
                "it is placed in root.get_or_insert_submodule(namespace) under its full path")
    if root is not None:
        rt = N.local_term(root)
        init = rt[2] if rt[0] == "mut" else rt
        expect_term(ctx, rid, "define/root-module", fn["sp"], init, "ModuleIR::new(P0.settings.types_mod_ident,P0.settings.types_mod_ident)",
                    "root module is named by, and refers to, the settings' root ident")
    # referrer side: >= 2 segments -> generated path (C01.23), single segment -> prelude, substituted -> substitute (C07.2)
    sub = q.fn1(ctx.P, "ModuleIR::get_or_insert_submodule", "scale_typegen")
    if sub is None:
        ctx.bad(rid, "missing-anchor/get_or_insert_submodule", "", "get_or_insert_submodule not found")
    else:
        exp_s = ("if(slice::is_empty(P1)){P0}else{ModuleIR::get_or_insert_submodule(Entry::or_insert_with(BTreeMap::entry(P0.children,Ident::new(P1['0'],Span::call_site())),"
                 "|0|{ModuleIR::new(Ident::new(P1['0'],Span::call_site()),P0.root_mod)}),P1[ops::RangeFrom{start:'1'}])}")
        expect_term(ctx, rid, "define/submodule-chain", sub["sp"], _norm(ctx, sub).term(sub["body"]), exp_s,
                    "one nested module per namespace segment, created on demand with the parent's root ident; recursion on the remaining segments")


def type_params_decl(ctx, rid):
    """K4: parameters numbered `_i` by declared position (enumerate BEFORE skipping), unused := all, decl `<_0, _1>` in order"""
    fn = q.fn1(ctx.P, "TypeParameters::from_scale_info", "scale_typegen")
    if fn is None:
        ctx.bad(rid, "missing-anchor/from_scale_info", "", "TypeParameters::from_scale_info not found")
        return
    t = _norm(ctx, fn).term(fn["body"])
    EP = "elem(Iterator::enumerate(P0))"
    P_ = ("vec+(for(Iterator::enumerate(P0)){if(let v1::Some($)=%s.1.ty){type_path::TypeParameter{concrete_type_id:%s.1.ty@v1::Some.0.id,"
          "name:format_ident(F[_{__private::IdentFragmentAdapter(%s.0)}]),original_name:%s.1.name}}else{'()'}})") % (EP, EP, EP, EP)
    ok = t[0] == "struct"
    if not ok:
        ctx.bad(rid, "params/result", fn["sp"], "from_scale_info does not return a TypeParameters literal: " + show(t)[:200])
        return
    expect_term(ctx, rid, "params/numbering", fn["sp"], t[3]["params"], P_,
                "iter -> enumerate -> filter_map: position taken before skipping; name `_<position>`; concrete id and original name copied")
    expect_term(ctx, rid, "params/unused-init", fn["sp"], t[3]["unused"], "Iterator::collect(%s)" % P_, "initially every declared parameter counts as unused")
    tt = [b for b in q.fn_by_suffix(ctx.P, "quote::ToTokens>::to_tokens", "scale_typegen") if "TypeParameters as" in b["path"]]
    if len(tt) == 1:
        expect_term(ctx, rid, "params/decl-tokens", tt[0]["sp"], _norm(ctx, tt[0]).term(tt[0]["body"]),
                    "if(Not(slice::is_empty(P0.params))){Extend::extend(P1,T[< #( #0 ),* >](P0.params))}else{'()'}", "`<_0, _1, ..>` over params in declaration order; nothing when empty")
    else:
        ctx.bad(rid, "missing-anchor/TypeParameters::to_tokens", "", "impl ToTokens for TypeParameters not found")
    mu = q.fn1(ctx.P, "TypeParameters::mark_used", "scale_typegen")
    if mu is not None:
        expect_term(ctx, rid, "params/mark-used", mu["sp"], _norm(ctx, mu).term(mu["body"]), "BTreeSet::remove(P0.unused,P1)", "mark_used removes exactly that parameter from the unused set")
    else:
        ctx.bad(rid, "missing-anchor/mark_used", "", "mark_used not found")


def phantom_data(ctx, rid):
    """K4: marker type names exactly the unused set: None iff empty; one -> PhantomData<p>; several -> PhantomData<(p, q, ..)>"""
    fn = q.fn1(ctx.P, "TypeParameters::unused_params_phantom_data", "scale_typegen")
    if fn is None:
        ctx.bad(rid, "missing-anchor/unused_params_phantom_data", "", "unused_params_phantom_data not found")
        return
    t = show(_norm(ctx, fn).term(fn["body"]), 10 ** 5)
    U_OLD = "BTreeSet::iter(P0.unused)"
    U_NEW = "Iterator::filter(P0.params,|1|{BTreeSet::contains(P0.unused,C1_0)})"
    exps = []
    for U in (U_NEW, U_OLD):
        exps.append("then(Not(BTreeSet::is_empty(P0.unused)),T[:: core :: marker :: PhantomData < #0 >](if((BTreeSet::len(P0.unused)=='1')){T[#0](Option::expect(Iterator::next(%s)))}else{T[( #( #0 ),* )](%s)}))" % (U, U))
        exps.append("then(Not(BTreeSet::is_empty(P0.unused)),T[:: core :: marker :: PhantomData < #0 >](if((BTreeSet::len(P0.unused)=='1')){T[#0](Option::expect(Iterator::next(mut[%s;.Iterator::next() if (BTreeSet::len(P0.unused)=='1')])))}else{T[( #( #0 ),* )](mut[%s;.Iterator::next() if (BTreeSet::len(P0.unused)=='1')])}))" % (U, U))
    expect_term(ctx, rid, "phantom-data", fn["sp"], t, exps,
                "None iff no unused parameter; exactly the unused parameters inside ::core::marker::PhantomData<..> (tuple when several)")


def parent_params_visitor(ctx, rid):
    """K2: the used-parameter collector visits every child of all 7 TypePathType variants (private helpers between the recursive
    collector and the variants are looked through)"""
    R = "TypePath::parent_type_params_recurse"
    rec = q.fn1(ctx.P, R, "scale_typegen")
    if rec is None or not any("BTreeSet<typegen::type_path::TypeParameter" in t for t in rec.get("inputs", [])):
        ctx.bad(rid, "missing-anchor/used-parameter collector", "", "the recursive used-parameter collector (`%s`, takes &mut BTreeSet<TypeParameter>) was not found" % R)
        return
    t = show(_norm(ctx, rec).term(rec["body"]), 10 ** 5)
    A = "P0.0@TypePathInner::Type.0"
    visit = ("match(%s){TypePathType::Path{params:$}=>for(%s@TypePathType::Path.params){%s(elem(%s@TypePathType::Path.params),P1)};"
             "TypePathType::Vec{of:$}=>%s(%s@TypePathType::Vec.of,P1);TypePathType::Array{of:$}=>%s(%s@TypePathType::Array.of,P1);"
             "TypePathType::Tuple{elements:$}=>for(%s@TypePathType::Tuple.elements){%s(elem(%s@TypePathType::Tuple.elements),P1)};"
             "TypePathType::Primitive{}=>();TypePathType::Compact{inner:$}=>%s(%s@TypePathType::Compact.inner,P1);"
             "TypePathType::BitVec{bit_order_type:$,bit_store_type:$}=>{%s(%s@TypePathType::BitVec.bit_order_type,P1);%s(%s@TypePathType::BitVec.bit_store_type,P1)}}") \
        % (A, A, R, A, R, A, R, A, A, R, A, R, A, R, A, R, A)
    alt = visit.replace("{%s(%s@TypePathType::BitVec.bit_order_type,P1);%s(%s@TypePathType::BitVec.bit_store_type,P1)}" % (R, A, R, A),
                        "{%s(%s@TypePathType::BitVec.bit_store_type,P1);%s(%s@TypePathType::BitVec.bit_order_type,P1)}" % (R, A, R, A))
    exp = "match(P0.0){TypePathInner::Parameter($)=>BTreeSet::insert(P1,P0.0@TypePathInner::Parameter.0);TypePathInner::Type($)=>%s}"
    expect_term(ctx, rid, "parent-params/visitor", rec["sp"], t, [exp % visit, exp % alt],
                "a parameter leaf is inserted into the accumulator; every TypePath child of every variant of a concrete type is visited "
                "(Path.params, Vec.of, Array.of, Tuple.elements, Compact.inner, BitVec store+order)")
    top = q.fn1(ctx.P, "TypePath::parent_type_params", "scale_typegen")
    if top is not None:
        expect_term(ctx, rid, "parent-params/entry", top["sp"], _norm(ctx, top).term(top["body"]), "mut[BTreeSet::new();TypePath::parent_type_params_recurse(P0,&self)]",
                    "starts from an empty set")


def param_match_predicate(ctx, rid):
    """K4: a reference becomes parameter p iff p.concrete_type_id == id && (name absent || p.original_name == name); first match"""
    a = resolver_fn(ctx, rid)
    if a is None:
        return
    fn, m = a
    t = _norm(ctx, fn).term(fn["body"])
    i_id = q.param_index(fn, lambda t: t == "u32")
    i_par = q.param_index(fn, lambda t: "TypeParameter]" in t)
    i_name = q.param_index(fn, lambda t: t.startswith("std::option::Option<&str"))
    if not (t[0] == "call" and t[1] == "search" and len(t[2]) == 4):
        ctx.bad(rid, "param-match/first-statement", fn["sp"], "the resolver does not start with the search for a matching parent parameter: " + show(t)[:160])
        return
    it, pred, hit, _rest = t[2]
    EL = "elem(P%d)" % i_par
    expect_term(ctx, rid, "param-match/predicate", fn["sp"], "%s|%s" % (show(it), show(pred)),
                "P%d|((%s.concrete_type_id==P%d)&&(Not(let v1::Some($)=P%d)||(%s.original_name==P%d@v1::Some.0)))" % (i_par, EL, i_id, i_name, EL, i_name),
                "first parent parameter (declaration order) with the same concrete id and, when a recorded name is given, the same original name")
    expect_term(ctx, rid, "param-match/result", fn["sp"], hit, "Ok(TypePath::from_parameter(%s))" % EL, "the reference is rendered as that parameter")


def id_opacity(ctx, rid, crates=("scale_typegen", "scale_typegen_description"), floors=True):
    """K9: type ids never reach ordering comparisons, arithmetic, tokens, or ordered iteration that reaches output"""
    P = ctx.P
    ID_RX = __import__("re").compile(r"(\.id\b|concrete_type_id|\.ty_id|type_id\b)")
    n_ops = n_tpl = 0
    for c, b in P.all_bodies(crates):
        if "body" not in b or q.derived(b):
            continue
        N = None
        from .core.ir import walk_with_parents as _wwp
        for n, _parents in _wwp(b["body"]):
            k = n.get("k")
            if k == "Binary" and n["op"] in ("<", ">", "<=", ">=", "+", "-", "*", "/", "%", "^", "<<", ">>", "&", "|"):
                lt, rt = n["l"].get("ty"), n["r"].get("ty")
                if lt == "u32" or rt == "u32":
                    N = N or _norm(ctx, b)
                    n_ops += 1
                    ts = show(N.term(n))
                    # a comparison that only guards `return Err(..)` is an error payload sink, not an output dependence
                    guard_only = False
                    for pi, par in enumerate(_parents):
                        if par.get("k") == "If" and any(x is n for x in walk(par["cond"])):
                            tt = show(N.term(par["then"]))
                            guard_only = tt.startswith("return Err(") and "else" not in par
                    if ID_RX.search(ts) and not guard_only:
                        ctx.bad(rid, "id-opacity/arith-or-order/%s/%s" % (cshort(b["path"]), n["op"]), n["sp"],
                                "a type id takes part in `%s` (%s): output would depend on the numbering of the registry" % (n["op"], ts[:160]))
            elif k == "MethodCall" and cshort(n.get("callee", "")) in ("Ord::cmp", "PartialOrd::partial_cmp", "Ord::max", "Ord::min", "slice::sort_by_key", "Iterator::max_by_key", "Iterator::min_by_key"):
                N = N or _norm(ctx, b)
                ts = show(N.term(n))
                if ID_RX.search(ts) and (n["recv"].get("ty") in ("u32", "&u32") or "sort_by_key" in ts or "_by_key" in ts):
                    ctx.bad(rid, "id-opacity/cmp/%s" % cshort(b["path"]), n["sp"], "type ids are compared for order: %s" % ts[:160])
        # ids in tokens
        for node, items, kind, parent in T.find_templates(b["body"]):
            N = N or _norm(ctx, b)
            for e, info, in_rep in T.interps(items):
                n_tpl += 1
                ts = show(N.term(e))
                ty = peel(e.get("ty", ""))
                if ty in ("u32", "usize", "u64") and ID_RX.search(ts):
                    ctx.bad(rid, "id-opacity/token/%s" % cshort(b["path"]), node["sp"], "a type id is interpolated into generated tokens: %s" % ts[:160])
        for n in walk(b["body"]):
            if n.get("k") == "Call" and n.get("callee") == "quote::__private::mk_ident":
                N = N or _norm(ctx, b)
                ts = show(N.term(n))
                if ID_RX.search(ts):
                    ctx.bad(rid, "id-opacity/ident/%s" % cshort(b["path"]), n["sp"], "an identifier is built from a type id: %s" % ts[:200])
    ctx.ok(rid, "id-opacity/scan", "", "scanned %d integer operators and %d template interpolations: no type id in arithmetic, ordering or tokens" % (n_ops, n_tpl))
    # ordered containers keyed by id-bearing values: iteration must not reach output
    id_keyed = ("std::collections::BTreeSet<typegen::type_path::TypeParameter", "std::collections::BTreeSet<u32", "std::collections::BTreeMap<u32")
    from . import k8
    n_it = 0
    for c, b in P.all_bodies(crates):
        if "body" not in b or q.derived(b):
            continue
        from .core.ir import walk_with_parents
        for n, parents in walk_with_parents(b["body"]):
            if n.get("k") == "MethodCall" and n["name"] in (k8.ITER_METHODS - {"retain"}) | {"first", "last", "pop_first", "pop_last", "range"}:
                rt = peel(n["recv"].get("adj") or n["recv"].get("ty", ""))
                if rt.startswith(id_keyed):
                    n_it += 1
                    s = k8.Site(b, n, "iter", cshort(n.get("callee", n["name"])), "BTreeSet<id-bearing>", parents)
                    cm = k8.commutative_loop(s)
                    key = "id-ordered-iteration/%s/%s" % (cshort(b["path"]), s.callee)
                    if cm is not None and cm["ok"]:
                        ctx.ok(rid, key, n["sp"], "iteration in id order feeds only commutative updates (%s)" % ", ".join(cm["updates"]))
                    else:
                        ctx.bad(rid, key, n["sp"], "a set ordered by concrete type id (TypeParameter derives Ord with concrete_type_id first) is iterated and the order can reach the output: "
                                "permuting the registry changes the emitted tokens")
            elif n.get("k") == "Call" and n.get("callee", "").endswith("IntoIterator::into_iter"):
                rt = peel(n["args"][0].get("ty", ""))
                if rt.startswith(id_keyed):
                    n_it += 1
                    s = k8.Site(b, n, "iter-arg", "IntoIterator::into_iter", "BTreeSet<id-bearing>", parents)
                    cm = k8.commutative_loop(s)
                    key = "id-ordered-iteration/%s/for" % cshort(b["path"])
                    if cm is not None and cm["ok"]:
                        ctx.ok(rid, key, n["sp"], "for-loop in id order performs only commutative updates (%s)" % ", ".join(cm["updates"]))
                    else:
                        ctx.bad(rid, key, n["sp"], "for-loop over a set ordered by concrete type id with an order-dependent body")
    ctx.count("iterations over id-ordered containers", n_it, 1 if floors else None)


def definition_loop_locality(ctx, rid):
    """K8-style: the only state carried between registry entries in the definition loop is the path-keyed module map"""
    fn = gen_mod_fn(ctx, rid)
    if fn is None:
        return
    lp = definition_loop(ctx, rid, fn)
    if lp is None:
        return
    loop, pat, body = lp
    from . import k8
    N = _norm(ctx, fn)
    ws = k8.loop_writes(body, None)
    outer = set()
    for kind, callee, lid, node, inner in ws:
        if inner:
            continue
        rec = N.defs.get(lid)
        outer.add((peel(rec[2].get("ty", "")) if rec else "?", callee))
    ok = all(t.endswith("module_ir::ModuleIR") for t, _c in outer)
    ctx.expect(ok and outer, rid, "loop-locality", site(loop), "entries communicate only through the path-keyed module map (%s)" % sorted(c for _t, c in outer),
               "state carried across registry entries: %s" % sorted(outer))


# ---------------------------------------------------------------------- C18 ----
def upcast(ctx, rid):
    """K4+K5+K12: standalone struct IR from a composite: no params, default derives (+CompactAs), settings' codec flag, same composite"""
    fn = q.fn1(ctx.P, "TypeGenerator::<'a>::upcast_composite", "scale_typegen")
    if fn is None:
        ctx.bad(rid, "missing-anchor/upcast_composite", "", "upcast_composite not found")
        return
    t = _norm(ctx, fn).term(fn["body"])
    if t[0] != "struct" or not t[1].endswith("type_ir::TypeIR"):
        ctx.bad(rid, "upcast/result", fn["sp"], "upcast_composite does not return a TypeIR literal: " + show(t)[:200])
        return
    f = t[3]
    expect_term(ctx, rid, "upcast/derives", fn["sp"], f["derives"],
                "if((CompositeIRKind::could_derive_as_compact(P1.kind)&&let v1::Some($)=P0.settings.compact_as_type_path)){mut[DerivesRegistry::default_derives(P0.settings.derives);"
                ".Derives::insert_derive(T[#0](P0.settings.compact_as_type_path@v1::Some.0))]}else{DerivesRegistry::default_derives(P0.settings.derives)}",
                "exactly the global derives/attributes, plus CompactAs under the single-unsigned-field rule")
    expect_term(ctx, rid, "upcast/type-params", fn["sp"], f["type_params"], "TypeParameters::from_scale_info([])", "no generic parameters")
    expect_term(ctx, rid, "upcast/codec-flag", fn["sp"], f["insert_codec_attributes"], "P0.settings.insert_codec_attributes", "codec attributes as configured")
    expect_term(ctx, rid, "upcast/kind", fn["sp"], f["kind"], "TypeIRKind::Struct(P1)", "the struct's payload is the given composite itself")
    dd = q.fn1(ctx.P, "DerivesRegistry::default_derives", "scale_typegen")
    if dd is not None:
        expect_term(ctx, rid, "upcast/default-derives", dd["sp"], _norm(ctx, dd).term(dd["body"]), "P0.default_derives", "default_derives() is the global set")
