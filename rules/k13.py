"""K13 — recursion guard / termination: every recursive SCC of the call graph is classified and checked.

(s) structural descent   every call into the SCC passes, at the callee's measure position, a strict projection
                         of the caller's measure parameter (field, variant payload, element, sub-slice, Rc predecessor)
(e) type-expression      recursion by type id whose recursive id arguments are restricted to type parameters and
                         element / tuple / compact / bit-sequence children - never `fields` or `variants` (finite under W5)
(g) guarded              recursion by type id through a visited set / cache consulted before descending (custom checks)
A new SCC, or a recursive call whose argument escapes its class, is a violation.
"""
import re
from .core import q
from .core.q import peel, site
from .core.ir import walk, strip
from .core.norm import Norm, show, cshort, subterms
from . import k10

# signature = frozenset of cshort(member); value = (class, spec)
TABLE = {
    frozenset(["TypePath::to_syn_type", "TypePathType::to_syn_type"]): ("s", {"measure": {"TypePath::to_syn_type": 0, "TypePathType::to_syn_type": 0}}),
    frozenset(["scale_typegen::to_tokens", "ToTokensWithSettings::to_token_stream"]):
        ("s", {"measure": {"scale_typegen::to_tokens": 0, "ToTokensWithSettings::to_token_stream": 0}, "trampoline": ["ToTokensWithSettings::to_token_stream"]}),
    frozenset(["substitutes::replace_path_params_recursively"]): ("s", {"measure": {"substitutes::replace_path_params_recursively": 0}}),
    frozenset(["TypePath::parent_type_params_recurse"]): ("s", {"measure": {"TypePath::parent_type_params_recurse": 0}}),
    frozenset(["GenericsList::index_for_type_id"]): ("s", {"measure": {"GenericsList::index_for_type_id": 0}}),
    frozenset(["GenericsList::index_for_type_name"]): ("s", {"measure": {"GenericsList::index_for_type_name": 0}}),
    frozenset(["ModuleIR::get_or_insert_submodule"]): ("s", {"measure": {"ModuleIR::get_or_insert_submodule": 1}}),
    frozenset(["TypeGenerator::resolve_type_path_recurse"]): ("e", {"id": {"TypeGenerator::resolve_type_path_recurse": 1}}),
    frozenset(["description::type_name_with_type_params"]): ("e", {"ty": {"description::type_name_with_type_params": 0}}),
    frozenset(["utils::types_equal_inner"]): ("g", {"check": "types_equal"}),
    frozenset(["derives::collect_type_ids"]): ("g", {"check": "collect_type_ids"}),
}
TRANSFORMER_MEMBERS = {"Transformer::resolve"}
ID_LEAF = re.compile(r"(\.type_params\)?\)*\.ty(@v1::Some\.0)?\.id$)|(@TypeDef::(Array|Sequence|Compact)\.0\.type_param\.id$)|(@TypeDef::Tuple\.0\.fields\)*\.id$)"
                     r"|(@TypeDef::BitSequence\.0\.bit_(order|store)_type\.id$)|(^C\d+_\d+\.id$)|(^C\d+_\d+\.ty@v1::Some\.0\.id$)"
                     r"|(^Iterator::next\(mut\[Iterator::peekable\(P\d+\.type_def@TypeDef::Tuple\.0\.fields\);.*\]\)@v1::Some\.0\.id$)", re.S)


def _sig(comp):
    names = set()
    for m in comp:
        cs = cshort(m)
        if cs.endswith("::type_def_is_copy"):
            cs = "type_def_is_copy"
        names.add(cs)
    return frozenset(names)


def collapse_transparent(ctx, g):
    """call graph with transparent helpers (private, non-recursive, named by no rule) merged into their callers"""
    N0 = None
    for f in list(g):
        b = ctx.P.body(f)
        if b is not None and "body" in b:
            N0 = Norm(b)
            break
    if N0 is None:
        return g
    g = {f: set(cs) for f, cs in g.items()}
    for _round in range(4):
        helpers = [f for f in g if N0.transparent_fn(f) is not None]
        if not helpers:
            break
        for h in helpers:
            outs = g.pop(h, set()) - {h}
            for f, cs in g.items():
                if h in cs:
                    cs.discard(h)
                    cs |= outs
    return g


def check_sccs(ctx, rid, g, reach, crates, bindings):
    g = collapse_transparent(ctx, g)
    comps = k10.sccs(g)
    if reach is not None:
        comps = [c for c in comps if any(m in reach for m in c)]
    ctx.count("recursive SCCs in reach", len(comps), 1)
    for comp in comps:
        sig = _sig(comp)
        key = "scc/" + "+".join(sorted(sig))
        if sig & TRANSFORMER_MEMBERS:
            transformer_scc(ctx, rid, key, comp, g, bindings)
            continue
        ent = TABLE.get(sig)
        if ent is None:
            spec_ty = auto_type_argument(ctx, comp)
            if spec_ty is not None:
                type_expression(ctx, rid, key, comp, spec_ty)
                continue
            why = auto_type_expression(ctx, comp)
            if why is not None:
                meas = auto_structural(ctx, comp)
                if meas is not None:
                    ctx.ok(rid, key, (ctx.P.body(comp[0]) or {}).get("sp", ""),
                           "(s) auto-classified structural descent: every call into the cycle passes a strict projection of the caller's measure parameter (%s)"
                           % ", ".join("%s:P%d" % (cshort(m), i) for m, i in sorted(meas.items())))
                    continue
            if why is None:
                ctx.ok(rid, key, (ctx.P.body(comp[0]) or {}).get("sp", ""),
                       "(e) auto-classified type-expression recursion: every call into the cycle passes a type-parameter / element / tuple / compact / bit child id")
            else:
                ctx.bad(rid, key, (ctx.P.body(comp[0]) or {}).get("sp", ""),
                        "unclassified recursion: the functions %s call each other and no termination argument applies (%s)" % (sorted(sig), why))
            continue
        cls, spec = ent
        if cls == "s":
            structural(ctx, rid, key, comp, spec)
        elif cls == "e":
            type_expression(ctx, rid, key, comp, spec)
        else:
            guarded(ctx, rid, key, comp, spec)


def auto_type_argument(ctx, comp):
    """a cycle of one function that takes exactly one &Type / &TypeDef of the registry: candidates for the (e) class by the type argument"""
    if len(comp) != 1:
        return None
    fn = ctx.P.body(comp[0])
    if fn is None or "body" not in fn:
        return None
    idx = [i for i, t in enumerate(fn.get("inputs", [])) if re.match(r"&scale_info::(Type|TypeDef)<", t)]
    if len(idx) != 1 or any(t == "u32" for t in fn.get("inputs", [])):
        return None
    return {"ty": {cshort(comp[0]): idx[0]}}


def auto_type_expression(ctx, comp):
    """None if every member takes one u32 id and every call into the SCC passes an allowed child id (or its own id unchanged
    to a different member: trampoline), else the reason"""
    idx = {}
    for m in comp:
        fn = ctx.P.body(m)
        if fn is None or "body" not in fn:
            return "body of %s not available" % cshort(m)
        ids = [i for i, t in enumerate(fn.get("inputs", [])) if t == "u32"]
        if len(ids) != 1:
            return "%s does not take exactly one type id" % cshort(m)
        idx[m] = ids[0]
    strict = 0
    for m in comp:
        fn = ctx.P.body(m)
        N = Norm(fn)
        for n, cal, ats, _direct in _calls_into(ctx, fn, comp, N):
            target = [x for x in comp if k10._same_fn(cal, x)]
            if not target:
                return "unresolved callee " + cshort(cal)
            t = show(ats[idx[target[0]]])
            if t == "P%d" % idx[m] and target[0] != m:
                continue          # hands its own id to another member unchanged
            if ".fields" in t and "@TypeDef::Tuple" not in t or ".variants" in t:
                return "%s recurses into fields/variants (`%s`)" % (cshort(m), t[:80])
            if not ID_LEAF.search(t):
                return "%s recurses on `%s`" % (cshort(m), t[:80])
            strict += 1
    return None if strict else "no descending call"


def auto_structural(ctx, comp):
    """a measure-parameter assignment under which every call into the SCC passes a strict projection of the caller's
    measure parameter (field / payload / element / predecessor), or None"""
    import itertools
    fns = {}
    for m in comp:
        fn = ctx.P.body(m)
        if fn is None or "body" not in fn:
            return None
        fns[m] = fn
    ranges = [range(len(fns[m].get("inputs", []))) for m in comp]
    total = 1
    for r in ranges:
        total *= max(1, len(r))
    if total > 256 or any(len(r) == 0 for r in ranges):
        return None
    norms = {m: Norm(fns[m]) for m in comp}
    calls = {m: _calls_into(ctx, fns[m], comp, norms[m]) for m in comp}
    if not any(calls.values()):
        return None
    for combo in itertools.product(*ranges):
        meas = dict(zip(comp, combo))
        ok = True
        for m in comp:
            for n, cal, ats, _direct in calls[m]:
                target = [x for x in comp if k10._same_fn(cal, x)]
                if len(target) != 1:
                    ok = False
                    break
                if meas[target[0]] >= len(ats):
                    ok = False
                    break
                d = descent_depth(norms[m], ats[meas[target[0]]], meas[m], (_CLO_SRC.get(id(ats)) or (None, None))[1])
                if d is None or d < 1:
                    ok = False
                    break
            if not ok:
                break
        if ok:
            return meas
    return None


def _calls_into(ctx, fn, comp, N=None, apply_closures=True):
    """calls in fn (incl. closures) whose callee is in the SCC (or a local-trait method linking into it):
    [(call node, callee path, argument terms in fn's parameter space, direct?)]. Calls made on fn's behalf by a transparent
    helper (private, non-recursive, named by no rule) are included, with the helper's parameters substituted (direct = False)."""
    N = N or Norm(fn)
    names = set(comp)
    out = []
    for n in walk(fn["body"]):
        if n.get("k") in ("Call", "MethodCall") and n.get("callee"):
            cal = n["callee"]
            args = ([n["recv"]] + n["args"]) if n["k"] == "MethodCall" else n["args"]
            hit = None
            if any(k10._same_fn(cal, m) for m in names):
                hit = cal
            elif cal.endswith("ToTokensWithSettings::to_token_stream") and any("to_token_stream" in m for m in names):
                hit = cal
            elif cal.endswith("ToTokensWithSettings::to_tokens") and any("ToTokensWithSettings>::to_tokens" in m for m in names):
                hit = cal
            if hit is not None:
                if apply_closures and q.in_closure_local(fn["body"], n):
                    # made by a local closure: the applied call sites in the function's term are the recursive calls
                    short = cshort(hit)
                    seen = set()

                    def visit_local(x, clo):
                        # the closures of the term that enclose an applied call, with what each of them iterates (a closure passed by name
                        # to an adaptor has no closure expression of its own in the source)
                        if x[0] == "call" and x[1] == short and show(x) not in seen:
                            seen.add(show(x))
                            args_ = list(x[2])
                            _CLO_SRC[id(args_)] = (args_, dict(clo))
                            out.append((n, hit, args_, False))
                        if x[0] == "call" and len(x[2]) == 2 and x[2][1][0] == "closure":
                            visit_local(x[2][0], clo)
                            inner = dict(clo)
                            inner[x[2][1][1]] = x[2][0]
                            visit_local(x[2][1][3], inner)
                            return
                        for c_ in _direct_subterms(x):
                            visit_local(c_, clo)
                    visit_local(N.term(fn["body"]), {})
                    continue
                out.append((n, hit, [N.term(a) for a in args], True))
            elif N.transparent_fn(cal) is not None and not any(k10._same_fn(cal, m) for m in names):
                t = N.term(n)
                short = {cshort(m): m for m in names}
                seen = set()

                def visit(x, clo):
                    # the closures that enclose a call inside the inlined helper(s), with what each of them iterates (read off the term itself:
                    # the helper's closures are not closures of fn)
                    if x[0] == "call" and x[1] in short and show(x) not in seen:
                        seen.add(show(x))
                        args_ = list(x[2])
                        _CLO_SRC[id(args_)] = (args_, dict(clo))
                        out.append((n, short[x[1]], args_, False))
                    if x[0] == "call" and len(x[2]) == 2 and x[2][1][0] == "closure":
                        visit(x[2][0], clo)
                        inner = dict(clo)
                        inner[x[2][1][1]] = x[2][0]
                        visit(x[2][1][3], inner)
                        return
                    for c_ in _direct_subterms(x):
                        visit(c_, clo)
                visit(t, {})
    return out


_CLO_SRC = {}


def _direct_subterms(x):
    from .core.norm import _direct_children
    return _direct_children(x)


def _literal_items(t):
    """the items of a container written out in place (vec![..], [..], Vec::new(), or a match / if between such), else None"""
    if t[0] == "call" and t[1] in ("vec!", "Vec::new"):
        return list(t[2])
    if t[0] == "array":
        return list(t[1])
    if t[0] in ("match", "if"):
        out = []
        for a in ([x[2] for x in t[2]] if t[0] == "match" else [t[2], t[3]]):
            if a[0] == "opaque" and a[1] == "diverge":
                continue
            its = _literal_items(a)
            if its is None:
                its = [("elem", a)]          # an arm that is some other container: its elements
            out.extend(its)
        return out
    return None


def descent_depth(N, t, root, clo=None):
    """number of strict projection steps from parameter `root` to term t, or None if t is not rooted there"""
    steps = 0
    while True:
        k = t[0]
        if k == "param":
            return steps if t[1] == root else None
        if k == "elem" and _literal_items(t[1]) is not None:
            # an element of a container written out in place (`vec![a, b]`, or a choice between such): one of its items, no step
            ds = [descent_depth(N, a, root, clo) for a in _literal_items(t[1])]
            if any(d is None for d in ds):
                return None
            return steps + (min(ds) if ds else 99)         # an empty container has no element to descend into
        if k in ("field", "proj", "elem", "rest", "rindex"):
            steps += 1
            t = t[1]
        elif k == "index":
            steps += 1
            t = t[1]
        elif k == "try":
            t = t[1]
        elif k == "cparam" and clo is not None and t[1] in clo:
            r = descent_depth(N, clo[t[1]], root, clo)
            return None if r is None else r + steps + 1
        elif k == "cparam":
            # closure parameter: element of what the adaptor iterates
            src = None
            for d, (adaptor, recv) in N.closure_src.items():
                if N.closure_depth.get(d) == t[1]:
                    src = (adaptor, recv, d)
            if src is None:
                return None
            # choose the closure that actually encloses: ambiguous when several closures share a depth -> try all
            best = None
            for d, (adaptor, recv) in N.closure_src.items():
                if N.closure_depth.get(d) == t[1]:
                    r = descent_depth(N, N._t(recv), root)
                    if r is not None:
                        best = r if best is None else min(best, r)
            return None if best is None else best + steps + 1
        elif k == "call" and t[2]:
            t = t[2][0]
        elif k == "mut":
            t = t[2]
        else:
            return None


def structural(ctx, rid, key, comp, spec):
    measure = spec["measure"]
    tramp = set(spec.get("trampoline", []))
    n_calls = 0
    bad = []
    for m in comp:
        fn = ctx.P.body(m)
        if fn is None or "body" not in fn:
            continue
        cs = cshort(m)
        mi = measure.get(cs if cs in measure else "scale_typegen::to_tokens" if cs.endswith("to_tokens") else cs)
        if mi is None:
            bad.append("no measure parameter recorded for " + cs)
            continue
        N = Norm(fn)
        for n, cal, ats, _direct in _calls_into(ctx, fn, comp, N):
            n_calls += 1
            ccs = cshort(cal)
            ci = measure.get(ccs, 0 if ccs.endswith(("to_tokens", "to_token_stream")) else None)
            if ci is None:
                bad.append("no measure parameter for callee " + ccs)
                continue
            at = ats[ci]
            d = descent_depth(N, at, mi, (_CLO_SRC.get(id(ats)) or (None, None))[1])
            if d is None:
                bad.append("%s calls %s with `%s`, which is not a projection of its own parameter P%d" % (cs, ccs, show(at)[:100], mi))
            elif d == 0 and cs not in tramp and ccs not in tramp:
                bad.append("%s calls %s with its own parameter unchanged (no structural descent)" % (cs, ccs))
    ctx.expect(not bad, rid, key, (ctx.P.body(comp[0]) or {}).get("sp", ""),
               "(s) structural descent on an owned tree: %d recursive call sites each pass a strict projection of the measure parameter" % n_calls,
               "; ".join(bad))


def _lookup_id(t):
    """`<id>` of a term that is a registry look-up `resolve(reg, <id>)` / `resolve_type(gen, <id>)`, possibly wrapped in error mapping,
    `?`, the Some payload and `.type_def`; None for anything else"""
    from .core.norm import _split_top
    m = None
    for m in re.finditer(r"(?:PortableRegistry::resolve|resolve_type)\(", t):
        break
    if m is None:
        return None
    head = t[:m.start()]
    if not re.fullmatch(r"(?:Result::map_err\(|Option::ok_or\w*\(|ok_or\()*(?:[A-Za-z_][\w]*::)*", head):
        return None
    depth, i = 1, m.end()
    while i < len(t) and depth:
        depth += t[i] in "([{"
        depth -= t[i] in ")]}"
        i += 1
    if depth:
        return None
    args = _split_top(t[m.end():i - 1], ",")
    tail = t[i:]
    if len(args) != 2 or not re.fullmatch(r"(?:,\|\d\|\{anyhow!\(\)\}\)|,[^()]*\)|\)|@v1::Some\.0|\?|\.type_def)*", tail):
        return None
    return args[1]


def type_expression(ctx, rid, key, comp, spec):
    bad = []
    n_calls = 0
    for m in comp:
        fn = ctx.P.body(m)
        if fn is None:
            continue
        N = Norm(fn)
        cs = cshort(m)
        for n, cal, ats, _direct in _calls_into(ctx, fn, comp, N):
            n_calls += 1
            if "id" in spec:
                i = list(spec["id"].values())[0]
                t = show(ats[i])
            else:
                i = list(spec["ty"].values())[0]
                t = show(ats[i])
                # the &Type / &TypeDef argument must be `resolve(<id>)` of an allowed id
                idt = _lookup_id(t)
                if idt is None:
                    bad.append("%s recurses on `%s`, which is not a registry look-up of a child id" % (cs, t[:120]))
                    continue
                t = idt
            if ".fields" in t and "@TypeDef::Tuple" not in t or ".variants" in t:
                bad.append("%s recurses into fields/variants (`%s`): recursion would follow the type *graph*, which may be cyclic" % (cs, t[:120]))
            elif not ID_LEAF.search(t):
                bad.append("%s recurses on id `%s`, outside the type-expression children (type params, element, tuple member, compact, bit store/order)" % (cs, t[:120]))
    ctx.expect(not bad, rid, key, (ctx.P.body(comp[0]) or {}).get("sp", ""),
               "(e) type-expression recursion: %d recursive calls descend only into type parameters / element / tuple / compact / bit children, never into fields (finite under W5)" % n_calls,
               "; ".join(bad))


def _fresh_insert_dominates(N, fn, node, set_t, key_t):
    """the call `node` is reached only when `set.insert(key)` returned true (the key was not seen before), in any spelling:
    `if !s.insert(k) { return }`, `if s.insert(k) { .. }`, or `if s.contains(k) { return } s.insert(k);`"""
    from . import guards as GD
    conds = GD.flatten(GD.dominating(N, fn["body"], node))
    want = [set_t, key_t]
    for c in conds:
        if c[0] == "arm":
            continue
        pol, t = c
        if t[0] == "call" and t[1] in ("HashSet::insert", "BTreeSet::insert") and [show(a) for a in t[2]] == want and pol is True:
            return True
        if t[0] == "call" and t[1] in ("HashSet::contains", "BTreeSet::contains") and [show(a) for a in t[2]] == want and pol is False:
            # the unconditional insert must precede the call: a statement of the function's own block
            blk = strip(fn["body"])
            stmts = blk["b"]["stmts"] if blk.get("k") == "Block" else []
            for st in stmts:
                if st.get("k") in ("SSemi", "SExpr"):
                    x = strip(st["e"])
                    if x.get("k") == "MethodCall" and cshort(x.get("callee", "")) in ("HashSet::insert", "BTreeSet::insert") \
                            and [show(N.term(x["recv"]))] + [show(N.term(a)) for a in x["args"]] == want and x["sp"] < node["sp"]:
                        return True
    return False


def guarded(ctx, rid, key, comp, spec):
    fn = ctx.P.body(comp[0])
    N = Norm(fn)
    calls = [(n, cal) for n, cal, _ats, direct in _calls_into(ctx, fn, comp, N, apply_closures=False) if direct]
    indirect = [n for n, cal, _ats, direct in _calls_into(ctx, fn, comp, N, apply_closures=False) if not direct]
    if indirect:
        ctx.bad(rid, key, fn["sp"], "a recursive call is made through a helper (%s): the dominance of the visited-set guard cannot be established across the call" % indirect[0]["sp"])
        return
    if spec["check"] == "collect_type_ids":
        i_id = q.param_index(fn, lambda t: t == "u32")
        i_set = q.param_index(fn, lambda t: "HashSet<u32" in t)
        bad = []
        if i_id is None or i_set is None:
            bad.append("signature changed: expected one u32 id and one HashSet<u32>")
        else:
            for n, cal in calls:
                if show(N.term(n["args"][i_set])) != "P%d" % i_set:
                    bad.append("recursive call at %s does not thread the visited set through" % n["sp"])
                elif not _fresh_insert_dominates(N, fn, n, "P%d" % i_set, "P%d" % i_id):
                    bad.append("recursive call at %s is not dominated by a fresh insertion of the current id into the visited set" % n["sp"])
        ctx.expect(not bad and calls, rid, key, fn["sp"],
                   "(g) guarded graph recursion: each of the %d recursive calls is reached only after the current id was freshly inserted into the visited set, "
                   "which is threaded through (each descent strictly grows a set bounded by the registry size)" % len(calls), "; ".join(bad) or "no recursive call found")
    elif spec["check"] == "types_equal":
        # every descent is preceded by recording the compared pair; a pair seen again returns without descending,
        # so each descent strictly grows a set bounded by (registry size)^2
        ids = [i for i, t in enumerate(fn["inputs"]) if t == "u32"]
        vis = [i for i, t in enumerate(fn["inputs"]) if "HashSet<" in t]
        bad = []
        if len(ids) == 2 and len(vis) == 1 and "HashSet<(u32, u32)" in fn["inputs"][vis[0]]:
            for n, cal in calls:
                args = ([n["recv"]] + n["args"]) if n["k"] == "MethodCall" else n["args"]
                if show(N.term(args[vis[0]])) != "P%d" % vis[0]:
                    bad.append("recursive comparison at %s does not thread the visited set through" % n["sp"])
                elif not _fresh_insert_dominates(N, fn, n, "P%d" % vis[0], "(P%d,P%d)" % (ids[0], ids[1])):
                    bad.append("recursive comparison at %s is not dominated by a fresh insertion of the compared pair into the visited set" % n["sp"])
        elif len(ids) == 2 and len(vis) == 2:
            # one visited set per side: a descent happens only if at least one side's id is fresh, so the two sets together still grow strictly
            from . import guards as GD
            g2 = "(Not(HashSet::insert(P%d,P%d))&&Not(HashSet::insert(P%d,P%d)))" % (vis[0], ids[0], vis[1], ids[1])
            for n, cal in calls:
                args = ([n["recv"]] + n["args"]) if n["k"] == "MethodCall" else n["args"]
                conds = GD.flatten(GD.dominating(N, fn["body"], n))
                if any(show(N.term(args[v])) != "P%d" % v for v in vis):
                    bad.append("recursive comparison at %s does not thread the visited sets through" % n["sp"])
                elif not any(c[0] is False and show(c[1]) == g2 for c in conds if c[0] != "arm"):
                    bad.append("recursive comparison at %s is not dominated by the per-side freshness guard" % n["sp"])
        else:
            bad.append("no visited set keyed by the compared ids: signature has ids %s and sets %s" % (ids, [fn["inputs"][v] for v in vis]))
        ctx.expect(not bad and calls, rid, key, fn["sp"],
                   "(g) guarded graph recursion: the compared pair is recorded before any recursive comparison and a pair seen again returns without descending "
                   "(each descent strictly grows a set bounded by the square of the registry size)", "; ".join(bad) or "no recursive call found")


def transformer_scc(ctx, rid, key, comp, g, bindings):
    """Transformer::resolve <-> policies: in-progress marker set before the policy runs; example generators error on re-entry;
    the description policy names a type on re-entry iff it has a path ident"""
    res = [m for m in comp if cshort(m) == "Transformer::resolve"]
    fn = ctx.P.body(res[0])
    N = Norm(fn)
    # order of statements in resolve: lookup -> cache check -> mark in progress -> policy -> store result
    order = []
    weak_marker = False
    weak_result = False
    def walk_through(body, depth=0):
        """source order, looking through private helpers of the transformer that do part of `resolve`'s work (their body stands at the call)"""
        for n in walk(body):       # closures in `resolve` are arguments of combinators: they run where they are written
            yield n
            if n.get("k") in ("Call", "MethodCall") and n.get("callee") and depth < 3:
                h = N.transparent_fn(n["callee"], None)
                if h is not None and h["path"] != fn["path"]:
                    yield from walk_through(h["body"], depth + 1)
    marker_node = policy_node = None
    for n in walk_through(fn["body"]):
        if n.get("k") == "MethodCall" and cshort(n.get("callee", "")) in ("HashMap::insert", "Entry::or_insert", "Entry::or_insert_with"):
            a = show(N.term(n["args"][-1]))
            kind = "Recursive" if "Recursive" in a else "Computed" if "Computed" in a else a[:30]
            if cshort(n["callee"]) != "HashMap::insert" and kind == "Recursive":
                weak_marker = True      # keeps an existing (possibly Computed) entry
            if cshort(n["callee"]) != "HashMap::insert" and kind == "Computed":
                weak_result = True      # keeps the in-progress marker that was set for this id just before: the result is never stored
            if kind == "Recursive" and marker_node is None:
                marker_node = n
            order.append("insert:" + kind)
        elif n.get("k") == "Call" and "f" in n:
            f = strip(n["f"])
            if f.get("k") == "Field":
                if f["name"] == "policy" and policy_node is None:
                    policy_node = n
                order.append("call:" + f["name"])
    # the marker is set on EVERY path that reaches the policy: whatever guards the marker also guards the policy call
    if marker_node is not None and policy_node is not None:
        from . import guards as GD

        def conds_of(node):
            for b_ in [fn] + [h for h in (ctx.P.body(x.get("callee")) for x in walk(fn["body"]) if x.get("k") in ("Call", "MethodCall") and x.get("callee")) if h and "body" in h]:
                if GD.path_to(b_["body"], node):
                    Nb = N if b_ is fn else Norm(b_)
                    return set(GD.cond_strings(GD.dominating(Nb, b_["body"], node))), b_ is fn
            return None, False
        cm, m_in_fn = conds_of(marker_node)
        cp, p_in_fn = conds_of(policy_node)
        if cm is not None and cp is not None:
            ok_dom = (cm <= cp) if (m_in_fn and p_in_fn) else not (cm - (cp if m_in_fn == p_in_fn else set())) if not m_in_fn else True
            ctx.expect(ok_dom, rid, key + "/marker-unconditional", fn["sp"],
                       "the in-progress marker is set on every path that reaches the policy call (no condition guards the marker alone)",
                       "the in-progress marker is only set under `%s`, the policy runs also without it: types for which the condition fails lose the recursion guard"
                       % " && ".join(sorted(cm - cp))[:300])
    want = ["call:recurse_policy", "call:cache_hit_policy", "insert:Recursive", "call:policy", "insert:Computed"]
    ctx.expect(order == want, rid, key + "/marker-order", fn["sp"],
               "resolve(): consult recurse/cache-hit policy, mark the id in progress, run the policy, store the result - in this order",
               "order of cache operations and policy calls in Transformer::resolve is %s, expected %s" % (order, want))
    ctx.expect(not weak_result, rid, key + "/result-overwrites", fn["sp"],
               "the finished result replaces the in-progress marker of its id (a plain insert under the same key)",
               "the finished result is stored with `entry(id).or_insert..`, which keeps the in-progress marker set just before: every later visit of a finished type "
               "is taken for a re-entry (the example generators then fail on any type that occurs twice, the description names it instead of describing it)")
    if weak_marker:
        # `entry(id).or_insert(Recursive)` leaves a Computed entry in place: safe only if the bound cache-hit policy never lets
        # the transformer continue (never returns None) - otherwise a type computed once loses its recursion guard
        for b in bindings:
            if b["field"].endswith(".cache_hit_policy"):
                pf = ctx.P.body(b["bound_to"])
                pt = show(Norm(pf).term(pf["body"])) if pf else "?"
                ctx.expect("v1::None" not in pt, rid, key + "/marker-overwrites/" + cshort(b["in"]), fn["sp"],
                           "the in-progress marker keeps existing entries, but this instantiation's cache-hit policy never continues past a computed entry",
                           "the in-progress marker no longer overwrites a computed entry and the cache-hit policy `%s` returns None (continue): a type that was computed once is "
                           "re-entered without recursion guard" % cshort(b["bound_to"]))
    t = show(N.term(fn["body"]), 10 ** 5)
    ok = "Cached::Recursive=>" in t and "(P0.recurse_policy)(P1," in t.replace(" ", "") or "recurse_policy" in t
    # per binding: recurse policies
    for b in bindings:
        if not b["field"].endswith(".recurse_policy"):
            continue
        pf = ctx.P.body(b["bound_to"])
        if pf is None:
            ctx.bad(rid, key + "/recurse-policy/" + cshort(b["bound_to"]), b["at"], "recurse policy body not found")
            continue
        pt = show(Norm(pf).term(pf["body"]))
        who = cshort(b["in"])
        if "type_description" in b["in"]:
            exp = "then(let v1::Some($)=Path::ident(P1.path),Ok(description::type_name_with_type_params(P1,Transformer::types(P2))))"
            ctx.expect(pt == exp, rid, key + "/recurse-policy/" + who, pf["sp"],
                       "description: a type met again while in progress is referred to by name iff it has a path ident; unnamed types continue (finite by W5: every cycle passes through a named type)",
                       "description recurse policy is `%s`" % pt[:300])
        else:
            ok = pt.startswith("Some(Err(")
            ctx.expect(ok, rid, key + "/recurse-policy/" + who, pf["sp"],
                       "example generator: re-entering a type in progress is an error (no unbounded recursion, no stack overflow)",
                       "recurse policy of %s is `%s`, expected Some(Err(..))" % (who, pt[:200]))
