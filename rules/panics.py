"""K10 discharge of panic-capable sites: mechanical guards first, then a reviewed table with W-reasons.

A site reachable from a property's entry set that is neither mechanically discharged nor listed is a
violation (`new panic site`); a listed site whose mechanical precondition no longer holds is a violation
too (`guard weakened`). Keys contain function, kind, callee and the normalised operand — never message
text or line numbers.
"""
import re
from .core import q
from .core.q import peel
from .core.ir import walk, strip
from .core.norm import Norm, show, cshort, subterms
from . import guards as GD
from . import k10

# (function regex, kind, callee regex, operand regex, reason)  — reviewed by reading; W1..W5 = DESIGN.md section 3
TABLE = [
    (r"TypeParameters::unused_params_phantom_data", "unwrap", r"Option::expect", r"Iterator::next\((mut\[)?Iterator::filter\(P0\.params,\|1\|\{BTreeSet::contains\(P0\.unused,C1_0\)\}\).*",
     "class invariant unused ⊆ params (unused is built from params and only shrinks, C02.4/params/mark-used): with |unused| = 1 the membership filter over params yields exactly one element"),
    (r"ModuleIR::get_or_insert_submodule", "may-panic-call", r"Ident::new", r".*",
     "W3: namespace segments of struct/enum paths are Rust identifiers, so Ident::new accepts them"),
    (r"derives::collect_type_ids", "unwrap", r"Option::expect", r"PortableRegistry::resolve\(P1,P0\)",
     "W2: every id reached by the traversal is mentioned by the registry, which is closed"),
    (r"syn_path$", "unwrap", r"Result::expect", r"syn::parse_str\(C1_0\)",
     "W3: path segments are identifiers and therefore parse as syn::PathSegment"),
    (r"TypePathType::from_type_def_path", "panic-macro", r"panic", r"arm:\[\]",
     "W3: reached only for Composite/Variant (single funnel, C07.2), whose path is non-empty"),
    (r"TypePathType::from_type_def_path", "may-panic-call", r"__private::mk_ident", r".*IdentFragmentAdapter\((C1_0|elem\(P\d+\.segments\))\).*",
     "W3: path segments are identifiers"),
    (r"TypePathType::to_syn_type", "panic-macro", r"unimplemented", r"arm:TypeDefPrimitive::[UI]256(\|TypeDefPrimitive::[UI]256)?",
     "W5: no Rust type produces the U256/I256 primitives"),
    (r"validation::path_segments_to_syn_path", "unwrap", r"Result::expect", r"syn::parse_str\(C1_0\)",
     "keys of the substitute map are idents rendered with to_string(); each parses as a syn::PathSegment"),
    (r"validation::path_segments_to_syn_path", "panic-macro", r"panic", r".*",
     "keys of the substitute map come from path_segments(src) of a path with at least one segment (EmptySubstitutePath guard, C16.4)"),
    (r"TypeGenerator::create_type_ir", "unwrap", r"Option::expect", r"(Option::map\()?Path::ident\(P1\.path\).*",
     "W3: a Composite/Variant definition has a non-empty path (the early return excluded every other definition)"),
    (r"TypeGenerator::resolve_type_path_recurse", "index", r"Vec", r".*type_params\['0'\]",
     "W5: a type whose ident is `Cow` is scale-info's description of std Cow, which has exactly one type parameter"),
    (r"utils::ensure_unique_type_paths", "index", r"Vec", r".*\.ty\.path\.segments\)+\['0'\]",
     "groups are created as vec![id] and only ever pushed to: never empty"),
    (r"utils::ensure_unique_type_paths", "unwrap", r"Option::expect", r"slice::get_mut\(P0\.types,.*",
     "group members are enumerate() indices of the same Vec, which is not resized in between"),
    (r"utils::ensure_unique_type_paths", "unwrap", r"Option::expect", r"slice::last_mut\(.*",
     "types with an empty namespace were skipped when grouping, so the path has a last segment"),
    (r"utils::ensure_unique_type_paths", "assert", r"Overflow:Add", r"user@.*",
     "the suffix counter is bounded by the number of same-path shape groups, far below i32::MAX for any registry that fits in memory"),
    (r"utils::types_equal_inner", "unwrap", r"Option::expect", r"PortableRegistry::resolve\(P\d,P\d\)",
     "W2: compared ids come from the registry itself (entry ids and ids mentioned inside entries)"),
    (r"GenericsList::\w+", "assert", r"Overflow:Add", r"user@\(.*\.inner\.start_idx\+.*\)",
     "sums of lengths of in-memory vectors of generic parameters cannot overflow usize"),
    (r"description::type_name_with_type_params", "unwrap", r"Option::unwrap", r"PortableRegistry::resolve\(P1,.*",
     "W2: ids mentioned by a registry entry resolve (closed registry)"),
    (r"formatting::format_type_description", "assert", r"Overflow:(Add|Sub)", r"user@.*",
     "i32 indentation counter changes by one per bracket character: overflow needs 2^31 nested brackets"),
    (r"format_type_description::scope_is_small", "assert", r"Overflow:(Add|Sub)", r"user@.*",
     "balance counter changes by at most one per peeked character and at most 32 characters are peeked"),
    (r"rust_value::ty_example", "may-panic-call", r"__private::mk_ident", r".*choose\(.*variants.*",
     "W3: variant names are identifiers"),
    (r"rust_value::fields_example", "may-panic-call", r"__private::mk_ident", r".*(elem\(P0\)|C1_0)\.name.*",
     "W3: field names are identifiers"),
]
TABLE = [(re.compile(a), k, re.compile(c), re.compile(o, re.S), r) for a, k, c, o, r in TABLE]

RNG_CONSUMERS = {"SliceRandom::choose", "Rng::gen_range", "Rng::gen"}


def _local_rng_consumer(P, graph, callee):
    """a function of the description crate that takes the rng and from which no transformer method is reachable: it cannot borrow the
    state again while it holds the temporary"""
    b = P.body(callee) if callee else None
    if b is None or "body" not in b or not any("Rng" in t or "rand::" in t for t in b.get("inputs", [])):
        return False
    reach = k10.reachable(graph, [b["path"]])
    return not any("transformer::Transformer" in r for r in reach)


def arm_context(fn, node):
    """'arm:<pattern>' of the innermost match arm containing the node (for panic-macro operands)"""
    path = GD.path_to(fn["body"], node)
    if not path:
        return ""
    from .core.norm import pat_repr
    for i in range(len(path) - 1, 0, -1):
        p = path[i]
        if p.get("k") is None and "pat" in p and "body" in p:
            return "arm:" + pat_repr(p["pat"])
    return ""


def arm_chain(fn, node):
    """patterns of all match arms containing the node, outermost first"""
    path = GD.path_to(fn["body"], node)
    if not path:
        return []
    from .core.norm import pat_repr
    return [pat_repr(p["pat"]) for p in path if p.get("k") is None and "pat" in p and "body" in p]


def discharge_all(ctx, rid, P, sites, graph, extra=None):
    """evaluate every site; returns counts"""
    norms = {}
    n_mech = n_tab = 0
    for s in sites:
        fn = s.fn
        N = norms.setdefault(fn["path"], Norm(fn))
        key = "panic-site/" + s.key
        operand = s.operand
        if s.kind == "panic-macro" and s.node is not None:
            operand = arm_context(fn, s.node) or operand
            key = "panic-site/%s/%s/%s/%s" % (cshort(s.owner), s.kind, s.callee, operand)
        verdict = mechanical(ctx, P, s, N, fn, graph, operand, extra or {})
        if verdict is not None:
            ok, why = verdict
            if ok:
                n_mech += 1
                ctx.ok(rid, key, s.sp, "mechanically discharged: " + why)
            else:
                ctx.bad(rid, key, s.sp, "panic site no longer guarded: " + why)
            continue
        hit = None
        own = [cshort(o) for o in q.owners(ctx, s.owner, tuple(P.crates))]      # a helper's sites belong to the functions that call it
        for fre, kind, cre, ore, reason in TABLE:
            if kind == s.kind and all(fre.search(o) for o in own) and cre.fullmatch(s.callee) and ore.fullmatch(operand):
                hit = reason
                break
        if hit:
            n_tab += 1
            ctx.ok(rid, key, s.sp, "table: " + hit)
        else:
            ctx.bad(rid, key, s.sp, "panic-capable site `%s %s` on `%s` in %s is reachable from the property's entry points and is neither guarded nor a reviewed exception"
                    % (s.kind, s.callee, operand[:200], cshort(s.owner)))
    return n_mech, n_tab


def mechanical(ctx, P, s, N, fn, graph, operand, extra):
    node = s.node
    if s.kind == "assert" and s.operand.startswith("quote-repetition-counter"):
        return True, "element counter of a quote! `#(..),*` repetition (bounded by the number of emitted elements)"
    if node is None:
        return None
    if s.kind == "assert":
        if s.callee == "Overflow:Add" and node.get("k") == "Binary":
            l, r = N.term(node["l"]), N.term(node["r"])

            def is_len(t):
                if t[0] == "field" and t[2] == "0" and t[1][0] == "elem" and t[1][1][0] == "call" and t[1][1][1] == "Iterator::enumerate":
                    return True          # the position handed out by enumerate() is below the length of what is enumerated
                return t[0] == "call" and t[1] in GD.LEN_FNS

            def small(t):
                try:
                    return t[0] == "lit" and 0 <= int(t[1]) < 2 ** 16
                except (TypeError, ValueError):
                    return False
            if (is_len(l) or small(l)) and (is_len(r) or small(r)) and (is_len(l) or is_len(r)):
                return True, "a collection length (or a position below it) is at most isize::MAX, so adding another length or a small constant cannot overflow usize"
        return None
    conds = GD.dominating(N, fn["body"], node)
    if s.kind == "index":
        base = show(N.term(node["base"]))
        idx = N.term(node["idx"])
        need = None
        if idx[0] == "lit" and str(idx[1]) == "0":
            need = "nonempty"
        elif idx[0] == "struct" and cshort(idx[1]).endswith("RangeFrom") and show(idx[3].get("start", ("lit", "?"))) == "'1'":
            need = "nonempty"
        if need:
            ls = GD.len_set(conds, base)
            if 0 not in ls:
                return True, "index [%s] of `%s` is dominated by guards that leave len ∈ %s" % (show(idx)[:20], base[:60], sorted(ls))
            # not mechanically provable: fall through to the table (None) unless there *was* a guard mentioning the base
            if any(base in c for c in GD.cond_strings(conds)):
                return False, "guards on `%s` allow len 0 before indexing: %s" % (base[:60], GD.cond_strings(conds))
        return None
    if s.kind == "unwrap":
        recv = N.term(node["recv"])
        rs = show(recv)
        # choose() on a non-empty array literal
        if recv[0] == "call" and recv[1] == "SliceRandom::choose" and recv[2] and recv[2][0][0] == "array":
            n = len(recv[2][0][1])
            return (n >= 1), "choose() on an array literal with %d elements" % n
        # next() of an iterator over X with len(X) == 1
        it0 = recv[2][0] if recv[0] == "call" and recv[1] == "Iterator::next" and recv[2] else None
        while it0 is not None and it0[0] == "mut":
            it0 = it0[2]
        if it0 is not None and it0[0] == "call" and it0[1].endswith("::iter"):
            X = show(it0[2][0])
            ls = GD.len_set(conds, X)
            if ls and 0 not in ls:
                return True, "next() on an iterator over `%s`, whose length is constrained to %s by the dominating guards" % (X, sorted(ls))
            return False, "first element of `%s` unwrapped although guards allow it to be empty: %s" % (X, GD.cond_strings(conds))
        # X.unwrap() after `if X.is_none() { return }`
        if GD.holds(conds, "let v1::Some($)=%s" % rs, True):
            return True, "dominated by an early return when the option is None"
        # field.name.unwrap() where every element of the mapped collection has is_some(name)
        m = re.fullmatch(r"(C\d+_\d+|elem\((.+)\))\.(name|0)", rs)
        if m:
            flat = list(GD.flatten(conds))
            # what the guards leave: `a || b` holds and b does not  =>  a holds
            false_ = {show(c[1]) for c in flat if c[0] is False}
            for c in list(flat):
                if c[0] is True and c[1][0] == "op" and c[1][1] == "||" and len(c[1][2]) == 2:
                    x, y = c[1][2]
                    if show(y) in false_:
                        flat.append((True, x))
                    elif show(x) in false_:
                        flat.append((True, y))
            for c in flat:
                if c[0] == "arm":
                    # (all_named, all_unnamed) tuple match: arm (true,false)
                    sc, pat = show(c[1]), c[2]
                    if pat.replace(" ", "") in ("(true,false)",) and sc.startswith("(Iterator::all(") and "let v1::Some($)=" in sc.split(",|")[1 if ",|" in sc else 0]:
                        return True, "inside the arm where every element satisfies is_some(name): " + sc[:120]
                else:
                    pol, t = c
                    st = show(t)
                    if pol and st.startswith("Iterator::all(") and "{let v1::Some($)=C1_0." in st:
                        return True, "dominated by `all(|f| f.name.is_some())` over the mapped field list"
            return False, "name unwrapped without a dominating all-named check; conditions: %s" % GD.cond_strings(conds)
        # Path::ident(..).expect after is_none early return
        if "Path::ident(" in rs:
            for c in GD.flatten(conds):
                if c[0] != "arm" and c[0] is True and show(c[1]).startswith("let v1::Some($)=Path::ident("):
                    return True, "dominated by an early return when the path has no ident"
        return None
    if s.kind == "panic-macro" and s.callee == "unreachable":
        return unreachable_ok(N, fn, node, conds)
    if s.kind == "may-panic-call":
        if s.callee == "__private::mk_ident":
            t = N.term(node)
            st = show(t)
            m = re.fullmatch(r"format_ident\(F\[_\{__private::IdentFragmentAdapter\((.+)\)\}\]\)", st)
            if m:
                # `_` followed by an integer: always an identifier
                arg_ty = None
                for x in walk(fn["body"]):
                    if x.get("k") == "Call" and x.get("callee", "").endswith("IdentFragmentAdapter") and show(N.term(x["args"][0])) == m.group(1):
                        arg_ty = peel(x["args"][0].get("ty", ""))
                if arg_ty in ("usize", "u32", "u64", "u8", "u16"):
                    return True, "`_` followed by an unsigned integer is always an identifier"
            m = re.fullmatch(r"format_ident\(F\[\{__private::IdentFragmentAdapter\((.+)\)\}\]\)", st)
            if m:
                # the text is the scrutinee of an enclosing match arm all of whose patterns are identifier literals
                for c in GD.flatten(conds):
                    if c[0] == "arm" and show(c[1]) == m.group(1):
                        alts = [a.strip() for a in c[2].split("|")]
                        if alts and all(re.fullmatch(r"'[A-Za-z_][A-Za-z0-9_]*'", a) for a in alts):
                            return True, "the text is one of the identifier literals %s of the enclosing match arm" % c[2][:80]
            return None
        if s.callee == "Punctuated::insert":
            a0 = N.term(node["args"][0])
            if a0 == ("lit", "0"):
                return True, "insertion at index 0 is within bounds for every length"
            return False, "Punctuated::insert at a non-constant index"
        if s.callee in ("String::insert_str", "String::insert"):
            a0 = N.term(node["args"][0])
            if a0 == ("lit", "0"):
                return True, "byte offset 0 is a char boundary of every string"
            return False, "%s at a non-constant byte offset" % s.callee
        if s.callee in ("__private::parse", "__private::parse_quote"):
            return parse_quote_ok(ctx, N, node)
        if s.callee == "Rng::gen_range":
            a = N.term(node["args"][0])
            if a[0] == "struct" and cshort(a[1]).endswith("Range"):
                lo, hi = a[3].get("start"), a[3].get("end")
                if lo and hi and lo[0] == "lit" and hi[0] == "lit" and int(lo[1]) < int(hi[1]):
                    return True, "gen_range over the non-empty literal range %s..%s" % (lo[1], hi[1])
            return False, "gen_range over a range that is not a non-empty literal"
        if s.callee in ("RefCell::borrow_mut", "RefCell::borrow"):
            return refcell_ok(ctx, P, s, N, fn, graph, extra)
    return None


def unreachable_ok(N, fn, node, conds):
    flat = GD.flatten(conds)
    # (1) `_ => unreachable!()` arm of a match whose explicit arms cover what an earlier early-return let through
    arm = None
    for c in flat:
        if c[0] == "arm":
            arm = c
    strs = GD.cond_strings(conds)
    if arm is not None and arm[2] == "_":
        scr = show(arm[1])
        # find the match node to list explicit variants
        from .core.norm import pat_variants
        path = GD.path_to(fn["body"], node)
        m = None
        for p in path:
            if p.get("k") == "Match" and p.get("src") == "Normal" and show(N._t(p["scrut"])) == scr:
                m = p
        explicit = set()
        if m is not None:
            for a in m["arms"]:
                explicit |= {v for v in pat_variants(a["pat"]) if v != "_"}
        # an earlier early-return keeps only values matching `matches!(scr, A | B)`
        def or_leaves(t):
            if t[0] == "op" and t[1] == "||":
                return or_leaves(t[2][0]) + or_leaves(t[2][1])
            return [t]
        for c in flat:
            if c[0] != "arm" and c[0] is True:
                leaves = or_leaves(c[1])
                if all(l[0] == "iflet" and show(l[2]) == scr for l in leaves):
                    kept = set()
                    for l in leaves:
                        kept |= set(re.findall(r"(TypeDef::\w+)\(", l[1]))
                    if kept and kept <= explicit:
                        return True, "only %s reach the match (early return), and each has an explicit arm" % sorted(kept)
                    return False, "early return lets %s through but the match handles only %s explicitly" % (sorted(kept), sorted(explicit))
        return None
    # (2) `if a {..} else if b {..} else { unreachable!() }` after `if !(a || b) { return }`
    neg = [show(t) for pol, t in [c for c in flat if c[0] != "arm"] if pol is False]
    pos = [show(t) for pol, t in [c for c in flat if c[0] != "arm"] if pol is True]
    for p in pos:
        if p.startswith("(") and "||" in p:
            a, b = _split_or(p)
            if a in neg and b in neg:
                return False, "contradiction expected"  # unreachable in the logical sense but keep explicit below
    # conditions are: !(Not(a||b)) i.e. (a||b) true, and a false, b false
    ors = [t for pol, t in [c for c in flat if c[0] != "arm"] if pol is True and t[0] == "op" and t[1] == "||"]
    for t in ors:
        a, b = show(t[2][0]), show(t[2][1])
        if a in neg and b in neg:
            return True, "branch requires (A || B) and !A and !B, which is contradictory: A=%s" % a[:60]
    return None


def _split_or(p):
    return p, p


def parse_quote_ok(ctx, N, node):
    """parse_quote! cannot fail when its template is a well-formed path / type skeleton for every interpolation"""
    t = N.term(node)
    while t[0] in ("early", "seq"):
        t = t[2]            # guard clauses / effects that floated out of the interpolations
    if t[0] != "tpl":
        return None
    text = t[2]
    target = t[1].split(":", 1)[1] if ":" in t[1] else ""
    toks = text.split(" ")
    # path-like skeletons: (:: ident)+ | #k (:: ident)* (< args >)? ; arrays / tuples of interpolations
    pathish = re.fullmatch(r"(:: )?((\w+|#\d+)( :: (\w+|#\d+))*)( < (#\d+|#\( #\d+ \),\*)( , (#\d+|#\( #\d+ \),\*))* >)?", text)
    if pathish:
        return True, "template `%s` is a path skeleton; it parses as %s for every interpolated path/type" % (text, target.rsplit("::", 1)[-1])
    if re.fullmatch(r"\[ #\d+ ; #\d+ \]", text) or re.fullmatch(r"\( #\( #\d+ , \)\* \)", text) or re.fullmatch(r"#\( #\d+ \)::\*", text):
        return True, "template `%s` is an array / tuple / segment-list skeleton" % text
    if re.fullmatch(r"\w+", text):
        return True, "single identifier"
    return False, "parse_quote! template `%s` is not a recognised always-parsing skeleton" % text


def refcell_ok(ctx, P, s, N, fn, graph, extra):
    node = s.node
    recv = show(N.term(node["recv"]))
    owner = cshort(s.owner)
    if owner.startswith("Transformer::") and recv == "P0.cache":
        # shared borrow is held while the recurse / cache-hit policies run: they must not re-enter resolve
        bad = []
        res = [f for f in graph if f.endswith("::resolve") and "transformer::Transformer" in f]
        for b in extra.get("bindings", []):
            if b["field"].endswith(".recurse_policy") or b["field"].endswith(".cache_hit_policy"):
                reach = k10.reachable(graph, [b["bound_to"]])
                if any(r in reach for r in res):
                    bad.append(cshort(b["bound_to"]))
        if bad:
            return False, "policy %s runs under the cache's shared borrow and can re-enter Transformer::resolve (borrow_mut would panic)" % bad
        return True, "cache borrow: the %d policies invoked while it is held never reach Transformer::resolve; mutable borrows are statement-local" % len(
            [b for b in extra.get("bindings", []) if not b["field"].endswith(".policy")])
    # rng borrows: temporary handed to an RNG consumer that cannot re-enter
    path = GD.path_to(fn["body"], node)
    for p in reversed(path[:-1]):
        if p.get("k") in ("Call", "MethodCall"):
            cs = cshort(p.get("callee", p.get("name", "")))
            if cs in RNG_CONSUMERS or _local_rng_consumer(P, graph, p.get("callee")):
                return True, "rng borrow is a temporary argument of `%s`, which does not touch the transformer" % cs
            if cs in ("RefCell::borrow_mut", "DerefMut::deref_mut", "Deref::deref"):
                continue
            break
        if p.get("k") == "SLet":
            # let rng = &mut *state.borrow_mut(); the borrow lives to the end of the enclosing block:
            # nothing after it in that block may reach the transformer again
            idx = path.index(p)
            blk = path[idx - 1] if idx > 0 else None
            if blk is None or "stmts" not in blk:
                return None
            later = blk["stmts"][blk["stmts"].index(p) + 1:] + ([blk["expr"]] if "expr" in blk else [])
            offenders = []
            for st in later:
                for n in walk(st):
                    if n.get("k") in ("Call", "MethodCall"):
                        cs = cshort(n.get("callee", n.get("name", "")))
                        if cs in ("Transformer::resolve", "Transformer::state", "RefCell::borrow_mut", "RefCell::borrow") or cs.endswith("::ty_example"):
                            offenders.append(cs)
            if offenders:
                return False, "the rng borrow is held while `%s` runs, which may borrow the same RefCell again" % offenders[0]
            return True, "rng borrow held to the end of a block that afterwards only uses the rng itself (no call back into the transformer)"
    return None
