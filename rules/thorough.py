"""Thorough tier: (T1) second export without default features, (T3) compile-pass witness of the table paths,
(T5) self-test of the property's rules on scratch copies of the CURRENT tree (seeded changes, hand mutants, benign edits)."""
import glob, json, os, shutil, subprocess, tempfile, time
from . import engine
from .core.ir import Program

VERIF = engine.VERIF


def scratch_root():
    return os.environ.get("TMPDIR") or "/var/tmp"


def _copy_tree(repo, name):
    d = os.path.join(scratch_root(), "verif-selftest-%d-%s" % (os.getpid(), name))
    shutil.rmtree(d, ignore_errors=True)
    subprocess.run(["rsync", "-a", "--exclude", "target", "--exclude", ".git", repo.rstrip("/") + "/", d + "/"], check=True)
    return d


def _eval(mod, prop, repo):
    fdir = engine.ensure_facts(repo)
    P = Program(fdir)
    c = engine.Ctx(prop, P, "quick", repo)
    try:
        mod.check(c)
        from . import leaves
        leaves.check(c)
    except Exception as e:       # fail closed, like the main entry point
        c._filter = None
        c.bad("engine", "rule-not-evaluable", "", str(e)[:200])
    known = engine.load_known()
    return [i for i in c.violations() if engine.full_key(prop, i) not in known]


def selftest(ctx, mod):
    prop = ctx.prop
    res = {"mutants_fired": 0, "mutants_missed": 0, "mutants_na": 0, "benign_silent": 0, "benign_alarmed": 0, "items": []}
    items = []
    for d in sorted(glob.glob(os.path.join(VERIF, "seeded", prop + "-*"))):
        if os.path.exists(os.path.join(d, "patch.diff")):
            items.append(("seeded:" + os.path.basename(d), "patch", os.path.join(d, "patch.diff"), True))
    try:
        for m in json.load(open(os.path.join(VERIF, "selftest", "mutants.json"))):
            if m["property"] == prop:
                items.append(("mutant:" + m["name"], "edit", m, True))
        for b in json.load(open(os.path.join(VERIF, "selftest", "benign.json"))):
            items.append(("benign:" + b["name"], "edits", b, False))
    except OSError:
        pass
    for name, kind, payload, should_fire in items:
        d = _copy_tree(ctx.repo, name.replace(":", "-"))
        try:
            applicable = True
            if kind == "patch":
                r = subprocess.run(["patch", "-p1", "-s", "-i", payload], cwd=d, capture_output=True, text=True)
                applicable = r.returncode == 0
            else:
                p = os.path.join(d, payload["file"])
                s = open(p).read()
                pairs = payload["edits"] if kind == "edits" else [[payload["old"], payload["new"]]] + payload.get("also", [])
                for old, new in pairs:
                    if old not in s:
                        applicable = False
                        break
                    s = s.replace(old, new, 1)
                if applicable:
                    open(p, "w").write(s)
            if not applicable:
                res["mutants_na" if should_fire else "benign_silent"] += 1 if should_fire else 0
                res["items"].append({"name": name, "verdict": "not applicable on this tree"})
                continue
            try:
                viol = _eval(mod, prop, d)
            except engine.EngineError as e:
                res["items"].append({"name": name, "verdict": "does not build: " + str(e)[:120]})
                if should_fire:
                    res["mutants_na"] += 1
                continue
            fired = bool(viol)
            if should_fire:
                res["mutants_fired" if fired else "mutants_missed"] += 1
                if not fired:
                    print("SELFTEST-MISS rule=%s mutant=%s" % (prop, name))
            else:
                res["benign_alarmed" if fired else "benign_silent"] += 1
                if fired:
                    print("SELFTEST-FALSE-ALARM rule=%s/%s edit=%s" % (prop, viol[0]["rule"], name))
            res["items"].append({"name": name, "verdict": ("fired: " + ", ".join(sorted({v["rule"] + " " + v["key"][:60] for v in viol}))[:300]) if fired else "silent"})
        finally:
            shutil.rmtree(d, ignore_errors=True)
    ctx.selftest = res
    print("selftest %s: %d mutants fired, %d missed, %d n/a; %d benign edits silent, %d alarmed" % (
        prop, res["mutants_fired"], res["mutants_missed"], res["mutants_na"], res["benign_silent"], res["benign_alarmed"]))


def nodefault(ctx, mod):
    """T1: evaluate the property's rules on the description crate compiled without `type-example`"""
    fdir = engine.ensure_facts(ctx.repo, "nodefault")
    P = Program(fdir)
    c = engine.Ctx(ctx.prop, P, "thorough", ctx.repo)
    mod.check_nodefault(c)
    ctx.activate()
    for i in c.instances:
        i = dict(i)
        i["rule"] = i["rule"] + "@no-default-features"
        ctx.instances.append(i)
    ctx.counts["rule instances re-evaluated without default features"] = len(c.instances)


def path_witness(ctx, rid):
    """T3: every path of the primitive / prelude tables exists in core / alloc / std (rustc --emit=metadata on generated `use` items)"""
    from . import gen_rules as G
    from .core import q
    from .core.norm import Norm, show
    P = ctx.P
    paths = []
    a = G.prelude_fn(ctx, rid)
    if a is not None:
        fn, ms = a
        N = Norm(fn)
        for arm in ms[0]["arms"]:
            t = N.term(arm["body"])
            if t[0] == "tpl":
                paths.append(t[2].replace(" ", ""))
    hits = q.fns_with_match_on(P, G.is_prim, G.GEN, ret_pred=lambda o: o == "syn::Type")
    if len(hits) == 1:
        b, ms = hits[0]
        N = Norm(b)
        for arm in ms[0]["arms"]:
            t = N.term(arm["body"])
            if t[0] == "tpl":
                paths.append(t[2].replace(" ", ""))
    for extra in ("#0::vec::Vec", "#0::boxed::Box", "#0::string::String", "#0::borrow::Cow", "::core::marker::PhantomData"):
        paths.append(extra)
    paths = sorted(set(p for p in paths if p and "#0<" not in p))
    ctx.count("table paths witnessed", len(paths), 30)
    d = tempfile.mkdtemp(prefix="verif-witness-", dir=scratch_root())
    try:
        for root, prelude in (("::std", ""), ("::alloc", "extern crate alloc;\n")):
            bad = []
            for pth in paths:
                if pth.startswith("::core::primitive::"):
                    item = "#[allow(unused)] type _W = %s;" % pth
                else:
                    item = "#[allow(unused_imports)] use %s as _;" % pth.replace("#0", root)
                src = "#![no_std]\n" + prelude + (("extern crate std;\n") if root == "::std" else "") + item + "\n"
                f = os.path.join(d, "w.rs")
                open(f, "w").write(src)
                r = subprocess.run(["rustc", "--edition", "2021", "--crate-type", "lib", "--emit=metadata", "-o", os.path.join(d, "w.rmeta"), f],
                                   capture_output=True, text=True)
                if r.returncode != 0:
                    bad.append((pth.replace("#0", root), (r.stderr.splitlines() or ["?"])[0][:120]))
            ctx.expect(not bad, rid, "path-witness/" + root, "", "all %d table paths resolve with the alloc root `%s`" % (len(paths), root),
                       "table paths that do not exist: %s" % bad)
    finally:
        shutil.rmtree(d, ignore_errors=True)


def run(ctx, mod):
    t0 = time.time()
    if hasattr(mod, "check_nodefault"):
        nodefault(ctx, mod)
    if ctx.prop in ("C01", "C09"):
        path_witness(ctx, ctx.prop + ".T3")
    selftest(ctx, mod)
    ctx.counts["thorough extras wall seconds"] = int(time.time() - t0)
