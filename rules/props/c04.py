"""C04 — path de-duplication contract: minimal, sufficient, stable, idempotent (structural clauses)."""
from ..core import q
from ..core.q import expect_term, site, peel, ANY
from ..core.ir import walk, strip, walk_with_parents
from ..core.norm import Norm, show, cshort, as_for_loop, _root_local
from .. import guards as GD, k8
from . import c03

META = {
    "explanation": "Frame (K12): every write through the `&mut PortableRegistry` parameter of ensure_unique_type_paths is enumerated; the only one allowed is the "
                   "assignment to `segments.last_mut()` of an entry obtained with get_mut(<group member id>) - ids, order, definitions, parameters and other segments "
                   "are never written. Minimality (K5): only path families with more than one shape group are renamed (guard truth table over the group count). "
                   "Numbering (K4): the suffix counter is declared inside the per-path loop with initial literal 1, incremented once per shape group after the inner "
                   "loop, and the new name is `format!(\\\"{name}{n}\\\")` of the old last segment; groups are only appended to while walking the registry in order. "
                   "sanity_pass first (K11). Freshness (K11): a renamed path must be tested against the registry's existing paths before it is written - necessary "
                   "for `generation no longer fails` on registries that already contain digit-suffixed names. Idempotence / sufficiency as behaviour and "
                   "`instantiations stay together` are NOT decided.",
    "trusted_base": ["nightly rustc HIR", "format! lowering decoded from the fmt::Arguments template bytes"],
    "assumptions": ["structural necessary conditions; shape grouping soundness is C03's undecided part"],
    "exhaustive": True,
}


def check(ctx):
    P = ctx.P
    fn = q.fn1(P, "utils::ensure_unique_type_paths", "scale_typegen")
    if fn is None:
        ctx.bad("C04.1", "missing-anchor/ensure_unique_type_paths", "", "ensure_unique_type_paths not found")
        return
    N = Norm(fn)
    i_reg = q.param_index(fn, lambda t: t == "&mut scale_info::PortableRegistry")
    reg_id = N.param_id(i_reg)
    # ---- C04.1 frame: all writes rooted at the registry parameter (directly or through derived &mut bindings)
    derived_muts = {reg_id: "P%d" % i_reg}
    writes = []
    changed = True
    while changed:
        changed = False
        for lid, (origin, path, pat) in N.defs.items():
            if lid in derived_muts or origin[0] not in ("let", "elem"):
                continue
            ty = pat.get("ty", "")
            if not ty.startswith("&mut "):
                continue
            src = origin[1]
            root = k8._root_local_through_calls(src)
            if root in derived_muts:
                derived_muts[lid] = show(N.term(src))
                changed = True
    for n in walk(fn["body"]):
        k = n.get("k")
        if k in ("Assign", "AssignOp"):
            root = k8._root_local_through_calls(n["l"])
            if root in derived_muts:
                writes.append(("assign", show(N.term(n["l"]))[:300], n))
        elif k == "MethodCall":
            recv = n["recv"]
            adj = recv.get("adj") or recv.get("ty", "")
            if adj.startswith("&mut "):
                root = k8._root_local_through_calls(recv)
                if root in derived_muts:
                    writes.append(("mutcall:" + cshort(n.get("callee", n["name"])), show(N.term(recv), 10 ** 5), n))
        if k in ("Call", "MethodCall"):
            for a in n["args"]:
                a2 = k8.strip_nonref(a)
                if a2.get("k") == "AddrOf" and a2.get("mut") and k8._root_local_through_calls(a2["e"]) in derived_muts:
                    writes.append(("mutarg:" + cshort(n.get("callee", "?")), show(N.term(a2["e"]))[:200], n))
                elif peel(a.get("ty", "")) == "scale_info::PortableRegistry" and (a.get("adj") or a.get("ty", "")).startswith("&mut") and _root_local(a) in derived_muts \
                        and not n.get("callee", "").endswith("sanity_pass"):
                    writes.append(("passes-&mut:" + cshort(n.get("callee", "?")), "", n))
    kinds = sorted(w[0] for w in writes)
    ctx.count("write sites through the registry parameter", len(writes), 3)
    allowed_calls = {"mutcall:slice::get_mut", "mutcall:Vec::get_mut", "mutcall:slice::last_mut", "mutcall:Vec::last_mut"}
    for kind, where, n in writes:
        if kind in allowed_calls:
            if kind.endswith("get_mut"):
                idx = show(N.term(n["args"][0]))
                ctx.expect("elem(elem(elem(" in idx and where == "P%d.types" % i_reg, "C04.1", "frame/get_mut", site(n),
                           "entries are reached only through types.get_mut(<member id of a renamed group>)", "get_mut on `%s` with index `%s`" % (where, idx[:160]))
            else:
                ctx.expect(where.endswith(".ty.path.segments"), "C04.1", "frame/last_mut", site(n), "only the last segment of the entry's path is borrowed mutably",
                           "last_mut on `%s`" % where[-200:])
        elif kind == "assign":
            lhs = show(unmut(N.term(n["l"])))
            ok = lhs.startswith("slice::last_mut(") and lhs.endswith(".ty.path.segments)@v1::Some.0")
            ctx.expect(ok, "C04.1", "frame/assign", site(n), "the only assignment is `*segments.last_mut() = new_name`", "assignment to `%s`" % lhs[:200])
        elif kind == "mutcall:String::push_str":
            # appending to the last segment in place is the same write as assigning `old + suffix` to it
            lhs = show(unmut(N.term(n["recv"])))
            ok = lhs.startswith("slice::last_mut(") and lhs.endswith(".ty.path.segments)@v1::Some.0")
            ctx.expect(ok, "C04.1", "frame/assign", site(n), "the only write is to `*segments.last_mut()`", "push_str on `%s`" % lhs[:200])
        else:
            ctx.bad("C04.1", "frame/other/" + kind, site(n), "the registry is modified through `%s` on `%s`: outside the frame (only the last path segment may change)" % (kind, where))
    ctx.expect(sum(1 for w in writes if w[0] in ("assign", "mutcall:String::push_str")) == 1, "C04.1", "frame/one-assignment", fn["sp"],
               "exactly one write through the registry (the new last segment)", "writes: %s" % kinds)
    # ---- C04.2 minimality
    sites = [s for s in k8.hash_sites(P, ("scale_typegen",)) if s.fn["path"] == fn["path"] and s.callee == "HashMap::into_values"]
    if len(sites) != 1:
        ctx.bad("C04.2", "missing-anchor/groups", fn["sp"], "groups map is not consumed by one into_values()")
        return
    chain, top = k8._consumer_chain(sites[0])
    filt = [n for c, n in chain if c == "Iterator::filter"]
    if len(filt) != 1:
        ctx.bad("C04.2", "minimality", site(sites[0].node), "groups are not filtered before renaming")
    else:
        cl = strip(filt[0]["args"][0])
        ct = N.term(cl["body"])
        tt = GD._len_pred(ct, "C1_0")
        ctx.expect(tt == {2, 3}, "C04.2", "minimality", site(filt[0]), "a path family is renamed iff it has more than one shape group (truth table over 0,1,2,3+: F,F,T,T)",
                   "rename guard `%s` has truth table %s over group counts {0,1,2,3+}, expected {2,3+}" % (show(ct), sorted(tt) if tt is not None else "?"))
    # ---- C04.3 numbering and C04.4 order
    let = None
    for p in sites[0].parents:
        if p.get("k") == "SLet" and k8.strip_eq(p.get("init"), top):
            let = p
    gid = let["pat"]["id"] if let else None
    outer = [n for n in walk(fn["body"]) if as_for_loop(n) is not None and strip(as_for_loop(n)[1]).get("id") == gid]
    if len(outer) != 1:
        ctx.bad("C04.3", "missing-anchor/rename-loop", fn["sp"], "rename loop over the filtered groups not found")
        return
    pat, it, body = as_for_loop(outer[0])
    bb = strip_block(body)
    counters = [s for s in bb["stmts"] if s.get("k") == "SLet" and s["pat"].get("k") == "Bind" and s["pat"].get("mut")]
    ok = len(counters) == 1 and show(N.term(counters[0]["init"])) == "'1'"
    ctx.expect(ok, "C04.3", "numbering/counter-init", site(outer[0]), "suffix counter declared inside the per-path loop, initial value 1 (numbering restarts per path)",
               "counter declarations in the per-path loop: %s" % [show(N.term(c["init"])) for c in counters])
    if ok:
        cid = counters[0]["pat"]["id"]
        incs = [(n, parents) for n, parents in walk_with_parents(body) if n.get("k") in ("AssignOp", "Assign") and _root_local(n["l"]) == cid]
        good = len(incs) == 1 and incs[0][0].get("op") == "+=" and show(N.term(incs[0][0]["r"])) == "'1'"
        depth = None
        if good:
            # number of enclosing for-loops between the per-path loop body and the increment: exactly 1 (per shape group, after the member loop)
            depth = sum(1 for p in incs[0][1] if as_for_loop(p) is not None)
            good = depth == 1
            # and it comes after the inner (member) loop in the same block
            blk = [p for p in incs[0][1] if p.get("k") is None and "stmts" in p][-1]
            idx_inc = [i for i, s in enumerate(blk["stmts"]) if s.get("e") is not None and strip(s["e"]) is incs[0][0]]
            idx_loop = [i for i, s in enumerate(blk["stmts"]) if s.get("e") is not None and as_for_loop(strip(s["e"])) is not None]
            good = good and idx_inc and idx_loop and idx_loop[0] < idx_inc[0]
        ctx.expect(good, "C04.3", "numbering/increment", site(outer[0]), "counter += 1 exactly once per shape group, after the group's members were renamed",
                   "counter updates: %d, loop depth %s" % (len(incs), depth))
    asg = [w for w in writes if w[0] == "assign"]
    if asg:
        n = asg[0][2]
        rhs = N.term(n["r"])
        lhs_place = show(unmut(N.term(n["l"])))
        ok = rhs[0] == "fmt" and [p[0] for p in rhs[1]] == ["arg", "arg"] and show(unmut(rhs[1][0][2])) in (lhs_place, "<self>") and rhs[1][1][2][0] == "mut"
        ctx.expect(ok, "C04.3", "numbering/new-name", site(n), "new name = old last segment immediately followed by the counter: format!(\"{name}{n}\")",
                   "new name term: %s" % show(rhs)[:300])
    app = [w for w in writes if w[0] == "mutcall:String::push_str"]
    if app and not asg:
        n = app[0][2]
        arg = N.term(n["args"][0])
        while arg[0] == "call" and len(arg[2]) == 1 and arg[1] in ("ToString::to_string", "String::as_str", "AsRef::as_ref"):
            arg = arg[2][0]
        ok = arg[0] == "mut" and arg[2] == ("lit", "1")
        ctx.expect(ok, "C04.3", "numbering/new-name", site(n), "new name = old last segment with the counter appended in place",
                   "appended text: %s" % show(arg)[:300])
    if not asg and not app:
        ctx.bad("C04.3", "numbering/new-name", fn["sp"], "the statement that writes the new name was not found")
    with ctx.only(lambda k: k in ("grouping", "grouping-key")):       # families are formed by the full path: only types that share a path are ever renamed
        c03.grouping(ctx)
    # `generation succeeds afterwards`: the generator judges a later same-path type against the FIRST kept one, as the grouping above does
    from .. import gen_rules as _G
    with ctx.only(lambda k: k.startswith("keep-first/")):
        _G.keep_first_or_error(ctx, "C04.7")
    # C04.7: `instantiations of one generic definition still share one path` and `only types that shared a path with a DIFFERENTLY shaped
    # type are renamed` both need the shape comparator to compare CORRESPONDING fields of the two operands (a necessary condition for
    # answering `equal` on equal shapes): the symmetric-coverage instances of C03.2 are evaluated here under C04's own rule id.
    with ctx.only(lambda k: k.startswith("comparator-coverage/") or k.startswith("comparator-length/") or k.startswith("comparator-arm/") or k.startswith("ground/")):
        c03.comparator(ctx, "C04.7")
    # ---- C04.5 sanity first
    first = fn["body"]["b"]["stmts"][0]
    ft = show(N.term(first["e"])) if first.get("k") in ("SSemi", "SExpr") else "?"
    ctx.expect(ft == "utils::sanity_pass(P%d)?" % i_reg, "C04.5", "sanity-first", fn["sp"], "sanity_pass(types)? is the first statement", "first statement: " + ft[:120])
    # ---- C04.6 freshness
    if asg or app:
        n = (asg or app)[0][2]
        conds = GD.cond_strings(GD.dominating(N, fn["body"], n))
        fresh = [c for c in conds if ("contains" in c or "registry_contains_type_path" in c or "HashSet::insert" in c or "any(" in c) and "path" in c]
        ctx.expect(bool(fresh), "C04.6", "freshness/rename-without-freshness-check", site(n),
                   "the new path is tested against the registry's existing paths before it is written",
                   "the renamed path `{name}{n}` is written without checking that it is not already some type's path: for k::Foo{u8}, k::Foo{u16}, k::Foo1{u32} "
                   "the result is Foo1, Foo2, Foo1 and generation still fails with DuplicateTypePath")


def unmut(t):
    while t[0] == "mut":
        t = t[2]
    return t


def strip_block(e):
    e = strip(e)
    while e.get("k") == "Block":
        return e["b"]
    return {"stmts": []}
