"""C17 — output depends only on the type graph: renumbering, order, restriction (structural necessary conditions)."""
from .. import gen_rules as G
from . import c06

META = {
    "explanation": "Id opacity (K9) over both library crates: values read from registry ids (`.id`, concrete_type_id, enumerate indices cast to ids) never reach an "
                   "ordering comparison, arithmetic, an identifier or an interpolated token; containers ordered by an id-bearing key (BTreeSet<TypeParameter>, whose "
                   "derived Ord compares concrete_type_id first) may be iterated only into commutative updates - iteration in id order must not reach the output. "
                   "Path-keyed ordered output (K15): ModuleIR maps are BTreeMaps keyed by ident / path. Locality: in the definition loop the only state carried between "
                   "registry entries is the path-keyed module map. Parameter matching is by id EQUALITY only. Token identity under permutation when several "
                   "instantiations compete for keep-first, and equivalence with retain()-ed sub-registries as a relation between runs, are NOT decided.",
    "trusted_base": ["nightly rustc HIR + derived-impl facts", "BTreeMap iterates in key order"],
    "assumptions": ["necessary conditions for independence from numeric ids and entry order"],
    "exhaustive": True,
}


def check(ctx):
    G.id_opacity(ctx, "C17.1")
    with ctx.only(lambda k: k.startswith("container/ModuleIR")):
        c06.containers(ctx)
    G.definition_loop_locality(ctx, "C17.3")
    G.param_match_predicate(ctx, "C17.4")
    # which instantiation of a generic definition is met first must not matter: every position of a definition is recovered as the parameter it
    # is (nested positions are resolved with the SAME parent parameters, never through the public entry that starts with none)
    G.resolver_entry_flags(ctx, "C17.4")
    with ctx.only(lambda k: k.startswith("resolver/")):
        G.resolver_arms(ctx, "C17.4")
    G.module_template(ctx, "C17.2")
    G.phantom_data(ctx, "C17.1")
    # keep-first and shape grouping compare (later, earlier): the outcome is independent of entry order only if the shape
    # comparator is symmetric - every field and every list length compared on both operands in mirrored positions
    from . import c03
    with ctx.only(lambda k: k.startswith("comparator-coverage/") or k.startswith("comparator-length/") or k.startswith("comparator-arm/") or k.startswith("ground/")):
        c03.comparator(ctx, "C17.5")       # incl. the ways of answering `equal` without comparing: a one-sided visited set makes equal(a, b) != equal(b, a)
    # shape groups per path: every entry compared with the kept representatives through the comparator with a FRESH state (a memo shared
    # between comparisons makes the groups depend on the order in which entries are met)
    with ctx.only(lambda k: k in ("grouping", "grouping-key")):
        c03.grouping(ctx)
    # recursive derives: what a type receives must not depend on which roots were visited before it (entry order): the reachable set is per root
    from . import c08
    with ctx.only(lambda k: k in ("flatten/reachable-set", "flatten/per-entry")):
        c08.flatten(ctx)
