"""C11 — settings validation is sound and complete."""
from ..core import q
from ..core.q import expect_term, expect_fn, site, peel, ANY
from ..core.norm import Norm, show, cshort
from . import c06

META = {
    "explanation": "The iterated set is specific ∪ recursive derives (the accessor chains both maps, K3) plus all substitutes. Membership (K4) is equality of the FULL segment "
                   "vector with some registry entry's path. An entry is reported iff membership fails (K5); attributes go to the attributes list iff non-empty and derives to "
                   "the derives list iff non-empty (no crossing), an entry already present for that path is extended instead of duplicated, substitutes report "
                   "(source path, target path). The result is Ok iff all three lists are empty (is_empty reads all three fields). Similar paths (K4): order-preserving "
                   "filter over the registry on equality of the LAST identifiers, empty query ident gives the empty list. Decides soundness and completeness for all "
                   "registries and settings under std container semantics; map iteration order only affects list order, which the property compares as sets.",
    "trusted_base": ["nightly rustc HIR", "Vec / HashMap / Iterator::any semantics"],
    "assumptions": [],
    "exhaustive": True,
}
S = "scale_typegen"


def check(ctx):
    P = ctx.P
    expect_fn(ctx, "C11.1", "both-maps", "DerivesRegistry::derives_on_specific_types",
              ["Iterator::chain(HashMap::iter(P0.specific_type_derives),HashMap::iter(P0.recursive_type_derives))",
               "Iterator::chain(HashMap::iter(P0.recursive_type_derives),HashMap::iter(P0.specific_type_derives))"],
              "type-specific AND recursive registrations are validated", S)
    expect_fn(ctx, "C11.2", "membership", "validation::registry_contains_type_path",
              ["Iterator::any(P0.types,|1|{(C1_0.ty.path.segments==P1)})", "Iterator::any(P0.types,|1|{(P1==C1_0.ty.path.segments)})"],
              "a path is known iff its full segment vector equals the path of some registry entry", S)
    fn = q.fn1(P, "validation::validate_substitutes_and_derives_against_registry", S)
    if fn is None:
        ctx.bad("C11.3", "missing-anchor/validate", "", "validation entry point not found")
        return
    N = Norm(fn)
    syms = q.syms_by_type(N, {"typegen::error::SettingsValidationError": "ERR"})
    i_sub = q.param_index(fn, lambda t: t.endswith("TypeSubstitutes"))
    i_der = q.param_index(fn, lambda t: t.endswith("DerivesRegistry"))
    i_reg = q.param_index(fn, lambda t: "PortableRegistry" in t)
    D = "elem(DerivesRegistry::derives_on_specific_types(P%d))" % i_der
    Sx = "elem(TypeSubstitutes::iter(P%d))" % i_sub
    UNK = "Not(validation::registry_contains_type_path(P%d,substitutes::path_segments(%s.0.path)))" % (i_reg, D)

    def lst(field, getter):
        L = "ERR.%s" % field
        return ("if(Not(HashSet::is_empty(%s(%s.1)))){search(%s,(elem(%s).0==%s.0.path),Extend::extend(elem(%s).1,HashSet::iter(%s(%s.1))),"
                "Vec::push(%s,(%s.0.path,%s(%s.1))))}else{'()'}") % (getter, D, L, L, D, L, getter, D, L, D, getter, D)
    A = lst("attributes_for_unknown_types", "Derives::attributes")
    Dv = lst("derives_for_unknown_types", "Derives::derives")
    SUB = ("for(TypeSubstitutes::iter(P%d)){if(Not(validation::registry_contains_type_path(P%d,%s.0))){Vec::push(ERR.substitutes_for_unknown_types,"
           "(validation::path_segments_to_syn_path(%s.0),Substitute::path(%s.1)))}else{'()'}}") % (i_sub, i_reg, Sx, Sx, Sx)
    RES = "if(SettingsValidationError::is_empty(ERR)){Ok(())}else{Err(ERR)}"
    exps = []
    for first, second in ((A, Dv), (Dv, A)):
        exps.append("{for(DerivesRegistry::derives_on_specific_types(P%d)){if(%s){{%s;%s}}else{'()'}};%s;%s}" % (i_der, UNK, first, second, SUB, RES))
    t = show(N.term(fn["body"], syms), 10 ** 6)
    expect_term(ctx, "C11.3", "report-iff-unknown", fn["sp"], t, exps,
                "every specific/recursive entry and every substitute is tested for membership; unknown ones are reported in the matching list (derives iff non-empty, "
                "attributes iff non-empty, existing entry for the path extended); Ok iff nothing was reported")
    for lid, sym in syms.items():
        origin = N.defs[lid][0]
        init = N.term(origin[1]) if origin[0] == "let" else ("opaque", "not-a-let")        # the initialiser of the `let` itself
        expect_term(ctx, "C11.3", "error-starts-empty", fn["sp"], init, "Default::default()", "the error starts with three empty lists")
    expect_fn(ctx, "C11.4", "substitute-target", "Substitute::path", "P0.path", "the reported target is the rule's target path", S)
    expect_fn(ctx, "C11.4", "substitute-iter", "TypeSubstitutes::iter", "HashMap::iter(P0.substitutes)", "all substitution rules are visited", S)
    expect_fn(ctx, "C11.4", "getter/derives", "Derives::derives", "P0.derives", "derives getter", S)
    expect_fn(ctx, "C11.4", "getter/attributes", "Derives::attributes", "P0.attributes", "attributes getter", S)
    expect_fn(ctx, "C11.4", "source-path", "validation::path_segments_to_syn_path", "early{slice::is_empty(P0)=><diverge>}T[#( #0 )::*](Iterator::map(P0,|1|{Result::expect(syn::parse_str(C1_0))}))",
              "the reported source path is rebuilt from exactly the key's segments, in order", S)
    fe = q.fn1(P, "SettingsValidationError::is_empty", S)
    if fe is None:
        ctx.bad("C11.5", "missing-anchor/is_empty", "", "SettingsValidationError::is_empty not found")
    else:
        t = show(Norm(fe).term(fe["body"]))
        fields = [f["name"] for f in q.adt_by_name(P, "SettingsValidationError", S)["variants"][0]["fields"]]
        ok = all("slice::is_empty(P0.%s)" % f in t for f in fields) and "||" not in t and t.count("&&") == len(fields) - 1
        ctx.expect(ok, "C11.5", "is-empty/all-fields", fe["sp"], "is_empty is the conjunction over all %d lists %s" % (len(fields), fields), "is_empty is `%s`" % t)
    Q = "scale_info::Path{segments:Iterator::collect(Iterator::map(Punctuated::iter(P1.segments),|1|{ToString::to_string(C1_0.ident)}))}"
    Q2 = "scale_info::Path{segments:substitutes::path_segments(P1)}"          # the same list of idents through the helper pinned by C07.8 key/idents-only
    expect_fn(ctx, "C11.6", "similar-paths", "validation::similar_type_paths_in_registry",
              ["if(let v1::Some($)=Path::ident(%s)){Iterator::collect(Iterator::filter_map(P0.types,|1|{if((Path::ident(C1_0.ty.path)?==Path::ident(%s)@v1::Some.0))"
               "{TryIntoSynPath::syn_path(C1_0.ty.path)}else{v1::None}}))}else{Vec::new()}" % (x, x) for x in (Q, Q2)],
              "registry paths whose last identifier equals the query's last identifier, in registry order (order-preserving filter_map); empty query -> empty list", S)
    fs = [b for b in q.fn_by_suffix(P, "TryIntoSynPath>::syn_path", S) if "scale_info::Path" in b["path"]]
    if len(fs) == 1:
        expect_term(ctx, "C11.6", "similar-paths/conversion", fs[0]["sp"], Norm(fs[0]).term(fs[0]["body"]),
                    "then(Not(slice::is_empty(P0.segments)),T[#( #0 )::*](Iterator::map(P0.segments,|1|{Result::expect(syn::parse_str(C1_0))})))",
                    "a registry path converts to the syn path with the same segments in order; empty paths convert to None")
    else:
        ctx.bad("C11.6", "missing-anchor/syn_path", "", "TryIntoSynPath for &scale_info::Path not found")
