"""C01 — generated types are wire-faithful to the registry (structural necessary conditions)."""
from .. import gen_rules as G

META = {
    "explanation": "Static structural analysis over the typed HIR of the generator: table agreement (K1) for the primitive and prelude "
                   "path tables incl. inclusion of scale-info's own prelude-name set; exhaustive arms + child coverage (K2) of the TypeDef "
                   "resolver and the TypePathType->syn conversion; slot provenance (K4) of every TypePathType / EnumIR / CompositeIR / field-IR "
                   "slot back to the registry field it must come from (variant index, field order, store/order, is_field flag); guarded "
                   "emission (K5) of codec(index/compact/skip) and Box wrapper; sibling agreement (K14) of the named/unnamed and struct/enum "
                   "field emitters. Decides the induction's leaf lemmas for all registries; does NOT decide that rustc/parity-scale-codec "
                   "interpret the emitted items as assumed, nor decoding of concrete bytes.",
    "trusted_base": ["nightly rustc front end (HIR/typeck)", "quote 1.0 expansion shape (cross-checked by template reconstruction)",
                     "iterator adaptors map/filter_map/collect preserve order", "scale-info 2.11.5 as locked"],
    "assumptions": ["DESIGN.md section 3 (well-formed, coincidence-free registries) and section 4"],
    "exhaustive": True,
}


def check(ctx):
    G.prim_syn_table(ctx, "C01.1", strict_root=False)
    G.resolver_arms(ctx, "C01.3")
    G.resolver_entry_flags(ctx, "C01.11")
    G.param_match_predicate(ctx, "C01.11")      # a position is rendered as a parameter only if its id IS that parameter's id (else e.g. Compact<T> loses its wrapper)
    G.cow_unwrap(ctx, "C01.12")
    G.syn_arms(ctx, "C01.13", strict_alloc=False)
    G.prelude_table(ctx, "C01.21", strict_root=False)
    G.generated_path(ctx, "C01.23")
    G.enum_struct_ir(ctx, "C01.24")
    G.field_closures(ctx, "C01.26")
    G.item_templates(ctx, "C01.29")
    G.field_templates(ctx, "C01.31", strict_alloc=False)
    # same-path families: the kept definition represents every merged id only if the shape comparator compares every
    # shape-bearing field of both operands and the merge is guarded by it (shared with C03)
    from . import c03
    with ctx.only(lambda k: k.startswith("comparator-coverage/") or k.startswith("comparator-length/") or k.startswith("comparator-arm/") or k.startswith("ground/")):
        c03.comparator(ctx, "C01.35")
    with ctx.only(lambda k: k.startswith("keep-first/")):
        G.keep_first_or_error(ctx, "C01.35")
    # substitutes are among the settings the property quantifies over: a substituted reference carries the arguments of the registry type at the
    # positions the rule's source generics name (C07's mapping instances, evaluated here under C01's own id)
    from . import c07 as _c07
    with ctx.only(lambda k: k.startswith("mapping/")):
        _c07.check(ctx)
