"""C10 — documented failure conditions are errors, not panics, and the only ones."""
from ..core import q
from ..core.q import expect_term, site, peel, ANY
from ..core.ir import walk, strip, walk_with_parents
from ..core.norm import _diverges, Norm, show, cshort, as_for_loop
from .. import k10, panics, k13, guards as GD
from .. import gen_rules as G

META = {
    "explanation": "Panic inventory (K10): every unwrap/expect/panic!/unreachable!/unimplemented!/index expression, every MIR Assert terminator and every "
                   "listed may-panic library call (Ident::new, format_ident!, parse_quote!, Punctuated::insert, RefCell borrows) in functions reachable "
                   "(resolved call graph incl. local-trait impls and fn-pointer bindings) from the generator's public entry points must be discharged by a "
                   "dominating guard evaluated on normalised conditions or by a reviewed table entry citing the well-formedness assumptions W1-W5. "
                   "Error provenance: each TypegenError variant is constructed only at its documented site, under its documented guard, with the offending "
                   "value as payload. Must-precede (K11): the id==index sanity pass is the first statement of both entry points. Termination (K13): every "
                   "recursive SCC is classified structural / guarded / type-expression and its descent condition is checked. The prelude-table panic is "
                   "discharged only while the K1 inclusion of scale-info's prelude names holds.",
    "trusted_base": ["nightly rustc MIR (Assert terminators at mir-opt-level 0)", "listed may-panic library calls (table in rules/k10.py)",
                     "panics inside dependencies other than the modelled calls are not analysed"],
    "assumptions": ["registries are well-formed (W1-W5) for the no-panic clause; single faults of the documented kinds for the error clause"],
    "exhaustive": True,
}
LIBS = ("scale_typegen", "scale_typegen_description")
ENTRY_SUFFIXES = ["TypeGenerator::<'a>::generate_types_mod", "utils::ensure_unique_type_paths", "TypeGenerator::<'a>::resolve_type_path",
                  "TypeGenerator::<'a>::resolve_field_type_path", "TypeGenerator::<'a>::create_type_ir", "TypeGenerator::<'a>::upcast_composite",
                  "TypeGenerator::<'a>::create_composite_ir_kind", "TypeGenerator::<'a>::docs_from_scale_info",
                  "TypeGenerator::<'a>::type_path_maybe_with_substitutes", "TypeGenerator::<'a>::resolve_type",
                  "typegen::ir::ToTokensWithSettings::to_token_stream", "TypeGenerator::<'a>::new", "TypeGenerator::<'a>::settings",
                  "TypeGenerator::<'a>::types", "TypeGenerator::<'a>::types_mod_ident", "ModuleIR::ident", "ModuleIR::children", "ModuleIR::types",
                  "ModuleIR::root_mod", "CompositeIR::new", "CompositeFieldIR::new", "TypePath::from_parameter", "TypePath::from_type",
                  "TypePath::from_syn_path", "TypePath::is_compact", "TypePath::is_string", "TypePath::is_uint_up_to_u128",
                  "TypePath::parent_type_params", "TypePath::vec_type_param", "TypeParameters::from_scale_info",
                  "TypeParameters::unused_params_phantom_data", "TypeParameters::params", "TypeParameters::has_unused_type_params",
                  "CompositeIRKind::could_derive_as_compact"]


def entries(ctx, rid):
    out = []
    for suf in ENTRY_SUFFIXES:
        fs = q.fn_by_suffix(ctx.P, suf, "scale_typegen")
        if not fs:
            ctx.bad(rid, "missing-anchor/entry/" + suf, "", "entry point `%s` not found" % suf)
        out += [f["path"] for f in fs]
    # trait impls of the token emitters are entry points through to_token_stream
    for c, b in ctx.P.all_bodies(("scale_typegen",)):
        if "ToTokensWithSettings>::to_tokens" in b["path"] or "quote::ToTokens>::to_tokens" in b["path"]:
            out.append(b["path"])
    return out


def check(ctx):
    P = ctx.P
    edges, table = k10.fnptr_bindings(P, LIBS)
    g = k10.call_graph(P, LIBS, edges)
    ents = entries(ctx, "C10.3")
    reach = k10.reachable(g, ents)
    ctx.count("functions reachable from the generator entry points", len(reach), 42)
    inv = [s for s in k10.inventory(P, ("scale_typegen",)) if s.owner in reach]
    ctx.count("panic-capable sites in reach", len(inv), 42)
    # the prelude catch-all is discharged by K1 (C10.5)
    missing = G.prelude_table(ctx, "C10.5", only_panic_discharge=True)
    # which site that is: the only panic in the one-segment arm, whose value (helpers looked through) is the table lookup diverging exactly on a miss
    miss_only = False
    a = G.prelude_fn(ctx, "C10.5", outer=True)
    if a is not None:
        t = G._norm(ctx, a[0]).term(a[0]["body"])
        pm = t[3].get("path") if t[0] == "struct" and t[3] else None
        one = [b for p, _g, b in pm[2] if p == "[$]"] if pm is not None and pm[0] == "match" else []
        if len(one) == 1 and one[0][0] == "match":
            div = [p for p, _g, b in one[0][2] if _diverges(b)]
            miss_only = div in (["_"], ["$"]) and all(p.startswith("'") for p, _g, b in one[0][2] if not _diverges(b))
    in_one_segment_arm = [s for s in inv if s.kind == "panic-macro" and cshort(s.owner) == "TypePathType::from_type_def_path" and s.node is not None
                          and "[$]" in panics.arm_chain(s.fn, s.node)]
    rest = []
    for s in inv:
        if miss_only and len(in_one_segment_arm) == 1 and s is in_one_segment_arm[0]:
            ctx.expect(missing == [], "C10.5", "panic-site/prelude-catch-all", s.sp,
                       "`Unknown prelude type` is unreachable: the table covers every single-segment path scale-info emits (K1 inclusion holds)",
                       "the catch-all panic is reachable for the scale-info prelude names " + str(missing))
            continue
        rest.append(s)
    n_mech, n_tab = panics.discharge_all(ctx, "C10.3", P, rest, g, {"bindings": table})
    ctx.count("sites discharged mechanically", n_mech)
    ctx.count("sites discharged by reviewed table", n_tab)
    error_provenance(ctx)
    sanity_first(ctx)
    k13.check_sccs(ctx, "C10.4", g, reach, LIBS, table)


def ctor_sites(P, enum_suffix, crates=("scale_typegen",)):
    """construction sites of each variant of an error enum: {variant: [(fn, node)]}"""
    out = {}
    for c, b in P.all_bodies(crates):
        if "body" not in b or q.derived(b):
            continue
        for n in walk(b["body"]):
            k = n.get("k")
            path = None
            if k == "Call" and n.get("dk", "").startswith("Ctor") and enum_suffix in n.get("callee", ""):
                path = n["callee"]
            elif k == "Path" and n.get("r") == "def" and n.get("dk", "").startswith("Ctor") and enum_suffix in n.get("path", ""):
                path = n["path"]
            elif k == "Struct" and n.get("adt", "").endswith(enum_suffix):
                path = n["adt"] + "::" + n.get("variant", "")
            if path:
                out.setdefault(path.rsplit("::", 1)[-1], []).append((b, n))
    return out


def error_provenance(ctx):
    P = ctx.P
    sites = ctor_sites(P, "error::TypegenError")
    variants = q.variants_of(P, "TypegenError", "scale_typegen") or []
    ctx.count("TypegenError variants", len(variants), 10)
    expected_fn = {
        "RegistryTypeIdsInvalid": ["utils::sanity_pass"],
        "InvalidFields": ["TypeGenerator::create_composite_ir_kind"],
        "InvalidType": ["TypeGenerator::resolve_type_path_recurse"],
        "CompactPathNone": ["TypeGenerator::resolve_type_path_recurse"],
        "DecodedBitsPathNone": ["TypeGenerator::resolve_type_path_recurse"],
        "TypeNotFound": ["TypeGenerator::resolve_type"],
        "DuplicateTypePath": ["TypeGenerator::generate_types_mod"],
        "SynParseError": [], "InvalidSubstitute": [], "SettingsValidation": [],
    }
    for v in variants:
        where = sorted({cshort(o) for b, n in sites.get(v, []) for o in q.owners(ctx, b["path"], ("scale_typegen",))})      # a private helper constructs on behalf of its callers
        exp = expected_fn.get(v)
        if exp is None:
            ctx.bad("C10.1", "error-site/" + v, "", "new TypegenError variant `%s` without a reviewed provenance (constructed in %s)" % (v, where))
            continue
        ctx.expect(where == exp, "C10.1", "error-site/" + v, site(sites[v][0][1]) if sites.get(v) else "",
                   "TypegenError::%s is constructed only in %s" % (v, exp or "no library function (only via From / by callers)"),
                   "TypegenError::%s is constructed in %s, expected %s" % (v, where, exp))
    # guards and payloads
    sp = q.fn1(P, "utils::sanity_pass", "scale_typegen")
    if sp is None:
        ctx.bad("C10.1", "missing-anchor/sanity_pass", "", "sanity_pass not found")
    else:
        N = Norm(sp)
        t = show(N.term(sp["body"]), 10 ** 5)
        i_reg = q.param_index(sp, lambda t: "PortableRegistry" in t)
        E = "elem(Iterator::enumerate(P%d.types))" % i_reg
        exp = ("search(Iterator::enumerate(P%d.types),(%s.1.id!=(%s.0 as u32)),Err(error::TypegenError::RegistryTypeIdsInvalid{expected_ty_id:(%s.0 as u32),given_ty_id:%s.1.id,ty_def:F[{%s.1.ty}]}),Ok(()))"
               % (i_reg, E, E, E, E, E))
        expect_term(ctx, "C10.1", "error-guard/RegistryTypeIdsInvalid", sp["sp"], t, exp,
                    "every entry is visited in order; Err iff entry.id != position, with (given = entry.id, expected = position); Ok otherwise")
    rt = q.fn1(P, "TypeGenerator::<'a>::resolve_type", "scale_typegen")
    if rt is None:
        ctx.bad("C10.1", "missing-anchor/resolve_type", "", "resolve_type not found")
    else:
        t = show(Norm(rt).term(rt["body"]))
        expect_term(ctx, "C10.1", "error-guard/TypeNotFound", rt["sp"], t,
                    "ok_or(PortableRegistry::resolve(P0.type_registry,P1),TypegenError::TypeNotFound(P1))",
                    "a missing id becomes TypeNotFound(<that id>), never a panic")
    # every registry lookup in the resolver funnel goes through resolve_type (no direct resolve().unwrap())
    a = G.resolver_fn(ctx, "C10.1")
    if a is not None:
        fn, m = a
        direct = [n for n in q.calls_to(fn["body"], "PortableRegistry::resolve")]
        ctx.expect(not direct, "C10.1", "error-guard/resolver-uses-resolve_type", fn["sp"],
                   "the resolver looks ids up only through resolve_type (fallible)", "direct PortableRegistry::resolve calls in the resolver: %d" % len(direct))
    # InvalidFields guard is part of the kind selection (shared with C01.26); DuplicateTypePath guard in C03.1
    with ctx.only(lambda k: k == "kind-selection"):
        G.field_closures(ctx, "C10.1")
    with ctx.only(lambda k: k in ("keep-first/occupied",)):
        G.keep_first_or_error(ctx, "C10.1")
    # a missing id at a nested position (element, member, generic argument) is reported because every arm of the resolver resolves its children
    # through the fallible look-up and hands the error on with `?`; the missing-path errors are two of these arms
    with ctx.only(lambda k: k.startswith("resolver/")):
        G.resolver_arms(ctx, "C10.1")
    # .. and nothing short-cuts the look-up: a reference is rendered as a parent parameter only if its id IS that parameter's concrete id
    G.param_match_predicate(ctx, "C10.1")


def sanity_first(ctx):
    P = ctx.P
    for suf, reg in (("TypeGenerator::<'a>::generate_types_mod", "P0.type_registry"), ("utils::ensure_unique_type_paths", "P0")):
        fn = q.fn1(P, suf, "scale_typegen")
        if fn is None:
            ctx.bad("C10.2", "missing-anchor/" + suf, "", "entry point not found")
            continue
        N = Norm(fn)
        body = fn["body"]["b"] if fn["body"].get("k") == "Block" else None
        first = body["stmts"][0] if body and body["stmts"] else None
        ft = show(N.term(first["e"])) if first is not None and first.get("k") in ("SSemi", "SExpr") else "?"
        ctx.expect(ft == "utils::sanity_pass(%s)?" % reg, "C10.2", "sanity-first/" + cshort(fn["path"]), fn["sp"],
                   "`sanity_pass(registry)?` is the first statement, so it dominates every other use of the registry",
                   "first statement is `%s`" % ft[:200])
