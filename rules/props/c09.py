"""C09 — settings switches are honoured everywhere and are orthogonal."""
import re
from ..core import q
from ..core.q import expect_term, expect_fn, site, peel
from ..core.ir import walk, strip
from ..core.norm import Norm, show, cshort
from ..core import templates as T
from .. import gen_rules as G

META = {
    "explanation": "Literal confinement (K7): the identifier tokens `std`, `alloc`, `doc`, `codec` are searched in every reconstructed quote!/parse_quote! template and "
                   "every string literal of the generator; `std` may be emitted only by AllocCratePath::to_tokens, AllocCratePath::Std constructed only by Default, "
                   "`doc` only by the docs template governed by should_gen_docs, `codec` only by the four attribute templates, each governed by "
                   "insert_codec_attributes. Every template whose tail is a heap-allocated prelude path (vec::Vec, string::String, boxed::Box, borrow::Cow, "
                   "collections::*) must start with an interpolation of type AllocCratePath, and every conversion call threads the caller's alloc path. "
                   "Who-may-read (K6): the read sites of the nine settings fields are compared with the reviewed table, so a switch cannot start governing other tokens.",
    "trusted_base": ["quote expansion shape (every template is reconstructed; failures are engine errors)", "nightly rustc HIR"],
    "assumptions": ["`changes nothing else` is decided as non-interference of the reads (who-may-read + governed templates), not by diffing outputs"],
    "exhaustive": True,
}
GEN = ("scale_typegen",)
ALLOC_TAILS = [":: vec :: Vec", ":: string :: String", ":: boxed :: Box", ":: borrow :: Cow", ":: collections ::", ":: rc :: Rc", ":: sync :: Arc"]

# who-may-read table: field -> functions (short path) allowed to read it
READERS = {
    "types_mod_ident": {"TypeGenerator::types_mod_ident", "TypeGenerator::generate_types_mod", "TypeGenerator::type_path_maybe_with_substitutes"},
    "should_gen_docs": {"TypeGenerator::docs_from_scale_info"},
    "derives": {"TypeGenerator::generate_types_mod", "TypeGenerator::upcast_composite"},
    "substitutes": {"TypeGenerator::generate_types_mod", "TypeGenerator::type_path_maybe_with_substitutes"},
    "decoded_bits_type_path": {"TypeGenerator::resolve_type_path_recurse"},
    "compact_as_type_path": {"TypeGenerator::create_type_ir", "TypeGenerator::upcast_composite"},
    "compact_type_path": {"TypeGenerator::resolve_type_path_recurse"},
    "insert_codec_attributes": {"TypeGenerator::create_type_ir", "TypeGenerator::upcast_composite"},
    "alloc_crate_path": {"TypeGenerator::type_path_maybe_with_substitutes", "scale_typegen::to_tokens", "substitutes::replace_path_params_recursively"},
}
BUILDERS = {"TypeGeneratorSettings::type_mod_name", "TypeGeneratorSettings::substitute", "TypeGeneratorSettings::compact_as_type_path",
            "TypeGeneratorSettings::compact_type_path", "TypeGeneratorSettings::decoded_bits_type_path", "TypeGeneratorSettings::should_gen_docs",
            "TypeGeneratorSettings::insert_codec_attributes", "TypeGeneratorSettings::add_derives_for_all"}


def all_templates(ctx):
    out = []
    for c, b in ctx.P.all_bodies(GEN):
        if "body" not in b or q.derived(b):
            continue
        N = None
        for node, items, kind, parent in T.find_templates(b["body"]):
            N = N or Norm(b)
            out.append((b, node, T.flatten(items, N), kind))      # hoisted sub-templates stand for their tokens
    return out


def check(ctx, floors=True, only_literals=False):
    P = ctx.P
    tpls = all_templates(ctx)
    ctx.count("templates in the generator", len(tpls), 56 if floors else None)
    # C09.1 / .6 / .7 literal confinement
    where = {"std": [], "alloc": [], "doc": [], "codec": []}
    for b, node, items, kind in tpls:
        lits = list(T.flat_lits(items))
        for w in where:
            if w in lits:
                where[w].append((cshort(b["path"]), T.render_pos(items), node["sp"]))
    std_fns = sorted({f for f, _t, _s in where["std"]})
    ctx.expect(std_fns == ["scale_typegen::to_tokens"] and all(t == ":: std" for _f, t, _s in where["std"]) and len(where["std"]) == 1, "C09.1", "literal/std",
               where["std"][0][2] if where["std"] else "", "the identifier `std` is emitted by exactly one template, `::std` in AllocCratePath::to_tokens",
               "`std` appears in templates: %s" % where["std"])
    if where["std"]:
        # make sure that template really is in impl ToTokens for AllocCratePath, arm Std
        fns = [b for b in q.fn_by_suffix(P, "quote::ToTokens>::to_tokens", "scale_typegen") if "AllocCratePath as" in b["path"]]
        if len(fns) == 1:
            t = show(Norm(fns[0]).term(fns[0]["body"]))
            expect_term(ctx, "C09.1", "alloc-path-render", fns[0]["sp"], t,
                        "Extend::extend(P1,if(let AllocCratePath::Custom($)=P0){T[#0](P0@AllocCratePath::Custom.0)}else{T[:: std]()})",
                        "Std renders as `::std`; Custom(p) renders exactly p")
        else:
            ctx.bad("C09.1", "missing-anchor/AllocCratePath::to_tokens", "", "impl ToTokens for AllocCratePath not found")
    ctx.expect(not where["alloc"], "C09.1", "literal/alloc", where["alloc"][0][2] if where["alloc"] else "",
               "no template hard-codes the identifier `alloc`", "`alloc` hard-coded in: %s" % where["alloc"])
    # string literals that could be parsed into tokens
    strs = []
    for c, b in P.all_bodies(GEN):
        if "body" not in b or q.derived(b):
            continue
        for n in walk(b["body"]):
            if n.get("k") == "Lit" and n.get("lk") == "str" and re.search(r"(^|[^A-Za-z_])(std|alloc)\s*::", n.get("v", "")):
                strs.append((cshort(b["path"]), n["v"], n["sp"]))
    ctx.expect(not strs, "C09.1", "string-literal/std-path", strs[0][2] if strs else "", "no string literal spells a `std::` / `alloc::` path",
               "string literals with std/alloc paths: %s" % strs)
    if only_literals:
        for b, node, items, kind in tpls:
            text = T.render_pos(items)
            m = re.match(r"^:: (\w+) ::", text)
            if m and m.group(1) not in ("core",) and not text == ":: std":
                ctx.bad("C09.3", "hard-coded-root/%s/%s" % (cshort(b["path"]), text), node["sp"], "template hard-codes the crate root `::%s`" % m.group(1))
        return
    # C09.2 Std constructor
    ctors = []
    for c in (P.crates["scale_typegen"],):
        for b in c.bodies.values():
            if "body" not in b:
                continue
            for n in walk(b["body"]):
                if n.get("k") == "Path" and n.get("r") == "def" and n.get("path", "").endswith("AllocCratePath::Std") and str(n.get("dk", "")).startswith("Ctor"):
                    ctors.append(b["path"])
    ok = all("AllocCratePath as std::default::Default>::default" in p or "AllocCratePath as std::clone::Clone>::clone" in p
             or "TypeGeneratorSettings as std::default::Default>::default" in p for p in ctors) and len(ctors) >= 1
    ctx.expect(ok, "C09.2", "ctor/AllocCratePath::Std", "", "AllocCratePath::Std is constructed only as a default (its own Default impl, the default settings) and copied by the derived Clone",
               "AllocCratePath::Std constructed in %s" % ctors)
    # C09.2b the switches as the user sets them: every builder writes exactly its own field from its own argument, and the defaults are the
    # documented ones (docs on, codec attributes off, no optional paths, root `types`)
    BUILDER_TERMS = {
        "TypeGeneratorSettings::compact_as_type_path": "mut[P0;compact_as_type_path=Some(P1)]",
        "TypeGeneratorSettings::compact_type_path": "mut[P0;compact_type_path=Some(P1)]",
        "TypeGeneratorSettings::decoded_bits_type_path": "mut[P0;decoded_bits_type_path=Some(P1)]",
        "TypeGeneratorSettings::should_gen_docs": "mut[P0;should_gen_docs=P1]",
        "TypeGeneratorSettings::insert_codec_attributes": "mut[P0;insert_codec_attributes=true]",
        "TypeGeneratorSettings::type_mod_name": "mut[P0;types_mod_ident=syn::parse_str(P1)@v1::Ok.0]",
    }
    for suf, exp in BUILDER_TERMS.items():
        expect_fn(ctx, "C09.2", "settings/" + suf.split("::")[-1], suf, exp, "the builder sets its own field, and only that, from its argument", "scale_typegen")
    dflt = [b for b in q.fn_by_suffix(P, "std::default::Default>::default", "scale_typegen") if "TypeGeneratorSettings as" in b["path"]]
    if len(dflt) == 1:
        expect_term(ctx, "C09.2", "settings/default", dflt[0]["sp"], Norm(dflt[0]).term(dflt[0]["body"]),
                    ["settings::TypeGeneratorSettings{alloc_crate_path:%s,compact_as_type_path:v1::None,compact_type_path:v1::None,decoded_bits_type_path:v1::None,"
                     "derives:DerivesRegistry::new(),insert_codec_attributes:false,should_gen_docs:true,substitutes:TypeSubstitutes::new(),types_mod_ident:%s}" % (a, i)
                     for a in ("Default::default()", "AllocCratePath::Std")          # (the default alloc path IS Std: C09.2 ctor rule)
                     for i in ("T[types]()", "Ident::new('types',Span::call_site())")],
                    "defaults: root `types`, docs on, codec attributes off, no compact / bits paths, empty derives and substitutes, std alloc path")
    else:
        ctx.bad("C09.2", "missing-anchor/Default for TypeGeneratorSettings", "", "default settings not found")
    # C09.3 alloc-rooted templates
    n_alloc = 0
    for b, node, items, kind in tpls:
        text = T.render_pos(items)
        if any(t in text for t in ALLOC_TAILS) or re.search(r":: (vec|string|boxed|borrow|collections) ::", text):
            n_alloc += 1
            first = items[0] if items else None
            ok = first is not None and first[0] == "interp" and peel(first[1].get("ty", "")).endswith("settings::AllocCratePath")
            ctx.expect(ok, "C09.3", "alloc-rooted/%s/%s" % (cshort(b["path"]), text), node["sp"], "rooted at an interpolated AllocCratePath",
                       "template `%s` names a heap-allocated prelude type but does not start with the AllocCratePath interpolation" % text)
    ctx.count("alloc-rooted templates", n_alloc, 3)      # 9 on the reference tree; arms that share a template are one
    # literal root check: no template starts with a literal `:: core ::`-less absolute root other than core
    for b, node, items, kind in tpls:
        text = T.render_pos(items)
        m = re.match(r"^:: (\w+) ::", text)
        if m and m.group(1) not in ("core",) and not text == ":: std":
            ctx.bad("C09.3", "hard-coded-root/%s/%s" % (cshort(b["path"]), text), node["sp"], "template hard-codes the crate root `::%s`" % m.group(1))
    # C09.4 alloc threading
    n_thread = 0
    for c, b in P.all_bodies(GEN):
        if "body" not in b or q.derived(b):
            continue
        N = None
        for n in walk(b["body"]):
            if n.get("k") in ("Call", "MethodCall") and (n.get("callee", "").endswith("::to_syn_type") or n.get("callee", "").endswith("from_type_def_path")):
                N = N or Norm(b)
                args = ([n["recv"]] + n["args"]) if n["k"] == "MethodCall" else n["args"]
                ap = [a for a in args if peel(a.get("ty", "")).endswith("settings::AllocCratePath")]
                if len(ap) != 1:
                    ctx.bad("C09.4", "alloc-thread/%s" % cshort(b["path"]), n["sp"], "conversion call without an AllocCratePath argument")
                    continue
                n_thread += 1
                t = show(N.term(ap[0]))
                own = [i for i, ty in enumerate(b.get("inputs", [])) if peel(ty).endswith("settings::AllocCratePath")]
                ok = (own and t == "P%d" % own[0]) or re.fullmatch(r"P\d+(\.settings)?\.alloc_crate_path", t) is not None
                ctx.expect(ok, "C09.4", "alloc-thread/%s/%s" % (cshort(b["path"]), cshort(n["callee"])), n["sp"],
                           "passes its own alloc-path parameter / the settings' alloc path (`%s`)" % t, "conversion is called with alloc path `%s`" % t)
    ctx.count("alloc-path threading sites", n_thread, 3)      # 8 on the reference tree; calls funnelled through one local closure are one site
    # the tables and conversions themselves, with the strict root / threading expectation
    G.prim_syn_table(ctx, "C09.3", strict_root=True)
    with ctx.only(lambda k: not k.startswith("prelude/missing")):
        G.prelude_table(ctx, "C09.3", strict_root=True)
    with ctx.only(lambda k: k.startswith("syn/")):
        G.syn_arms(ctx, "C09.4", strict_alloc=True)
    with ctx.only(lambda k: k == "fields/box-wrap"):
        G.field_templates(ctx, "C09.4", strict_alloc=True)
    # C09.3b the root module ident: every generated reference is `<root>::<all path segments>` (unconditionally)
    with ctx.only(lambda k: k.startswith("generated-path/")):
        G.generated_path(ctx, "C09.3")
    # .. and the root module itself, and every `use super::<root>` of the nested modules, is that ident as configured (not re-made from its text)
    with ctx.only(lambda k: k in ("define/root-module", "define/submodule-chain")):
        G.definition_predicate(ctx, "C09.3")
    # C09.5 docs
    df = q.fn1(P, "TypeGenerator::<'a>::docs_from_scale_info", "scale_typegen")
    if df is None:
        ctx.bad("C09.5", "missing-anchor/docs_from_scale_info", "", "docs_from_scale_info not found")
    else:
        expect_term(ctx, "C09.5", "docs-template", df["sp"], Norm(df).term(df["body"]),
                    "if(P0.settings.should_gen_docs){T[#( # [ doc = #0 ] )*](P1)}else{T[]()}",
                    "docs on: one `#[doc = line]` per registry doc line, in order; docs off: nothing")
    ctx.expect(sorted({f for f, _t, _s in where["doc"]}) == ["TypeGenerator::docs_from_scale_info"] and len(where["doc"]) == 1, "C09.6", "literal/doc",
               where["doc"][0][2] if where["doc"] else "", "`doc` is emitted only by the docs template", "`doc` appears in: %s" % where["doc"])
    with ctx.only(lambda k: k.endswith("/docs")):
        G.enum_struct_ir(ctx, "C09.5")
    # C09.7 codec literal
    got = sorted({t for _f, t, _s in where["codec"]})
    exp = sorted(["# [ codec ( compact ) ]", "# [ codec ( index = #0 ) ]", "# [ codec ( skip ) ]"])
    ctx.expect(got == exp, "C09.7", "literal/codec", where["codec"][0][2] if where["codec"] else "",
               "`codec` is emitted by exactly the compact / index / skip attribute templates (where each is used: item and field template rules)",
               "`codec` appears in: %s" % sorted((f, t) for f, t, _s in where["codec"]))
    with ctx.only(lambda k: k in ("item/enum", "fields/struct", "fields/enum", "fields/compact-attr")):
        G.item_templates(ctx, "C09.7")
        G.field_templates(ctx, "C09.7")
    # C09.8 who-may-read
    reads = {}
    for c, b in P.all_bodies(GEN):
        if "body" not in b or q.derived(b):
            continue
        for n in q.field_reads(b["body"], "settings::TypeGeneratorSettings"):
            for o in q.owners(ctx, b["path"], GEN):          # a private helper reads on behalf of the functions that call it
                reads.setdefault(n["name"], set()).add(cshort(o))
    fields = [f["name"] for f in q.adt_by_name(P, "TypeGeneratorSettings", "scale_typegen")["variants"][0]["fields"]]
    ctx.count("settings fields", len(fields), 9)
    for f in fields:
        allowed = READERS.get(f)
        got = {r for r in reads.get(f, set()) if r not in BUILDERS and not r.endswith("::default")}
        if allowed is None:
            ctx.bad("C09.8", "readers/" + f, "", "new settings field `%s` without a reviewed reader table (read in %s)" % (f, sorted(got)))
            continue
        extra = sorted(got - allowed)
        ctx.expect(not extra, "C09.8", "readers/" + f, "", "`%s` is read only in %s" % (f, sorted(got)),
                   "settings field `%s` is read in %s, outside its reviewed read sites %s: the switch may now govern other tokens" % (f, extra, sorted(allowed)))
    # what a switch flows into, in the two IR construction sites: the codec switch is copied into the IR's flag and governs nothing else there
    # (derives, kind, parameters are the same whether codec attributes are on or off)
    for suf in ("create_type_ir", "upcast_composite"):
        fns = [b for b in q.fn_by_suffix(P, suf, "scale_typegen")]
        if len(fns) != 1:
            ctx.bad("C09.8", "missing-anchor/" + suf, "", "expected one fn `%s`, found %d" % (suf, len(fns)))
            continue
        fn = fns[0]
        t = show(Norm(fn).term(fn["body"]), 10 ** 6)
        rest = re.sub(r"insert_codec_attributes:P\d+\.settings\.insert_codec_attributes", "", t)
        ctx.expect("settings.insert_codec_attributes" not in rest and "insert_codec_attributes:P" in t, "C09.8", "flows/insert_codec_attributes/" + cshort(fn["path"]), fn["sp"],
                   "in %s the codec switch is only copied into TypeIR.insert_codec_attributes" % suf,
                   "in %s the codec switch also governs something other than the IR's flag: …%s…" % (suf, rest[max(0, rest.find("settings.insert_codec_attributes") - 200):][:400]))
    from . import c08
    with ctx.only(lambda k: k in ("ir-derives", "upcast/derives")):
        c08.check(ctx)          # the derive list of an item: resolved derives (+ CompactAs iff configured and eligible) - no other switch
    # the TypeIR copy of the codec flag
    tir = set()
    for c, b in P.all_bodies(GEN):
        if "body" not in b or q.derived(b):
            continue
        for n in q.field_reads(b["body"], "type_ir::TypeIR", "insert_codec_attributes"):
            for o in q.owners(ctx, b["path"], GEN):          # a private helper reads on behalf of the functions that call it
                tir.add(cshort(o))
    ctx.expect(tir <= {"scale_typegen::to_tokens"}, "C09.8", "readers/TypeIR.insert_codec_attributes", "", "the IR's codec flag is read only by TypeIR::to_tokens",
               "TypeIR.insert_codec_attributes read in %s" % sorted(tir))
