"""C06 — output is a deterministic function of registry and settings-as-sets."""
import re
from ..core import q
from ..core.q import expect_term, site, peel
from ..core.ir import walk, strip
from ..core.norm import Norm, show, cshort, as_for_loop, _root_local
from ..core import templates as T
from .. import k8
from .. import gen_rules as G

META = {
    "explanation": "Hash-order taint (K8): every iteration of a HashMap/HashSet in both library crates is enumerated from the typed program "
                   "(resolved callee + receiver/argument type) and must be discharged mechanically as sorted-before-use, commutative sink, "
                   "disjoint writes or set-compared output; unknown flows of hash containers fail closed. Plus who-may-call (no env/time/fs/"
                   "thread/unseeded randomness), container type facts (K15: HashSet fields of Derives, BTreeMap keyed ModuleIR) and provenance "
                   "of the two sorted lists emitted by Derives::to_tokens (comparator = token-string order). Decides determinism of the "
                   "generator for all hash seeds and registration orders under std container semantics.",
    "trusted_base": ["std HashMap/HashSet are duplicate-free with arbitrary iteration order; BTreeMap iterates in key order; sort_by sorts",
                     "nightly rustc front end"],
    "assumptions": ["DESIGN.md section 4 container semantics; Display of SettingsValidationError is not an observation point of the property"],
    "exhaustive": True,
}

LIBS = ("scale_typegen", "scale_typegen_description")
AMBIENT = ("std::env::", "std::time::", "std::fs::", "std::process::", "std::thread::", "std::net::", "rand::thread_rng", "rand::random",
           "rand::rngs::OsRng", "rand::rngs::ThreadRng", "getrandom::", "std::time::SystemTime", "std::time::Instant",
           "std::hash::RandomState::new", "std::collections::hash_map::RandomState::new", "core::fmt::rt::Argument::new_pointer",
           "std::io::stdin", "rand::rngs::StdRng::from_entropy", "rand::SeedableRng::from_entropy", "rand::SeedableRng::from_os_rng")


def set_compared_loop(s, ctx):
    """(d) consumer check: a `for` over a hash-ordered API whose body writes only into a SettingsValidationError"""
    fl = k8.for_loop_of(s)
    if fl is None:
        # the same consumer written as `error.<list>.extend(api().filter(..).map(..))`: pure adaptors, sink rooted in the error value
        chain, top = k8._consumer_chain(s)
        if all(c in ("Iterator::filter", "Iterator::map", "Iterator::filter_map", "Iterator::cloned", "Iterator::copied") for c, _n in chain):
            N = Norm(s.fn)
            parents = list(s.parents)
            # the adaptor chain bound to a local that is used exactly once (as the argument of the extend): the same consumer
            for st in [p for p in parents if p.get("k") == "SLet" and "init" in p and k8.strip_eq(p["init"], top) and p["pat"].get("k") == "Bind"]:
                from ..core.ir import walk_with_parents
                uses = [(x, ps) for x, ps in walk_with_parents(s.fn["body"]) if x.get("k") == "Path" and x.get("r") == "local" and x.get("id") == st["pat"]["id"]]
                if len(uses) == 1:
                    top, parents = uses[0][0], list(uses[0][1])
            for p in reversed(parents):
                if p.get("k") == "MethodCall" and cshort(p.get("callee", "")) == "Extend::extend" and any(k8.strip_eq(a, top) for a in p["args"]):
                    root = _root_local(p["recv"])
                    rec = N.defs.get(root)
                    ty = peel(rec[2].get("ty", "")) if rec else "?"
                    bad = []
                    if not ty.endswith("error::SettingsValidationError"):
                        bad.append("extend on a local of type %s" % ty)
                    for _c, cn in chain:
                        for a in cn["args"]:
                            a2 = strip(a)
                            if a2.get("k") == "Closure" and k8.loop_writes(a2["body"], None):
                                bad.append("an adaptor closure writes to captured state")
                    return bad
        return None
    m, pat, body, chain = fl
    ws = k8.loop_writes(body, None)
    N = Norm(s.fn)
    bad = []
    for kind, callee, lid, node, inner in ws:
        if inner:
            continue
        rec = N.defs.get(lid)
        ty = peel(rec[2].get("ty", "")) if rec else "?"
        if not ty.endswith("error::SettingsValidationError"):
            bad.append("%s on a local of type %s" % (callee, ty))
    for n in k8.user_exits(body, ("Ret", "Break")):
        bad.append("early exit inside the loop")
    return bad


def check(ctx):
    sorted_locals = hash_order(ctx)
    ambient(ctx)
    sorted_lists(ctx, sorted_locals)
    containers(ctx)
    G.module_template(ctx, "C06.5")
    # the validation walks the derive / attribute maps in hash order and merges what it finds into per-path entries: the RESULT is independent of that
    # order only because an entry is found by its own path and extended as a set (C11's merge instance, evaluated here under C06's id)
    from . import c11 as _c11
    with ctx.only(lambda k: k == "report-iff-unknown"):
        _c11.check(ctx)


def hash_order(ctx, floors=True):
    P = ctx.P
    sites = k8.hash_sites(P, LIBS)
    ctx.count("hash-container flow sites", len(sites), 9 if floors else None)
    iter_sites = [s for s in sites if s.kind in ("iter", "iter-arg")]
    ctx.count("hash iteration sources", len(iter_sites), 9 if floors else None)
    sorted_locals = {}
    api_fns = {}
    for s in sites:
        key = "hash-site/" + s.key
        if s.kind.startswith("unknown"):
            ctx.bad("C06.1", key, site(s.node), "a HashMap/HashSet is handed to `%s`, which is not known to be order-insensitive" % s.callee)
            continue
        a = k8.sorted_before_use(s)
        if a:
            sorted_locals[(s.fn["path"], a["let"]["pat"]["id"])] = a
            ctx.ok("C06.1", key, site(s.node), "(a) sorted before use: collected into `%s`, next statement is %s" % (a["sorted_local"], a["sort"]))
            continue
        b = k8.extend_sink(s)
        if b:
            ctx.ok("C06.1", key, site(s.node), "(b) commutative sink: set/map extend into a %s" % b["into"])
            continue
        c = k8.commutative_loop(s)
        if c is not None:
            if c["ok"]:
                ctx.ok("C06.1", key, site(s.node), "(b) commutative loop: only " + ", ".join(c["updates"]) + "; no loop-carried state, no early exit")
            else:
                ctx.bad("C06.1", key, site(s.node), "hash-ordered loop with order-dependent body: " + "; ".join(c["why"]))
            continue
        # (d1) re-exported as an iterator: the consumers are checked instead
        if returns_hash_iterator(s):
            api_fns.setdefault(s.fn["path"], []).append(s)
            ctx.ok("C06.1", key, site(s.node), "(d) re-exported as a hash-ordered iterator API; every library consumer is checked below")
            continue
        # (d2) Display of the validation error: not an observation point
        if "error::SettingsValidationError as std::fmt::Display" in s.fn["path"]:
            ctx.ok("C06.1", key, site(s.node), "(d) inside Display of SettingsValidationError (not an observation point; error contents are compared as sets)")
            continue
        # (c) the rename loop
        if c is None and s.callee == "HashMap::into_values" and any(t.startswith("&mut scale_info::PortableRegistry") for t in s.fn.get("inputs", [])):
            why = disjoint_rename(s)
            ctx.expect(not why, "C06.1", key, site(s.node), "(c) disjoint writes: hash-ordered path groups; counter declared inside the per-path loop; "
                       "writes only through get_mut(<group member id>)", "rename loop precondition broken: " + "; ".join(why))
            continue
        ctx.bad("C06.1", key, site(s.node), "iteration order of a %s reaches `%s` without being sorted or consumed commutatively" % (s.cty, cshort(s.fn["path"])))
    # consumers of hash-ordered iterator APIs
    for path, ss in api_fns.items():
        callers = [(b, n) for b, n in q.callers_of(P, path, LIBS)]
        for b, n in callers:
            # build a pseudo-site for the call node
            for x, parents in __import__("rules.core.ir", fromlist=["walk_with_parents"]).walk_with_parents(b["body"]):
                if x is n:
                    ps = k8.Site(b, n, "iter", cshort(path), "hash-ordered-api", parents)
                    bad = set_compared_loop(ps, ctx)
                    key = "hash-api-consumer/%s/%s" % (cshort(b["path"]), cshort(path))
                    if bad is None:
                        ctx.bad("C06.1", key, site(n), "hash-ordered iterator `%s` consumed by something other than a checked for-loop" % cshort(path))
                    else:
                        ctx.expect(not bad, "C06.1", key, site(n), "(d) consumer writes only into SettingsValidationError lists (compared as sets by the property)",
                                   "consumer of a hash-ordered iterator writes elsewhere: " + "; ".join(bad))
                    break
    # lists that are filled in hash order and are only meaningful as sets (the entries of SettingsValidationError) must not be post-processed by
    # position: adjacent-only de-duplication, truncation, first / last, removal by index make the CONTENT depend on the arrival order
    POSITIONAL = {"Vec::dedup", "Vec::dedup_by", "Vec::dedup_by_key", "Vec::truncate", "Vec::pop", "Vec::remove", "Vec::swap_remove", "Vec::drain", "Vec::split_off",
                  "Vec::insert", "slice::first", "slice::last", "slice::first_mut", "slice::last_mut", "slice::reverse", "slice::get", "slice::split_first",
                  "slice::split_last", "slice::windows", "slice::chunks", "slice::rotate_left", "slice::rotate_right"}
    n_lists = 0
    for c, b in P.all_bodies(LIBS):
        if "body" not in b or q.derived(b):
            continue
        for n in walk(b["body"]):
            if n.get("k") == "MethodCall":
                rt = peel(n["recv"].get("adj") or n["recv"].get("ty", ""))
                if rt.startswith("std::vec::Vec<(syn::Path, std::collections::HashSet<") or rt.startswith("[(syn::Path, std::collections::HashSet<"):
                    n_lists += 1
                    cs = cshort(n.get("callee", n["name"]))
                    if cs in POSITIONAL:
                        ctx.bad("C06.1", "set-compared-list/%s/%s" % (cshort(b["path"]), cs), site(n),
                                "`%s` works by position on a list whose entries arrive in hash order and which is compared as a set: its content now depends on the arrival order" % cs)
    ctx.counts["operations on set-compared lists"] = n_lists
    return sorted_locals


def returns_hash_iterator(s):
    """the iteration is (an adaptor chain over) the function's result and the function returns `impl Iterator`"""
    if "Opaque" not in s.fn.get("output", ""):
        return False
    chain, top = k8._consumer_chain(s)
    tail = s.fn["body"]
    while isinstance(tail, dict) and tail.get("k") == "Block" and "expr" in tail["b"] and not tail["b"]["stmts"]:
        tail = tail["b"]["expr"]
    # the source may be the receiver or an argument (chain(..)) of the tail chain
    for n in walk(tail, into_closures=False):
        if n is s.node:
            return True
    return False


def disjoint_rename(s):
    why = []
    chain, top = k8._consumer_chain(s)
    names = [c for c, _ in chain]
    if names != ["Iterator::filter", "Iterator::collect"]:
        why.append("unexpected adaptor chain " + str(names))
    # the Vec local and the for loop over it
    let = None
    for p in s.parents:
        if p.get("k") == "SLet" and k8.strip_eq(p.get("init"), top):
            let = p
    if let is None:
        return why + ["groups are not bound by a let"]
    gid = let["pat"].get("id")
    loops = []
    for n in walk(s.fn["body"]):
        fl = as_for_loop(n)
        if fl is not None and strip(fl[1]).get("id") == gid:
            loops.append((n, fl))
    if len(loops) != 1:
        return why + ["expected one loop over the groups, found %d" % len(loops)]
    m, (pat, it, body) = loops[0]
    ws = k8.loop_writes(body, None)
    N = Norm(s.fn)
    for kind, callee, lid, node, inner in ws:
        if inner:
            continue
        if kind == "mutcall" and callee in ("slice::get_mut", "Vec::get_mut"):
            idx = show(N.term(node["args"][0]))
            if "elem(elem(elem(" not in idx:
                why.append("get_mut index does not derive from the innermost group member: " + idx[:120])
            continue
        why.append("write to outer state: %s %s" % (kind, callee))
    for n in k8.user_exits(body, ("Break", "Ret", "Continue")):
        why.append("early exit in the rename loop")
    return why


def ambient(ctx, floors=True):
    n_calls = 0
    hits = []
    GEN_ONLY = ("scale_typegen",)     # the property is about the generator; the example crates' seeded RNG is C12 / C14
    for c, b in ctx.P.all_bodies(GEN_ONLY):
        for call in (b.get("mir") or {}).get("calls", []):
            n_calls += 1
            for name in (call.get("callee", ""), call.get("inst", "")):
                if name.startswith(AMBIENT) or any(name.startswith(a) for a in AMBIENT):
                    hits.append((b["path"], name, call.get("sp")))
        if "body" in b:
            for n in walk(b["body"]):
                if n.get("k") in ("Call", "MethodCall"):
                    n_calls += 1
                    name = n.get("callee", "")
                    if any(name.startswith(a) for a in AMBIENT):
                        hits.append((b["path"], name, n.get("sp")))
    for c in ctx.P.crates.values():
        if c.name in GEN_ONLY:
            for p, b in c.closures_mir.items():
                for call in (b.get("mir") or {}).get("calls", []):
                    n_calls += 1
                    for name in (call.get("callee", ""), call.get("inst", "")):
                        if any(name.startswith(a) for a in AMBIENT):
                            hits.append((p, name, call.get("sp")))
    ctx.count("call sites scanned for ambient nondeterminism", n_calls, 700 if floors else None)
    if hits:
        for p, name, sp in sorted(set(hits)):
            ctx.bad("C06.2", "ambient/%s/%s" % (cshort(p), name), sp, "library code calls `%s`: ambient nondeterminism (environment, time, files, threads or unseeded randomness)" % name)
    else:
        ctx.ok("C06.2", "ambient/none", "", "no call into std::env/time/fs/process/thread/net, unseeded RNGs, explicit RandomState or pointer formatting in %d call sites" % n_calls)


def sorted_lists(ctx, sorted_locals):
    fns = [b for b in q.fn_by_suffix(ctx.P, "quote::ToTokens>::to_tokens", "scale_typegen") if "derives::Derives as" in b["path"]]
    fn = q.anchor_fn(ctx, "C06.3", "impl ToTokens for Derives", fns)
    if fn is None:
        return
    N = Norm(fn)
    reps = 0
    from ..core.norm import subterms as _subterms
    # every repetition of every emitted template, read off the function's term (a loop `for x in xs { x.to_tokens(tokens) }` is the repetition
    # `#( #xs )*`; a private helper doing the collect + sort is looked through)
    found = []
    for x in _subterms(N.term(fn["body"])):
        if x[0] == "tpl" and "#(" in x[2]:
            for k in re.findall(r"#\( #(\d+)", x[2]):
                found.append((x[2], x[3][int(k)]))
    node = fn["body"]
    for text, t in found:
        if True:
            reps += 1
            key = "sorted-list/" + text
            # the iterated value: the set collected into a Vec, then exactly one sort, unconditionally
            effs = t[3] if t[0] == "mut" else []
            if t[0] != "mut" or not re.fullmatch(r"Iterator::collect\(P0\.\w+\)", show(t[2])) or len(effs) != 1 \
                    or effs[0][0] != "mutcall" or effs[0][2] != "" or effs[0][-1] or len(effs[0][3]) != 1:
                ctx.bad("C06.3", key, site(node), "the repetition iterates `%s`, which is not a Vec sorted (once, unconditionally) right after collection from the set"
                        % show(t)[:300])
                continue
            sort, cmp_t = effs[0][1], show(effs[0][3][0])
            ok = (sort in ("slice::sort_by", "slice::sort_unstable_by") and cmp_t == "|2|{Ord::cmp(ToString::to_string(T[#0](C1_0)),ToString::to_string(T[#0](C1_1)))}") or \
                 (sort in ("slice::sort_by_key", "slice::sort_by_cached_key", "slice::sort_unstable_by_key") and cmp_t == "|1|{ToString::to_string(T[#0](C1_0))}")
            ctx.expect(ok, "C06.3", key, site(node),
                       "emitted list is the HashSet collected into a Vec and sorted by the elements' token strings (total order on distinct token strings)",
                       "comparator is not `cmp` of the two elements' token strings: " + cmp_t)
    ctx.count("repetitions in Derives::to_tokens", reps, 2)


def containers(ctx):
    want = {
        ("Derives", "derives"): "std::collections::HashSet<syn::Path",
        ("Derives", "attributes"): "std::collections::HashSet<syn::Attribute",
        ("ModuleIR", "children"): "std::collections::BTreeMap<proc_macro2::Ident, typegen::ir::module_ir::ModuleIR",
        ("ModuleIR", "types"): "std::collections::BTreeMap<scale_info::Path<scale_info::form::PortableForm>, (u32, typegen::ir::type_ir::TypeIR)",
        ("DerivesRegistry", "specific_type_derives"): "std::collections::HashMap<syn::TypePath, typegen::settings::derives::Derives",
        ("DerivesRegistry", "recursive_type_derives"): "std::collections::HashMap<syn::TypePath, typegen::settings::derives::Derives",
        ("TypeSubstitutes", "substitutes"): "std::collections::HashMap<std::vec::Vec<std::string::String",
    }
    for (adt, fld), exp in want.items():
        a = q.adt_by_name(ctx.P, adt, "scale_typegen")
        ty = None
        if a:
            for f in a["variants"][0]["fields"]:
                if f["name"] == fld:
                    ty = f["ty"]
        ctx.expect(ty is not None and ty.startswith(exp), "C06.4", "container/%s.%s" % (adt, fld), a["sp"] if a else "",
                   "%s.%s : %s (duplicate-free accumulator / key-ordered map)" % (adt, fld, exp.split("<")[0].rsplit("::", 1)[-1]),
                   "%s.%s has type %s, expected %s…" % (adt, fld, ty, exp))
