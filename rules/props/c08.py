"""C08 — derives and attributes reach exactly the right types."""
from ..core import q
from ..core.q import expect_term, expect_fn, site, peel, ANY
from ..core.ir import walk, strip, walk_with_parents
from ..core.norm import Norm, show, cshort, as_for_loop, subterms
from .. import gen_rules as G, k10, k13

META = {
    "explanation": "Resolution (K4): derives of a type = clone of the global set extended by the set registered for its full path. Flattening (K4/K12): for every registry "
                   "entry whose path carries recursive derives the reachable id set is collected and every id receives them, merged into the per-path map; a consuming "
                   "look-up (`remove`) keyed by PATH inside the loop over entries is a violation because a path is not a unique key of registry entries (the generator "
                   "itself handles occupied paths). Reachability (K2+K13): the traversal visits type parameters, fields, variant fields, sequence, array, tuple and "
                   "compact children, inserts the root itself, skips only primitives and bit sequences (exception stated by the property), and its visited check is the "
                   "first statement. CompactAs (K5+K1): inserted iff a path is configured and the kind has exactly one field (truth table over the field count for both "
                   "kinds) whose type is one of U8..U128; both construction sites agree. Emission (K4): `#[derive(sorted..)]` iff non-empty, then the sorted attributes. "
                   "Closure as a graph-theoretic statement beyond `no edge kind is forgotten` is NOT decided.",
    "trusted_base": ["nightly rustc HIR", "std set/map semantics"],
    "assumptions": ["bit-order marker types are substituted (property text)"],
    "exhaustive": True,
}
GEN = ("scale_typegen",)
COMPACT_AS_PATH = "P0.settings.compact_as_type_path"
COMPACT_AS_INSERT = ".Derives::insert_derive(T[#0](%s@v1::Some.0))" % COMPACT_AS_PATH


def check(ctx):
    P = ctx.P
    expect_fn(ctx, "C08.1", "resolve", "FlatDerivesRegistry::resolve",
              "if(let v1::Some($)=HashMap::get(P0.specific_type_derives,P1)){mut[P0.default_derives;.Derives::extend_from(HashMap::get(P0.specific_type_derives,P1)@v1::Some.0)]}else{P0.default_derives}",
              "derives(type) = global derives extended by the entry registered for exactly this path (nothing else)", "scale_typegen")
    expect_fn(ctx, "C08.1", "resolve/for-type", "FlatDerivesRegistry::resolve_derives_for_type", "Ok(FlatDerivesRegistry::resolve(P0,utils::syn_type_path(P1)?))",
              "keyed by the type's own full path", "scale_typegen")
    expect_fn(ctx, "C08.1", "resolve/path-key", "utils::syn_type_path", "syn::parse_str(slice::join(P0.path.segments,'::'))", "path key = all segments joined by `::`", "scale_typegen")
    expect_fn(ctx, "C08.1", "extend_from", "Derives::extend_from", "{Extend::extend(P0.derives,P1.derives);Extend::extend(P0.attributes,P1.attributes)}",
              "set union of derives and of attributes, no crossing", "scale_typegen")
    # use in the IR
    fn = G.create_type_ir_fn(ctx, "C08.2")
    if fn is not None:
        N = Norm(fn)
        tirs = list(q.struct_lits(fn["body"], "type_ir::TypeIR"))
        if len(tirs) == 1:
            d = N.term(tirs[0])[3]["derives"]
            ds = show(d, 10 ** 5)
            i_flat = q.param_index(fn, lambda t: t.endswith("FlatDerivesRegistry"))
            i_ty = q.param_index(fn, lambda t: t.startswith("&scale_info::Type<"))
            # the CompactAs insertion may live in a private helper taking `&mut derives`: its effect on the derives is what is compared
            ok = False
            RES = "FlatDerivesRegistry::resolve_derives_for_type(P%d,P%d)?" % (i_flat, i_ty)
            # value = if <struct whose kind could derive it> && <a path is configured> { resolved derives + CompactAs } else { resolved derives }
            if d[0] == "if" and show(d[3]) == RES and show(d[2]) == "mut[%s;%s]" % (RES, COMPACT_AS_INSERT):
                c = show(d[1])
                ok = c.startswith("((let TypeDef::Composite($)=P%d.type_def&&CompositeIRKind::could_derive_as_compact(" % i_ty) \
                    and c.endswith("?))&&let v1::Some($)=%s)" % COMPACT_AS_PATH) and c.count("&&") == 2
            ctx.expect(ok, "C08.2", "ir-derives", site(tirs[0]), "item derives = resolved derives of this type (+ CompactAs iff the struct's kind could derive it; never for enums)",
                       "TypeIR.derives is `%s`" % ds[:400])
        else:
            ctx.bad("C08.2", "missing-anchor/TypeIR-literal", fn["sp"], "TypeIR literal not found in create_type_ir")
    reachability(ctx)
    flatten(ctx)
    compact_as(ctx)
    fns = [b for b in q.fn_by_suffix(P, "quote::ToTokens>::to_tokens", "scale_typegen") if "derives::Derives as" in b["path"]]
    if len(fns) == 1:
        # which sort is applied is C06's concern; here: the WHOLE set is emitted, in the derive / attribute position
        SORT = "mut[Iterator::collect(HashSet::iter(P0.%s));.slice::sort" + ANY + "]"
        exp = ("{if(Not(HashSet::is_empty(P0.derives))){Extend::extend(P1,T[# [ derive ( #( #0 ),* ) ]](%s))}else{'()'};"
               "if(Not(HashSet::is_empty(P0.attributes))){Extend::extend(P1,T[#( #0 )*](%s))}else{'()'}}") % (SORT % "derives", SORT % "attributes")
        expect_term(ctx, "C08.8", "derives-tokens", fns[0]["sp"], Norm(fns[0]).term(fns[0]["body"]), exp,
                    "`#[derive(a, b, ..)]` iff there are derives, followed by every attribute; each list is the whole set")
    else:
        ctx.bad("C08.8", "missing-anchor/Derives::to_tokens", "", "impl ToTokens for Derives not found")


def reachability(ctx):
    P = ctx.P
    hits = [(b, ms) for b, ms in q.fns_with_match_on(P, G.is_typedef, GEN) if any("HashSet<u32" in t for t in b.get("inputs", []))]
    a = q.anchor_fn(ctx, "C08.3", "reachability traversal (match on TypeDef, takes &mut HashSet<u32>)", hits)
    if a is None:
        return
    fn, ms = a
    N = Norm(fn)
    i_id = q.param_index(fn, lambda t: t == "u32")
    i_reg = q.param_index(fn, lambda t: "PortableRegistry" in t)
    i_set = q.param_index(fn, lambda t: "HashSet<u32" in t)
    TY = "Option::expect(PortableRegistry::resolve(P%d,P%d))" % (i_reg, i_id)
    R = cshort(fn["path"])

    def rec(x):
        return "%s(%s,P%d,P%d)" % (R, x, i_reg, i_set)
    U = lambda x: x.replace("'()'", "()")          # the unit value, however it is written
    t = U(show(N.term(fn["body"]), 10 ** 6))
    head = "if(HashSet::insert(P%d,P%d)){" % (i_set, i_id)
    ctx.expect(t.startswith(head) and t.endswith("else{()}"), "C08.3", "reach/guard-and-root", fn["sp"],
               "visited check first; the root id itself is inserted; nothing happens for an id seen before", "traversal starts with: " + t[:160])
    TP = "for(%s.type_params){if(let v1::Some($)=elem(%s.type_params).ty){%s}else{'()'}}" % (TY, TY, rec("elem(%s.type_params).ty@v1::Some.0.id" % TY))
    ctx.expect(U(q.canon_expected(TP)) in t, "C08.3", "reach/type-params", fn["sp"], "every non-skipped type parameter is visited", "type-parameter loop changed")
    arms = {
        "Composite": "TypeDef::Composite($)=>for(%s.type_def@TypeDef::Composite.0.fields){%s}" % (TY, rec("elem(%s.type_def@TypeDef::Composite.0.fields).ty.id" % TY)),
        "Variant": "TypeDef::Variant($)=>for(%s.type_def@TypeDef::Variant.0.variants){for(elem(%s.type_def@TypeDef::Variant.0.variants).fields){%s}}" % (
            TY, TY, rec("elem(elem(%s.type_def@TypeDef::Variant.0.variants).fields).ty.id" % TY)),
        "Sequence": "TypeDef::Sequence($)=>%s" % rec("%s.type_def@TypeDef::Sequence.0.type_param.id" % TY),
        "Array": "TypeDef::Array($)=>%s" % rec("%s.type_def@TypeDef::Array.0.type_param.id" % TY),
        "Tuple": "TypeDef::Tuple($)=>for(%s.type_def@TypeDef::Tuple.0.fields){%s}" % (TY, rec("elem(%s.type_def@TypeDef::Tuple.0.fields).id" % TY)),
        "Compact": "TypeDef::Compact($)=>%s" % rec("%s.type_def@TypeDef::Compact.0.type_param.id" % TY),
        "Primitive": "TypeDef::Primitive(_)=>'()'",
        "BitSequence": "TypeDef::BitSequence(_)=>'()'",
    }
    why = {"Primitive": "primitives mention no type", "BitSequence": "bit sequences are not traversed (exception stated by the property: bit-order markers are substituted)"}
    for v, frag in arms.items():
        ctx.expect(U(q.canon_expected(frag)) in t, "C08.3", "reach/" + v, fn["sp"], why.get(v, "every %s child is visited" % v),
                   "the %s arm of the reachability traversal no longer visits its children as expected (`%s` not found)" % (v, frag[:120]))
    for v in q.variants_of(P, "TypeDef", "scale_info"):
        if v not in arms:
            ctx.bad("C08.3", "reach/" + v, fn["sp"], "TypeDef::%s has no reviewed arm in the reachability traversal" % v)
    edges, table = k10.fnptr_bindings(P, GEN)
    g = k10.call_graph(P, GEN, edges)
    k13.check_sccs(ctx, "C08.3", g, {fn["path"]}, GEN, table)


def flatten(ctx):
    P = ctx.P
    fn = q.fn1(P, "DerivesRegistry::flatten_recursive_derives", "scale_typegen")
    if fn is None:
        ctx.bad("C08.4", "missing-anchor/flatten_recursive_derives", "", "flatten_recursive_derives not found")
        return
    N = Norm(fn)
    i_reg = q.param_index(fn, lambda t: "PortableRegistry" in t)
    REG = "P%d.types" % i_reg
    syms = q.syms_by_type(N, {"std::collections::HashMap<u32, syn::TypePath": "PATHS", "std::collections::HashMap<u32, typegen::settings::derives::Derives": "ADD",
                              "std::collections::HashSet<u32": "IDS"})
    # C08.5 key multiplicity: no consuming look-up on a path-keyed map inside the loop over entries
    for n, parents in walk_with_parents(fn["body"]):
        if n.get("k") == "MethodCall" and n["name"] in ("remove", "remove_entry", "take", "drain", "pop_first", "extract_if"):
            rt = peel(n["recv"].get("adj") or n["recv"].get("ty", ""))
            if rt.startswith("std::collections::HashMap<syn::TypePath"):
                in_entry_loop = any(as_for_loop(p) is not None and show(N.term(as_for_loop(p)[1])) == REG for p in parents)
                ctx.expect(not in_entry_loop, "C08.5", "key-multiplicity/consuming-lookup", site(n),
                           "path-keyed look-ups outside the per-entry loop may consume",
                           "`%s` consumes the recursive derives of a PATH inside the loop over registry entries: several entries can carry that path "
                           "(Foo<Bar>, Foo<Baz>), so only the first same-path root is flattened and the children of the others get nothing" % cshort(n.get("callee", n["name"])))
    # a shortcut in front of the flattening may only skip it when there is nothing to flatten: no recursive registration at all, result = the
    # default and specific derives unchanged (no shortcut at all is fine as well)
    ft = N.term(fn["body"])
    n_short = 0
    while ft[0] == "if" and not any(x[0] == "for" for x in subterms(ft[2])):
        n_short += 1
        got = "%s => %s" % (show(ft[1]), show(ft[2]))
        exp = ("HashMap::is_empty(P0.recursive_type_derives) => Ok(derives::FlatDerivesRegistry{default_derives:P0.default_derives,"
               "specific_type_derives:P0.specific_type_derives})")
        ctx.expect(got == exp, "C08.4", "flatten/shortcut", fn["sp"], "the only way around the flattening: no recursive registrations, derives returned unchanged",
                   "flatten_recursive_derives returns early under `%s`" % got[:300])
        ft = ft[3]
    loops = [(n, as_for_loop(n)) for n in walk(fn["body"], into_closures=False) if as_for_loop(n) is not None]
    # role: the loop over the registry entries that runs the reachability traversal (a call receiving the `&mut HashSet<u32>`)
    entry = [(n, fl) for n, fl in loops if show(N.term(fl[1])) == REG
             and any(x.get("k") in ("Call", "MethodCall") and any("HashSet<u32" in (a.get("adj") or a.get("ty", "")) for a in x.get("args", [])) for x in walk(fl[2]))]
    if len(entry) != 1:
        ctx.bad("C08.4", "missing-anchor/entry-loop", fn["sp"], "expected one loop over registry entries, found %d" % len(entry))
        return
    body_t = show(N.term(entry[0][1][2], syms), 10 ** 5)
    E = "elem(%s)" % REG
    REC = ANY
    RD = "HashMap::get(P0.recursive_type_derives,HashMap::get(PATHS,%s.id)@v1::Some.0)" % E
    exp = ("if((let v1::Some($)=HashMap::get(PATHS,%s.id)&&let v1::Some($)=%s)){"
           "{derives::collect_type_ids(%s.id,P%d,IDS);for(IDS){Derives::extend_from(Entry::or_default(HashMap::entry(ADD,elem(IDS))),%s@v1::Some.0)}}}else{'()'}") % (E, RD, E, i_reg, RD)
    for lid, sym in syms.items():
        if sym == "IDS":
            it = N.local_term(lid)
            declared_in = N.guards_term(N.def_ctx.get(lid, (0, ()))[1] or ())
            ok = it[0] == "mut" and show(it[2]) == "HashSet::new()" and len(it[3]) == 1 and it[3][0][0] == "mutarg" \
                and it[3][0][1] == "derives::collect_type_ids" and [show(a) for a in it[3][0][2]] == ["%s.id" % E, "P%d" % i_reg, "&self"] \
                and not [g for g in it[3][0][3] if show(g).startswith("for(")] and [g for g in declared_in if g.startswith("for(")] == ["for(%s)" % REG]
            ctx.expect(ok, "C08.4", "flatten/reachable-set", fn["sp"],
                       "the id set is fresh per entry and filled by the reachability traversal started at THIS entry's id",
                       "the id set is built as " + show(it)[:600])
    expect_term(ctx, "C08.4", "flatten/per-entry", site(entry[0][0]), body_t, exp,
                "for every entry with a path: if recursive derives are registered for that path, collect the ids reachable from THIS entry and give each of them those derives")
    # which map is consulted with which key
    # (on the term of the loop body, so that the look-up may sit in a combinator closure: every look-up in a path-keyed map is the recursive map
    # asked for this entry's own path)
    import re as _re
    asked = _re.findall(r"HashMap::get\((P0\.\w+),", body_t)
    ok = bool(asked) and all(a == "P0.recursive_type_derives" for a in asked) \
        and body_t.count("HashMap::get(P0.recursive_type_derives,") == body_t.count(RD)
    ctx.expect(ok, "C08.4", "flatten/lookup-key", site(entry[0][0]), "the recursive map is consulted with this entry's own path",
               "look-ups on settings maps in the entry loop: %s; loop body: %s" % (asked, body_t[:400]))
    merge = [(n, fl) for n, fl in loops if show(N.term(fl[1], syms)) == "ADD"]
    if len(merge) != 1:
        ctx.bad("C08.4", "missing-anchor/merge-loop", fn["sp"], "merge loop over the per-id derives not found")
    else:
        mt = show(N.term(merge[0][1][2], syms), 10 ** 5)
        exp_m = ("if(let v1::Some($)=HashMap::remove(PATHS,elem(ADD).0)){Derives::extend_from(Entry::or_default(HashMap::entry(%s,HashMap::remove(PATHS,elem(ADD).0)@v1::Some.0)),elem(ADD).1)}else{'()'}") % ANY
        expect_term(ctx, "C08.4", "flatten/merge", site(merge[0][0]), mt, exp_m, "each id's derives are merged (set union) into the specific map under that id's own path")
    # id -> path table covers every entry with a non-empty path
    path_lids = [lid for lid, sym in syms.items() if sym == "PATHS"]
    seen_tables = set()
    for lid, sym in syms.items():
        if sym == "PATHS":
            pt = N.local_term(lid)
            if pt[0] == "try" and pt[1][0] == "mut":
                pt = pt[1]                   # the table comes from a fallible helper that was put back: `let t = { let mut m = ..; ..; Ok(m) }?`
            init = pt[2] if pt[0] == "mut" else pt
            while init[0] == "mut" or (init[0] == "try" and init[1][0] == "mut"):
                init = init[2] if init[0] == "mut" else init[1]      # the caller's name for the helper's table, mutated further by the caller
            if path_lids.index(lid) > 0 and show(init) in ("HashMap::new()", "Default::default()"):
                continue                     # the helper's local and the caller's name for its result are one table: judged once
            exp_p = ("Iterator::collect(Iterator::map(Iterator::filter(%s,|1|{Not(Path::is_empty(C1_0.ty.path))}),|1|{match(utils::syn_type_path(C1_0.ty)){"
                     "v1::Ok($)=>Ok((C1_0.id,utils::syn_type_path(C1_0.ty)@v1::Ok.0));v1::Err($)=>Err(utils::syn_type_path(C1_0.ty)@v1::Err.0)}}))?") % REG
            if show(init) in ("HashMap::new()", "Default::default()"):
                # the same table filled by a loop: one insert of (entry id, path of THIS entry), for every entry with a non-empty path
                E_ = "elem(%s)" % REG
                ins = [e for e in q.effects(N, syms) if e["lid"] in path_lids and e["kind"] == "mutcall" and cshort(e["node"].get("callee", "")) == "HashMap::insert"]
                ok = len(ins) == 1
                detail = "%d inserts into the id -> path table" % len(ins)
                if ok:
                    args = [show(N.term(a, syms)) for a in ins[0]["node"]["args"]]
                    ok = args == ["%s.id" % E_, "utils::syn_type_path(%s.ty)?" % E_] and ins[0]["guards"] in (["for(%s)" % REG, "!Path::is_empty(%s.ty.path)" % E_], ["for(%s)" % REG, "Not(Path::is_empty(%s.ty.path))" % E_])
                    detail = "insert(%s) under %s" % (", ".join(args), ins[0]["guards"])
                ctx.expect(ok, "C08.4", "flatten/id-path-table", fn["sp"], "id -> path for every entry that has a path", detail)
            else:
                # (the per-entry pair as a match on the conversion's result, or - the same in the result position of the closure - `Ok((id, conv?))`)
                exp_p2 = ("Iterator::collect(Iterator::map(Iterator::filter(%s,|1|{Not(Path::is_empty(C1_0.ty.path))}),|1|{Ok((C1_0.id,utils::syn_type_path(C1_0.ty)?))}))?") % REG
                expect_term(ctx, "C08.4", "flatten/id-path-table", fn["sp"], init, [exp_p, exp_p2], "id -> path for every entry that has a path")
    # result
    lits = list(q.struct_lits(fn["body"], "derives::FlatDerivesRegistry"))
    ok = len(lits) == 2 and all(set(f["name"] for f in l["fields"]) == {"default_derives", "specific_type_derives"} for l in lits)
    ctx.expect(ok, "C08.4", "flatten/result", fn["sp"], "result carries the global derives and the (extended) specific map", "FlatDerivesRegistry literals: %d" % len(lits))


def compact_as(ctx):
    P = ctx.P
    # C08.6: where the CompactAs derive is inserted is read off the two IR construction sites (create_type_ir: C08.2; upcast_composite: C18.1 /
    # `upcast/derives` below): `insert_derive(<configured path>)` iff a path is configured. No other function inserts a derive built from that setting:
    users = sorted({cshort(o) for c, b in P.all_bodies(GEN) if "body" in b and not q.derived(b)
                    for n in q.field_reads(b["body"], "settings::TypeGeneratorSettings", "compact_as_type_path") for o in q.owners(ctx, b["path"], GEN)}
                   - {"TypeGeneratorSettings::compact_as_type_path"})
    ctx.expect(users == ["TypeGenerator::create_type_ir", "TypeGenerator::upcast_composite"], "C08.6", "compact-as/call-sites", "",
               "the configured CompactAs path is used by the two IR construction sites only", "compact_as_type_path is used by %s" % users)
    expect_fn(ctx, "C08.7", "compact-as/eligibility", "CompositeIRKind::could_derive_as_compact",
              "((let CompositeIRKind::Named($)=P0&&((slice::len(P0@CompositeIRKind::Named.0)=='1')&&TypePath::is_uint_up_to_u128(P0@CompositeIRKind::Named.0['0'].1.type_path)))||"
              "(let CompositeIRKind::Unnamed($)=P0&&((slice::len(P0@CompositeIRKind::Unnamed.0)=='1')&&TypePath::is_uint_up_to_u128(P0@CompositeIRKind::Unnamed.0['0'].type_path))))",
              "eligible iff exactly one field (named or unnamed) and that field's type is an unsigned integer up to 128 bits", "scale_typegen")
    fn = q.fn1(P, "TypePath::is_uint_up_to_u128", "scale_typegen")
    if fn is not None:
        t = show(Norm(fn).term(fn["body"]))
        import re
        m = re.fullmatch(r"let TypePathInner::Type\(TypePathType::Primitive\{def:([^}]*)\}\)=P0\.0", t)
        got = sorted(m.group(1).replace("TypeDefPrimitive::", "").split("|")) if m else None
        ctx.expect(got == ["U128", "U16", "U32", "U64", "U8"], "C08.7", "compact-as/uint-set", fn["sp"], "pattern set = {U8, U16, U32, U64, U128} on a concrete primitive path",
                   "is_uint_up_to_u128 matches %s" % (got if got else t[:200]))
    else:
        ctx.bad("C08.7", "missing-anchor/is_uint_up_to_u128", "", "is_uint_up_to_u128 not found")
    with ctx.only(lambda k: k == "upcast/derives"):
        G.upcast(ctx, "C08.6")
