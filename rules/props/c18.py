"""C18 — standalone structs built from a variant's field list are wire-faithful (structural necessary conditions)."""
from .. import gen_rules as G

META = {
    "explanation": "upcast_composite (K4+K5+K12): the standalone struct IR has no type parameters, carries a clone of exactly the global derives/attributes plus CompactAs under the "
                   "same single-unsigned-field guard as ordinary structs, copies the settings' codec flag, and its kind is the given composite itself. Same emission path (K14): "
                   "the struct arm of TypeIR::to_tokens feeds struct_field_tokens, which agrees with enum_field_tokens on every field slot modulo `pub` and the marker, so the "
                   "struct's payload tokens equal the variant's; field paths come from the same composite-kind builder (field IR provenance as in C01). Byte equality of "
                   "encodings is NOT decided.",
    "trusted_base": ["nightly rustc HIR", "quote expansion shape"],
    "assumptions": ["types emitted without generic parameters (property text)"],
    "exhaustive": True,
}


def check(ctx):
    G.upcast(ctx, "C18.1")
    with ctx.only(lambda k: k in ("compact-as/insert", "compact-as/eligibility", "compact-as/uint-set", "compact-as/call-sites")):
        from . import c08
        c08.compact_as(ctx)
    with ctx.only(lambda k: k == "derives-tokens"):
        c08.check(ctx)          # `exactly the global derives and attributes`: each list is emitted whole and under its own guard
    with ctx.only(lambda k: k in ("item/struct", "fields/struct", "fields/enum", "fields/compact-attr", "fields/box-wrap", "item/helper-ident", "item/helper-docs")):
        G.item_templates(ctx, "C18.2")
        G.field_templates(ctx, "C18.2", strict_alloc=False)
    with ctx.only(lambda k: k.startswith("field-closure") or k in ("kind-selection", "cfir-new")):
        G.field_closures(ctx, "C18.3")
    with ctx.only(lambda k: k.startswith("entry/") or k.startswith("nested-call")):
        G.resolver_entry_flags(ctx, "C18.3")
