"""C05 — generic definitions are recovered as generics (structural necessary conditions)."""
from .. import gen_rules as G

META = {
    "explanation": "Parameter numbering (K4): `_i` with i the declared position taken BEFORE skipped parameters are filtered, concrete id and original name copied, "
                   "declared list emitted in that order. Matching predicate (K4): a reference becomes parameter p iff p's concrete id equals the id and (no recorded "
                   "name is given or p's original name equals it), first match in declaration order; nested positions pass no name, field positions pass the field's "
                   "recorded type name. Used-marking: both field closures mark every parameter found by the collector, which visits every child of every path variant; "
                   "the marker names exactly the unused set. One item per definition: path-keyed map with keep-first. Equality with the SOURCE definition and "
                   "`all instantiations yield the same item` are NOT decided (they need scale-info's derive semantics).",
    "trusted_base": ["nightly rustc HIR", "format_ident! lowering decoded from fmt::Arguments bytes"],
    "assumptions": ["coincidence-free instantiations (DESIGN.md section 3)"],
    "exhaustive": True,
}


def check(ctx):
    G.type_params_decl(ctx, "C05.1")
    G.param_match_predicate(ctx, "C05.2")
    G.resolver_entry_flags(ctx, "C05.3")
    with ctx.only(lambda k: k.endswith(".path") and ("Composite" in k or "Variant" in k)):
        G.resolver_arms(ctx, "C05.3")       # a reference to a generic type carries the arguments of THAT type (after Cow unwrapping), in declaration order
    with ctx.only(lambda k: k.startswith("field-closure")):
        G.field_closures(ctx, "C05.3")
    G.parent_params_visitor(ctx, "C05.3")
    G.phantom_data(ctx, "C05.3")
    with ctx.only(lambda k: k in ("type-ir/params-init", "type-ir/type-params")):
        G.enum_struct_ir(ctx, "C05.3")
    with ctx.only(lambda k: k in ("syn/wrapper", "syn/param-tokens", "syn/Path")):
        G.syn_arms(ctx, "C05.3", strict_alloc=False)
    with ctx.only(lambda k: k.startswith("keep-first/vacant") or k.startswith("keep-first/key")):
        G.keep_first_or_error(ctx, "C05.4")
    # "all instantiations of one definition yield one item" needs the shape comparator to recognise them as one shape: a generic parameter position
    # compares equal only through the parameter-index machinery (GenericsList), whose definitions are pinned as leaves
    from . import c03
    with ctx.only(lambda k: k.startswith("ground/")):          # incl. the comparator as a whole: every position is compared with EACH side's own generics
        c03.comparator(ctx, "C05.5")
