"""C07 — type substitution is complete and parameter-correct."""
from ..core import q
from ..core.q import expect_term, expect_fn, site, peel, ANY
from ..core.ir import walk, strip
from ..core.norm import Norm, show, cshort
from .. import gen_rules as G

META = {
    "explanation": "Never defined (K5): the definition loop skips an entry iff the substitute map contains its path segments. Never referenced (K12 who-may-call): the "
                   "generated-path constructor is called only in the else-branch of the substitute look-up, and every Composite/Variant arm of the resolver goes through "
                   "that funnel; definer and referrer use the same map and the same key (K14). Arguments (K4): PassThrough hands back the resolved arguments unchanged and "
                   "in order; Specified maps each source parameter ident to the resolved argument at the ident's own position (enumerate index of the source args, "
                   "`params.get(idx)`, no arithmetic); PassThrough iff neither side declares generics. Replacement (K2/K12): every segment and every angle-bracketed "
                   "type-path argument is visited, the only write is `*ty = replacement` under ident equality, recursion otherwise. The key ignores generic arguments. "
                   "Replacement inside non-path generic arguments (tuples, arrays, references) is outside the property's quantifier and not decided.",
    "trusted_base": ["nightly rustc HIR", "syn::Path / PathArguments structure"],
    "assumptions": ["substitution rules over struct/enum paths present in the registry"],
    "exhaustive": True,
}
GEN = ("scale_typegen",)
LAST0 = "ok_or(Punctuated::last(P0.segments),error::TypeSubstitutionError{kind:TypeSubstitutionErrorKind::EmptySubstitutePath,span:Spanned::span(P0)})?.arguments"
SRC = ("match(%s){PathArguments::None=>Vec::new();"
       "PathArguments::AngleBracketed($)=>Iterator::collect(Iterator::map(Punctuated::iter(%s@PathArguments::AngleBracketed.0.args),"
       "|1|{ok_or(substitutes::get_valid_from_substitution_type(C1_0),error::TypeSubstitutionError{kind:TypeSubstitutionErrorKind::InvalidFromType,span:Spanned::span(C1_0)})}))?;"
       "PathArguments::Parenthesized($)=>return Err(error::TypeSubstitutionError{kind:TypeSubstitutionErrorKind::ExpectedAngleBracketGenerics,span:Spanned::span(%s@PathArguments::Parenthesized.0)})}") % (LAST0, LAST0, LAST0)
TGT = SRC.replace("P0.segments", "P1.segments").replace("Spanned::span(P0)", "Spanned::span(P1)").replace("get_valid_from_substitution_type", "get_valid_to_substitution_type").replace("InvalidFromType", "InvalidToType")


def check(ctx):
    P = ctx.P
    # never defined
    with ctx.only(lambda k: k == "define/predicate-and-placement"):
        G.definition_predicate(ctx, "C07.1")
    # single funnel
    callers = sorted({cshort(b["path"]) for b, n in q.callers_of(P, "TypePathType::from_type_def_path", GEN)})
    ctx.expect(callers == ["TypeGenerator::type_path_maybe_with_substitutes"], "C07.2", "funnel/who-may-call", "",
               "generated paths are built only by type_path_maybe_with_substitutes", "from_type_def_path is called from %s" % callers)
    expect_fn(ctx, "C07.2", "funnel/body", "TypeGenerator::<'a>::type_path_maybe_with_substitutes",
              "if(let v1::Some($)=TypeSubstitutes::for_path_with_params(P0.settings.substitutes,P1.segments,P2,P0.settings)){TypeSubstitutes::for_path_with_params(P0.settings.substitutes,P1.segments,P2,P0.settings)@v1::Some.0}"
              "else{TypePathType::from_type_def_path(P1,P0.settings.types_mod_ident,P2,P0.settings.alloc_crate_path)}",
              "a reference is the substitute when one exists for the path's segments, else the generated path - same arguments either way", "scale_typegen")
    with ctx.only(lambda k: k in ("resolver/Composite.path", "resolver/Variant.path")):
        G.resolver_arms(ctx, "C07.2")
    # same key on both sides
    expect_fn(ctx, "C07.3", "same-key/contains", "TypeSubstitutes::contains", "(Not(slice::is_empty(P1))&&HashMap::contains_key(P0.substitutes,P1))",
              "`contains` = non-empty key present in the substitute map", "scale_typegen")
    # look-up + argument mapping (the private helper that applies the mapping is transparent: nested fn, closure or inline are the same term)
    SUB = "HashMap::get(P0.substitutes,P1)?"
    MAP = SUB + ".param_mapping"
    S_ = MAP + "@TypeParamMapping::Specified.0"
    REPL = "vec+(for(%s){if(let v1::Some($)=slice::get(P2,elem(%s).1)){(elem(%s).0,slice::get(P2,elem(%s).1)@v1::Some.0)}else{'()'}})" % (S_, S_, S_, S_)
    PATH = "if((let TypeParamMapping::Specified($)=%s&&Not(slice::is_empty(%s)))){mut[%s.path;substitutes::replace_path_params_recursively(&self,%s,P3)]}else{%s.path}" % (MAP, REPL, SUB, REPL, SUB)
    expect_fn(ctx, "C07.3", "same-key/lookup", "TypeSubstitutes::for_path_with_params",
              "Some(type_path::TypePathType::Path{params:if(let TypeParamMapping::Specified($)=%s){Vec::new()}else{P2},path:%s})" % (MAP, PATH),
              "look-up in the same map with the same key; the rule's own path and mapping are used. PassThrough: substitute path + the resolved arguments unchanged, in order. "
              "Specified: each (ident, idx) is paired with params.get(idx) (identity, no arithmetic), idents replaced inside the substitute path, no extra arguments appended", "scale_typegen")
    fn = q.fn1(P, "TypeSubstitutes::parse_path_param_mapping", "scale_typegen")
    if fn is None:
        ctx.bad("C07.6", "missing-anchor/parse_path_param_mapping", "", "parse_path_param_mapping not found")
    else:
        t = show(Norm(fn).term(fn["body"]), 10 ** 6)
        SRCs, TGTs = q.sort_match_arms(SRC), q.sort_match_arms(TGT)
        SPEC = "TypeParamMapping::Specified(Iterator::collect(Iterator::map(Iterator::enumerate(%s),|1|{(C1_0.1,C1_0.0)})))" % SRCs
        ctx.expect(("Ok(if((slice::is_empty(%s)&&slice::is_empty(%s))){TypeParamMapping::PassThrough}else{" % (SRCs, TGTs)) in t, "C07.6", "mapping/pass-through-iff-no-generics", fn["sp"],
                   "PassThrough iff neither the source nor the target path declares generic arguments", "pass-through guard changed")
        ctx.expect(t.endswith("}else{%s})" % SPEC), "C07.6", "mapping/index-by-source-position", fn["sp"],
                   "each source parameter ident is mapped to its own position among the SOURCE arguments (enumerate, order-preserving)", "mapping construction changed: " + t[-400:])
    # replacer: one guarded write, one guarded recursion, full traversal (decided on the effects and their guards, not on the spelling of the loops)
    rf = q.fn1(P, "substitutes::replace_path_params_recursively", "scale_typegen")
    if rf is None:
        ctx.bad("C07.7", "missing-anchor/replacer", "", "replace_path_params_recursively not found")
    else:
        N = Norm(rf)
        syms = q.syms_by_type(N, {"syn::Type": "TY"})
        for lid, (origin, pth, pat) in N.defs.items():
            if peel(pat.get("ty", "")) in ("syn::Type", "mut syn::Type") and origin[0] in ("let", "elem", "uninit"):
                syms[lid] = "TY"
        for lid, sym in list(syms.items()):
            lt = N.local_term(lid)
            lt = lt[2] if lt[0] == "mut" else lt
            ctx.expect(show(lt) == "elem(elem(P0.segments).arguments@PathArguments::AngleBracketed.0.args)@GenericArgument::Type.0", "C07.7", "replacer/target", rf["sp"],
                       "the rewritten place is the type argument itself", "the rewritten place is `%s`" % show(lt)[:200])
        effs = q.effects(N, syms)
        SEG = "for(P0.segments)"
        AB = "elem(P0.segments).arguments~PathArguments::AngleBracketed($)"
        ARGS = "for(elem(P0.segments).arguments@PathArguments::AngleBracketed.0.args)"
        GT = "elem(elem(P0.segments).arguments@PathArguments::AngleBracketed.0.args)~GenericArgument::Type($)"
        TP = "TY~Type::Path($)"
        ID = "substitutes::get_ident_from_type_path(TY@Type::Path.0)"
        FIND = "Iterator::find(P1,|1|{(%s@v1::Some.0==C1_0.0)})" % ID
        visit = [SEG, AB, ARGS, GT, TP]
        writes = [e for e in effs if e["kind"] in ("assign", "assignop") and (e["lid"] in syms or e["lid"] == N.param_id(0))]      # writes through the path
        ok = len(writes) == 1
        detail = "writes: %s" % [(e["name"], e["guards"]) for e in writes]
        if ok:
            w = writes[0]
            rhs = show(N.term(w["node"]["r"], syms))
            import re as _re
            # under the traversal guards, the write happens iff the argument is a lone ident AND that ident is a mapped parameter - however
            # the two tests are spelled (nested if-lets, and_then + match, ..): the remaining guards are compared as one condition
            wc = show(q.guard_condition(w["gterms"][len(visit):]) or ("lit", True))
            wc = _re.sub(r"let v1::Some\([$_(),]*\)=", "let v1::Some(..)=", wc)      # which parts of the hit are bound does not matter
            WCOND = "(let v1::Some(..)=%s&&let v1::Some(..)=%s)" % (ID, FIND)
            ok = w["guards"][:len(visit)] == visit and wc == WCOND \
                and q.term_matches(rhs, "TypePath::to_syn_type(%s@v1::Some.0.1,%s)" % (FIND, ANY))
            detail = "the write is `%s` under %s" % (rhs[:200], w["guards"])
        ctx.expect(ok, "C07.7", "replacer/write", rf["sp"],
                   "the only write replaces a type-path argument that is exactly a mapped ident by that ident's resolved type", detail)
        recs = [n for n in walk(rf["body"]) if n.get("k") == "Call" and n.get("callee") == rf["path"]]
        ok = len(recs) == 1
        detail = "%d recursive calls" % len(recs)
        if ok:
            args = [show(N.term(a, syms)) for a in recs[0]["args"]]
            g = [e for e in effs if e["node"] is recs[0]]
            ok = args == ["TY@Type::Path.0.path", "P1", "P2"] and bool(g) and g[0]["guards"][:len(visit)] == visit
            if ok and len(g[0]["guards"]) > len(visit):
                # a further guard is fine iff it is exactly "the argument was not replaced" (the complement of the write's condition)
                from ..core.norm import _not
                rc = q.guard_condition(g[0]["gterms"][len(visit):])
                rcs = _re.sub(r"let v1::Some\([$_(),]*\)=", "let v1::Some(..)=", show(_not(rc)))
                ok = rcs == "(let v1::Some(..)=%s&&let v1::Some(..)=%s)" % (ID, FIND)
            detail = "recursive call with %s under %s" % (args, g[0]["guards"] if g else "?")
        ctx.expect(ok, "C07.7", "replacer/recursion", rf["sp"],
                   "every angle-bracketed type-path argument of every segment is searched recursively with the same mapping", detail)
    expect_fn(ctx, "C07.7", "replacer/ident-shape", "substitutes::get_ident_from_type_path",
              "then((!let v1::Some($)=P0.qself&&(!let v1::Some($)=P0.path.leading_colon&&(Not((Punctuated::len(P0.path.segments)>='2'))&&"
              "PathArguments::is_empty(Punctuated::last(P0.path.segments)?.arguments)))),Punctuated::last(P0.path.segments)?.ident)",
              "a parameter use is a bare single-segment path without qself, leading `::` or own arguments", "scale_typegen")
    # key ignores generics
    expect_fn(ctx, "C07.8", "key/idents-only", "substitutes::path_segments", "Iterator::collect(Iterator::map(Punctuated::iter(P0.segments),|1|{ToString::to_string(C1_0.ident)}))",
              "the key of a rule is the list of segment idents (generic arguments ignored)", "scale_typegen")
    expect_fn(ctx, "C07.8", "key/of-source", "TypeSubstitutes::insert",
              "{HashMap::insert(P0.substitutes,substitutes::path_segments(P1),substitutes::Substitute{param_mapping:TypeSubstitutes::parse_path_param_mapping(P1,P2.0)?,path:P2.0});Ok(())}",
              "rule = (key of the source path, Substitute{target path unchanged, mapping parsed from source/target}); the private per-rule parser is looked through", "scale_typegen")
