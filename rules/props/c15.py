"""C15 — the description formatter only inserts whitespace and is total."""
import re
from ..core import q
from ..core.q import expect_term, site, peel
from ..core.ir import walk, strip, children
from ..core.norm import Norm, show, cshort, pat_repr, _root_local, as_for_loop
from .. import k10, panics

META = {
    "explanation": "Path enumeration over the character dispatch of format_type_description: for every arm of the `match ch` (including the default arm) and every "
                   "path through its if / if-let tree, the sequence of effects on the output string is computed from the typed HIR; the loop character is pushed "
                   "exactly once per path, every other pushed value is a whitespace-only literal, the output string is touched only by push/push_str/the "
                   "indentation helper and returned (K12), every line break is immediately followed by the indentation call (K11), the indentation unit is the "
                   "four-space literal per level, the level changes by exactly one in exactly the branches that open/close a multi-line scope and before the "
                   "line break. Totality: one next() per iteration, bounded look-ahead that never advances, no recursion, panic inventory = i32 overflow checks "
                   "only, no signed->unsigned cast of the level, pop() results matched not unwrapped. With these premises, induction over the loop gives "
                   "`output minus whitespace == input minus whitespace` for ALL input strings and the depth law for properly nested input.",
    "trusted_base": ["String::push / push_str append exactly their argument", "peekmore::peek_amount does not advance the iterator", "nightly rustc HIR/MIR"],
    "assumptions": ["the induction over the loop is on paper (DESIGN.md section 6, C15); its premises are what is checked"],
    "exhaustive": True,
}
CR = "scale_typegen_description"


def is_ws(s):
    return isinstance(s, str) and len(s) > 0 and all(c in " \n\t\r" for c in s)


class Enum:
    def __init__(self, N, out_id, ch_id, level_id, indent_fn, indent_local=None, lits=None):
        self.N, self.out_id, self.ch_id, self.level_id, self.indent_fn = N, out_id, ch_id, level_id, indent_fn
        self.indent_local = indent_local       # the indentation helper written as a closure bound to a local
        self.lits = lits or {}                 # parameters of a helper that the call binds to character literals

    def helper_paths(self, e):
        """the paths of a private helper that works on the output on the loop's behalf (its parameters bound to the call's arguments); None when
        the callee is not such a helper or has a path that cannot be analysed"""
        cal, args = e.get("callee", ""), e["args"]

        def root_of(a):
            r = strip_ref(a)
            return _root_local(r["e"]) if r.get("k") == "AddrOf" else _root_local(strip(a))
        touches_out = any(root_of(a) == self.out_id for a in args)
        helper_fn = self.N.transparent_fn(cal, len(args)) if cal and touches_out else None
        if helper_fn is None:
            return None
        params = helper_fn.get("params", [])
        pids = [p.get("id") if p.get("k") == "Bind" else None for p in params]

        def bound(want):
            hits = [pids[i] for i, a in enumerate(args) if want is not None and root_of(a) == want and pids[i] is not None]
            return hits[0] if len(hits) == 1 else None
        lits = {}
        for p_, a in zip(params, args):
            a2 = strip(a)
            if p_.get("k") == "Bind" and a2.get("k") == "Lit":
                lits[p_["id"]] = a2["v"]
            elif p_.get("k") == "Bind" and a2.get("k") == "Path" and a2.get("id") in self.lits:
                lits[p_["id"]] = self.lits[a2["id"]]
            elif p_.get("k") == "PTuple" and a2.get("k") == "Tup" and len(p_.get("ps", [])) == len(a2.get("es", [])):
                for q_, x in zip(p_["ps"], a2["es"]):
                    if q_.get("k") == "Bind" and strip(x).get("k") == "Lit":
                        lits[q_["id"]] = strip(x)["v"]
        sub = Enum(Norm(helper_fn), bound(self.out_id), bound(self.ch_id), bound(self.level_id), self.indent_fn, None, lits)
        if sub.out_id is None:
            return None
        hb = strip(helper_fn["body"])
        paths = sub.block_paths(hb["b"]) if hb.get("k") == "Block" else sub.stmt_events(hb)
        if not paths or any(x[0] in ("unknown", "exit") for p_ in paths for x in p_):
            return None
        return paths

    def indent_loop(self, e):
        """`for _ in 0..LEVEL { OUT.push_str(LIT) }`: the indentation of a new line, wherever it is written (in the loop, in a helper). The event
        records whether LEVEL is the formatter's level variable and the unit LIT"""
        fl = as_for_loop(e)
        if fl is None or self.out_id is None:
            return None
        pat, it, body = fl
        b = strip(body)
        if b.get("k") == "Block":
            bb = b["b"]
            items = [x["e"] for x in bb["stmts"] if x.get("k") in ("SSemi", "SExpr")] + ([bb["expr"]] if "expr" in bb else [])
            if len(items) != 1 or len(items) != len(bb["stmts"]) + ("expr" in bb):
                return None
            b = strip(items[0])
        if not (b.get("k") == "MethodCall" and cshort(b.get("callee", "")) == "String::push_str" and _root_local(b["recv"]) == self.out_id and len(b["args"]) == 1):
            return None
        lit = strip(b["args"][0])
        lt = self.N.term(lit)
        if lt[0] != "lit":
            return None
        rng = self.N.term(it)
        ok = False
        if rng[0] == "struct" and rng[1].endswith("ops::Range") and set(rng[3]) == {"start", "end"} and show(rng[3]["start"]) == "'0'":
            end = strip(it)
            lv = [n for n in walk(it) if n.get("k") == "Path" and n.get("r") == "local" and n.get("id") == self.level_id]
            ok = self.level_id is not None and len(lv) == 1 and show(rng[3]["end"]) == show(self.N.term(lv[0]))
        unit = lt[1] if isinstance(lt[1], str) else str(lt[1])
        return ("indent", ok, e.get("sp"), unit)

    def stmt_events(self, e):
        """events of one expression (statement position): list of alternative paths"""
        e = strip(e)
        k = e.get("k")
        if k == "Block":
            return self.block_paths(e["b"])
        if k == "Call" and e.get("callee"):
            hp = self.helper_paths(e)
            if hp is not None and len(hp) > 1:
                pre = []
                return [pre + p for p in hp]        # a helper with branches forks the arm like an `if` written in place
        if k == "If":
            cond = strip(e["cond"])
            if cond.get("k") == "Let":
                cdesc = "let %s = %s" % (pat_repr(cond["pat"]), show(self.N.term(cond["init"])))
                pre = self.expr_effects(cond["init"])
            else:
                cdesc = show(self.N.term(cond))
                pre = self.expr_effects(cond)
            th = self.stmt_events(e["then"])
            el = self.stmt_events(e["else"]) if "else" in e else [[]]
            return [pre + [("cond", cdesc, True)] + p for p in th] + [pre + [("cond", cdesc, False)] + p for p in el]
        if k == "Match":
            ind = self.indent_loop(e)
            if ind is not None:
                return [[ind]]
            if as_for_loop(e) is not None or e.get("src") != "Normal":
                return [[("unknown", "loop or desugared match inside an arm", e.get("sp"))]]
            pre = self.expr_effects(e["scrut"])
            out = []
            for a in e["arms"]:
                for p in self.stmt_events(a["body"]):
                    out.append(pre + [("cond", "arm " + pat_repr(a["pat"]), True)] + p)
            return out
        if k == "Loop":
            return [[("unknown", "loop inside an arm", e.get("sp"))]]
        return [self.expr_effects(e)]

    def expr_effects(self, e):
        """effects of a straight-line expression (method calls / assignments), in evaluation order"""
        ev = []
        e = strip(e)
        k = e.get("k")
        if k == "MethodCall":
            root = _root_local(e["recv"])
            name = cshort(e.get("callee", e["name"]))
            for a in e["args"]:
                ev += self.expr_effects(a)
            if root == self.out_id:
                if name in ("String::push", "String::push_str") and len(e["args"]) == 1:
                    a = strip(e["args"][0])
                    if a.get("k") == "Path" and a.get("id") == self.ch_id:
                        ev.append(("push", "CH", e["sp"]))
                    elif a.get("k") == "Path" and a.get("id") in self.lits:
                        ev.append(("push", self.lits[a["id"]], e["sp"]))
                    elif a.get("k") == "Lit":
                        v = a["v"]
                        if isinstance(v, str) and len(v) > 1 and name == "String::push_str" and v.strip(" ") != "":
                            for ch_ in v:            # push_str(" {") appends ' ' and then '{' (runs of the indentation unit stay one piece)
                                ev.append(("push", ch_, e["sp"]))
                        else:
                            ev.append(("push", v, e["sp"]))
                    else:
                        ev.append(("push", None, e["sp"], show(self.N.term(a))))
                else:
                    ev.append(("output-other", name, e["sp"]))
            else:
                ev += self.expr_effects(e["recv"])
                ev.append(("call", name, name + "(" + ",".join(show(self.N.term(a))[:60] for a in e["args"]) + ")"))
            return ev
        if k == "Call":
            cal = e.get("callee", "")
            args = e["args"]
            if not cal and self.indent_local is not None and strip(e.get("f", {})).get("id") == self.indent_local:
                lv = [a for a in args if _root_local(a) == self.level_id]
                to = any(_root_local(strip(a)) == self.out_id or (strip_ref(a).get("k") == "AddrOf" and _root_local(strip_ref(a)["e"]) == self.out_id) for a in args)
                return ev + [("indent", bool(lv) and to, e["sp"])]
            touches_out = any(_root_local(strip(a)) == self.out_id or (strip_ref(a).get("k") == "AddrOf" and _root_local(strip_ref(a)["e"]) == self.out_id) for a in args)
            def root_of(a):
                r = strip_ref(a)
                return _root_local(r["e"]) if r.get("k") == "AddrOf" else _root_local(strip(a))
            helper_fn = self.N.transparent_fn(cal, len(args)) if touches_out else None
            spliced = None
            if helper_fn is not None:
                # a private straight-line helper working on the output on the loop's behalf: its effects are the loop's effects
                pids = [p.get("id") if p.get("k") == "Bind" else None for p in helper_fn.get("params", [])]
                def bound(want):
                    hits = [pids[i] for i, a in enumerate(args) if want is not None and root_of(a) == want]
                    return hits[0] if len(hits) == 1 else None
                sub = Enum(Norm(helper_fn), bound(self.out_id), bound(self.ch_id), bound(self.level_id), self.indent_fn, None)
                if sub.out_id is not None:
                    hb = strip(helper_fn["body"])
                    paths = sub.block_paths(hb["b"]) if hb.get("k") == "Block" else sub.stmt_events(hb)
                    if len(paths) == 1 and not any(x[0] in ("unknown", "exit") for x in paths[0]):
                        spliced = paths[0]
            if spliced is not None:
                ev += spliced
            elif cal == self.indent_fn:
                lv = [a for a in args if _root_local(a) == self.level_id]
                ev.append(("indent", bool(lv) and touches_out, e["sp"]))
            elif touches_out:
                ev.append(("output-other", cshort(cal), e["sp"]))
            else:
                for a in args:
                    ev += self.expr_effects(a)
                ev.append(("call", cshort(cal), show(self.N.term(e))[:80]))
            return ev
        if k == "AssignOp":
            if _root_local(e["l"]) == self.level_id:
                r = strip(e["r"])
                if r.get("k") == "Lit" and str(r.get("v")) == "1" and e["op"] in ("+=", "-="):
                    ev.append(("level", 1 if e["op"] == "+=" else -1, e["sp"]))
                else:
                    ev.append(("level", None, e["sp"]))
            elif _root_local(e["l"]) == self.out_id:
                ev.append(("output-other", "assign-op", e["sp"]))
            return ev
        if k == "Assign":
            if _root_local(e["l"]) == self.out_id:
                ev.append(("output-other", "assignment", e["sp"]))
            elif _root_local(e["l"]) == self.level_id:
                ev.append(("level", None, e["sp"]))
            return ev
        if k in ("Binary",):
            return self.expr_effects(e["l"]) + self.expr_effects(e["r"])
        if k in ("Path", "Lit"):
            if k == "Path" and e.get("id") == self.out_id:
                ev.append(("output-other", "use of output as a value", e.get("sp")))
            return ev
        if k in ("AddrOf", "Unary", "Cast", "Field"):
            return self.expr_effects(e.get("e") or e.get("base"))
        if k in ("Ret", "Break", "Continue"):
            return [("exit", k, e.get("sp"))]
        for c in children(e):
            if isinstance(c, dict) and "ty" in c:
                ev += self.expr_effects(c)
        return ev

    def block_paths(self, b):
        paths = [[]]
        for s in b["stmts"]:
            k = s.get("k")
            if k == "SLet":
                # a `let` that does not touch the output or the level: the events of evaluating its initialiser (an `if` / `match` there forks the path)
                if "els" in s or "init" not in s or any(n.get("k") == "Path" and n.get("r") == "local" and n.get("id") in (self.out_id, self.level_id)
                                                        for n in walk(s["init"])):
                    alts = [[("unknown", "let inside an arm", s.get("sp"))]]
                else:
                    alts = self.stmt_events(s["init"])
            elif k in ("SSemi", "SExpr"):
                alts = self.stmt_events(s["e"])
            else:
                continue
            paths = [p + a for p in paths for a in alts]
        if "expr" in b:
            alts = self.stmt_events(b["expr"])
            paths = [p + a for p in paths for a in alts]
        return paths


def strip_ref(a):
    while isinstance(a, dict) and a.get("k") in ("DropTemps", "Use"):
        a = a["e"]
    return a


def check(ctx):
    P = ctx.P
    fn = q.anchor_fn(ctx, "C15.1", "format_type_description", q.fn_by_suffix(P, "formatting::format_type_description", CR))
    if fn is None:
        return
    N = Norm(fn)
    body = fn["body"]["b"]
    # locals by role
    out_id = level_id = None
    level_ty = None
    INTS = ("i8", "i16", "i32", "i64", "i128", "isize", "u8", "u16", "u32", "u64", "u128", "usize")
    for s in body["stmts"]:
        if s.get("k") == "SLet" and s["pat"].get("k") == "Bind":
            ty = peel(s["pat"].get("ty", ""))
            if ty == "std::string::String" and out_id is None:
                out_id = s["pat"]["id"]
            elif ty in INTS and level_id is None:
                level_id = s["pat"]["id"]
                level_ty = ty
    if level_id is not None:
        ctx.expect(level_ty.startswith("i"), "C15.4", "level-is-signed", fn["sp"],
                   "the indentation level is a signed integer (%s): an unmatched closing brace makes it negative instead of panicking on underflow" % level_ty,
                   "the indentation level has the unsigned type %s: `}` at depth 0 underflows (panic in debug builds, effectively endless indentation in release builds)" % level_ty)
    tail = strip(body.get("expr", {}))
    ctx.expect(out_id is not None and tail.get("id") == out_id, "C15.1", "output/returned", fn["sp"],
               "the String built by the loop is the function's result", "the result is not the output String local")
    if out_id is None or level_id is None:
        ctx.bad("C15.1", "missing-anchor/locals", fn["sp"], "output String / i32 level locals not found")
        return
    # the loop:  while let Some(ch) = it.next() { match ch {..} }
    loops = [n for n in walk(fn["body"], into_closures=False) if n.get("k") == "Loop"]
    main = None
    for lp in loops:
        inner = lp["body"].get("expr") or (lp["body"]["stmts"][0]["e"] if lp["body"]["stmts"] else None)
        inner = strip(inner)
        if inner.get("k") == "If" and strip(inner["cond"]).get("k") == "Let":
            main = (lp, inner)
    if main is None or len(loops) != 1:
        ctx.bad("C15.4", "loop-shape", fn["sp"], "expected exactly one `while let Some(ch) = it.next()` loop, found %d loops" % len(loops))
        return
    lp, iff = main
    let = strip(iff["cond"])
    it_t = show(N.term(let["init"]))
    pat = let["pat"]
    ch_id = None
    if pat.get("k") in ("PTupleStruct", "PStruct") and pat.get("path", "").endswith("Some"):
        sub = pat["ps"][0] if pat["k"] == "PTupleStruct" else pat["fields"][0]["p"]
        if sub.get("k") == "Bind":
            ch_id = sub["id"]
    nexts = [n for n in walk(lp["body"]) if n.get("k") in ("MethodCall", "Call") and cshort(n.get("callee", "")) in ("Iterator::next", "PeekMoreIterator::next")]
    ctx.expect(ch_id is not None and it_t.startswith("Iterator::next(") and len(nexts) == 1 and "else" in iff and show(N.term(iff["else"])) in ("break '()'",), "C15.4", "loop-shape", site(lp),
               "`while let Some(ch) = chars.next()`: exactly one next() per iteration, loop ends when the input is exhausted",
               "loop header is `let %s = %s` with %d next() calls in the body" % (pat_repr(pat), it_t[:80], len(nexts)))
    src = show(N.term(let["init"]))
    ctx.expect("PeekMore::peekmore(str::chars(P0))" in src, "C15.4", "loop-source", site(lp), "the iterator is chars() of the input parameter",
               "iterated source: " + src[:160])
    # the char match
    tb = iff["then"]
    ms = [n for n in walk(tb, into_closures=False) if n.get("k") == "Match" and n.get("src") == "Normal" and strip(n["scrut"]).get("id") == ch_id]
    # a match on the character inside an arm of the match on the character belongs to that arm
    nested = {id(x) for m_ in ms for a_ in m_["arms"] for x in walk(a_["body"], into_closures=False) if any(x is y for y in ms)}
    ms = [m_ for m_ in ms if id(m_) not in nested]
    if len(ms) != 1:
        ctx.bad("C15.3", "missing-anchor/char-match", site(lp), "expected one match on the loop character, found %d" % len(ms))
        return
    m = ms[0]
    # nothing else happens in the loop body besides the match
    tb_b = tb["b"] if tb.get("k") == "Block" else None
    def _is_m(x):
        while isinstance(x, dict) and x is not m and x.get("k") in ("DropTemps", "Use", "Block") and (x.get("k") != "Block" or (not x["b"]["stmts"] and "expr" in x["b"])):
            x = x["b"]["expr"] if x.get("k") == "Block" else x["e"]
        return x is m
    only_match = tb_b is not None and ((len(tb_b["stmts"]) == 0 and _is_m(tb_b.get("expr", {}))) or (len(tb_b["stmts"]) == 1 and "expr" not in tb_b and _is_m(tb_b["stmts"][0]["e"])))
    ctx.expect(only_match, "C15.3", "loop-body-is-match", site(lp), "the loop body consists of the character dispatch only", "extra statements around the character match")
    # role: the function taking (&mut String, <integer level>) that the formatter (or one of its private helpers) calls with the output
    indent_fn = None
    INTS_ = ("i8", "i16", "i32", "i64", "i128", "isize", "u8", "u16", "u32", "u64", "u128", "usize")
    cands = [b for c, b in P.all_bodies((CR,)) if b.get("dk") == "Fn" and "body" in b and len(b.get("inputs", [])) == 2
             and "&mut std::string::String" in b["inputs"] and any(t in INTS_ for t in b["inputs"])]
    called = set()
    stack = [fn["path"]]
    seen_f = set()
    while stack:
        f = stack.pop()
        if f in seen_f:
            continue
        seen_f.add(f)
        fb = P.body(f)
        if fb is None or "body" not in fb:
            continue
        for n in walk(fb["body"]):
            if n.get("k") == "Call" and n.get("callee"):
                called.add(n["callee"])
                if N.transparent_fn(n["callee"]) is not None and n["callee"].startswith(fn["path"].rsplit("::", 1)[0]):
                    stack.append(n["callee"])
    cands = [b for b in cands if b["path"] in called and not any(x.get("k") == "Call" and x.get("callee") in [c2["path"] for c2 in cands if c2 is not b] for x in walk(b["body"]))]
    if len(cands) == 1:
        indent_fn = cands[0]["path"]
    indent_local = None
    indent_closure = None
    if indent_fn is None:
        # the same helper written as `let add_indentation = |output: &mut String, level: i32| {..}`
        for st in body["stmts"]:
            if st.get("k") == "SLet" and st["pat"].get("k") == "Bind" and strip(st.get("init", {})).get("k") == "Closure":
                clo = strip(st["init"])
                tys = [peel(x.get("ty", "")) if not x.get("ty", "").startswith("&mut") else x.get("ty") for x in clo["params"]]
                if len(tys) == 2 and "&mut std::string::String" in tys and any(t in INTS_ for t in tys):
                    indent_local, indent_closure = st["pat"]["id"], clo
    E = Enum(N, out_id, ch_id, level_id, indent_fn, indent_local)
    units = []          # the unit literal of every indentation loop met on a path (in the formatter or in a helper spliced into it)
    n_paths = 0
    arms_seen = []
    for arm in m["arms"]:
        label = pat_repr(arm["pat"])
        arms_seen.append(label)
        paths = E.stmt_events(arm["body"])
        for pi, path in enumerate(paths):
            n_paths += 1
            key = "arm %s/path %d" % (label, pi)
            units += [e[3] for e in path if e[0] == "indent" and len(e) > 3]
            conds = [("" if pol else "!") + c for k, c, pol in [e for e in path if e[0] == "cond"]]
            pushes = [e for e in path if e[0] == "push"]
            if re.fullmatch(r"'.'", label):
                # in the arm for exactly one character, pushing that character as a literal is pushing the loop character
                pushes = [("push", "CH") + tuple(e[2:]) if e[1] == label[1] else e for e in pushes]
            chp = [e for e in pushes if e[1] == "CH"]
            others = [e for e in pushes if e[1] != "CH"]
            bad = []
            if len(chp) != 1:
                bad.append("the loop character is pushed %d times on this path (must be exactly once)" % len(chp))
            for e in others:
                if not is_ws(e[1]):
                    bad.append("non-whitespace value pushed: %r" % (e[1] if e[1] is not None else e[3]))
            for e in path:
                if e[0] == "output-other":
                    bad.append("output is modified by `%s` (only push / push_str / add_indentation are allowed)" % e[1])
                if e[0] == "unknown":
                    bad.append("unanalysable construct: " + e[1])
                if e[0] == "exit":
                    bad.append("early exit from the loop (%s): later input characters would be dropped" % e[1])
            ctx.expect(not bad, "C15.3", key + "/copy-once", site(arm), "conditions %s: loop char pushed once, other pushes whitespace-only %s" % (conds, [e[1] for e in others]),
                       "; ".join(bad) + " [conditions %s]" % conds)
            # newline is immediately followed by indentation with the current level
            seq = [e for e in path if e[0] in ("push", "indent", "level")]
            badnl = []
            for i, e in enumerate(seq):
                if e[0] == "push" and isinstance(e[1], str) and "\n" in e[1]:
                    if e[1] != "\n":
                        badnl.append("line break pushed together with other characters %r" % e[1])
                    if i + 1 >= len(seq) or seq[i + 1][0] != "indent" or not seq[i + 1][1]:
                        badnl.append("line break not immediately followed by add_indentation(&mut output, indent_level)")
                if e[0] == "indent" and (i == 0 or not (seq[i - 1][0] == "push" and seq[i - 1][1] == "\n")):
                    badnl.append("indentation emitted without a preceding line break")
            ctx.expect(not badnl, "C15.5", key + "/newline-indent", site(arm), "every line break is followed by the indentation call", "; ".join(badnl))
            # level pairing
            lv = [e for e in path if e[0] == "level"]
            exp = expected_level(label, path)
            got = [e[1] for e in lv]
            okl = got == exp["delta"]
            why = []
            if not okl:
                why.append("level changes %s, expected %s" % (got, exp["delta"]))
            if lv and exp["delta"]:
                # the change precedes the line break (and the closer for closing brackets)
                idx_l = path.index(lv[0])
                nl = [i for i, e in enumerate(path) if e[0] == "push" and e[1] == "\n"]
                if not nl or idx_l > nl[0]:
                    why.append("level changes after the line break")
                if exp.get("before_ch"):
                    ci = [i for i, e in enumerate(path) if e[0] == "push" and e[1] == "CH"]
                    if ci and (idx_l > ci[0] or (nl and nl[0] > ci[0])):
                        why.append("the closing bracket is written before the dedented line break")
            if label == "'{'":
                pc = [i for i, e in enumerate(path) if e[0] == "push"]
                seqp = ["CH" if e[1] == "{" else e[1] for e in path if e[0] == "push"]        # in this arm the literal '{' is the loop character
                if seqp[:3] != [" ", "CH", "\n"]:
                    why.append("`{` must be written as ' ', '{', line break; found %s" % seqp)
            ctx.expect(not why, "C15.7", key + "/level", site(arm), "indent level changes %s exactly where a multi-line scope opens/closes, before the line break" % exp["delta"],
                       "; ".join(why) + " [conditions %s]" % conds)
    ctx.count("paths through the character dispatch", n_paths, 9)
    ctx.__dict__["_c15_units"] = units
    ctx.count("characters with an arm of their own in the character dispatch (incl. the default)", sum(len(a.split("|")) for a in arms_seen), 8)
    ctx.expect("_" in arms_seen or "$" in arms_seen, "C15.3", "default-arm", site(m), "a default arm copies every other character", "no default arm")
    if units:
        wrong = sorted({u for u in units if u != "    "})
        ctx.expect(not wrong, "C15.6", "indent-unit", fn["sp"],
                   "four spaces per level: every indentation is `for _ in 0..level { output.push_str(\"    \") }` (empty for level <= 0); %d indentation sites on the paths" % len(units),
                   "an indentation loop pushes %s per level instead of four spaces" % ", ".join(repr(u) for u in wrong))
    else:
        helper(ctx, indent_fn, N, indent_closure)
    totality(ctx, fn, level_id)


def expected_level(label, path):
    """which level change a path must perform, from the path's own conditions"""
    conds = [(c, pol) for k, c, pol in [e for e in path if e[0] == "cond"]]
    stack = [e for e in path if e[0] == "call" and e[1] in ("SmallVec::push", "SmallVec::pop")]
    pushed_big = any("Scope::Big" in e[2] for e in stack if e[1] == "SmallVec::push")
    popped_big = any(pol and "Scope::Big" in c and "SmallVec::pop" in c for c, pol in conds)
    chars = set(label.split("|"))           # an arm may serve several characters: `'(' | '<' => ..`
    if chars == {"'{'"}:
        return {"delta": [1]}
    if chars == {"'}'"}:
        return {"delta": [-1], "before_ch": True}
    if chars <= {"'('", "'<'"}:
        return {"delta": [1] if pushed_big else []}
    if chars <= {"')'", "'>'"}:
        return {"delta": [-1] if popped_big else [], "before_ch": True}
    return {"delta": []}


def helper(ctx, indent_fn, N0=None, indent_closure=None):
    P = ctx.P
    fn = P.body(indent_fn) if indent_fn else None
    if fn is None and indent_closure is not None:
        ct = N0.term(indent_closure)
        tys = [x.get("ty", "") for x in indent_closure["params"]]
        i_s = tys.index("&mut std::string::String")
        i_l = 1 - i_s
        exp = "|2|{for(ops::Range{end:C%d_%d,start:'0'}){String::push_str(C%d_%d,'    ')}}" % (ct[1], i_l, ct[1], i_s)
        expect_term(ctx, "C15.6", "indent-unit", indent_closure.get("sp", ""), show(ct), exp,
                    "four spaces per level: `for _ in 0..level { output.push_str(\"    \") }` (empty for level <= 0)")
        return
    if fn is None:
        ctx.bad("C15.6", "missing-anchor/add_indentation", "", "indentation helper not found")
        return
    N = Norm(fn)
    t = show(N.term(fn["body"]))
    i_s = q.param_index(fn, lambda t: t == "&mut std::string::String")
    i_l = q.param_index(fn, lambda t: t in ("i8", "i16", "i32", "i64", "i128", "isize", "u8", "u16", "u32", "u64", "u128", "usize"))
    if i_s is None or i_l is None:
        ctx.bad("C15.6", "indent-unit", fn["sp"], "add_indentation no longer takes (&mut String, <integer level>): %s" % fn.get("inputs"))
        return
    exp = "for(ops::Range{end:P%d,start:'0'}){String::push_str(P%d,'    ')}" % (i_l, i_s)
    expect_term(ctx, "C15.6", "indent-unit", fn["sp"], t, [exp, "{" + exp + "}"], "four spaces per level: `for _ in 0..level { output.push_str(\"    \") }` (empty for level <= 0)")


def totality(ctx, fn, level_id):
    P = ctx.P
    names = [fn["path"]] + [b["path"] for c, b in P.all_bodies((CR,)) if b["path"].startswith(fn["path"] + "::") and b["dk"] == "Fn"]
    edges, table = k10.fnptr_bindings(P, (CR,))
    g = k10.call_graph(P, (CR,), edges)
    reach = k10.reachable(g, [fn["path"]])
    module = fn["path"].rsplit("::", 1)[0] + "::"
    helpers = [r for r in reach if r != fn["path"]]
    ok = all(r.startswith(module) and not (P.body(r) or {}).get("pub") for r in helpers)
    ctx.expect(ok, "C15.4", "reach", fn["sp"], "the formatter calls only private helpers of its own module %s (all of them analysed below)" % sorted(cshort(n) for n in helpers),
               "formatter reaches %s" % sorted(cshort(r) for r in reach))
    names = sorted(set(names) | set(reach))
    rec = [c for c in k10.sccs(g) if any(m in reach for m in c)]
    ctx.expect(not rec, "C15.4", "no-recursion", fn["sp"], "no recursion in the formatter", "recursive cycle: %s" % rec)
    inv = [s for s in k10.inventory(P, (CR,)) if s.owner in reach]
    ctx.count("panic-capable sites in the formatter", len(inv), 6)
    for s in inv:
        if s.kind == "assert" and s.callee.startswith("Overflow:"):
            continue
        ctx.bad("C15.4", "panic-site/" + s.key, s.sp, "the formatter must be total: `%s %s` on `%s` can panic" % (s.kind, s.callee, s.operand[:100]))
    panics.discharge_all(ctx, "C15.4", P, [s for s in inv if s.kind == "assert"], g, {"bindings": table})
    # no signed -> unsigned cast of the level, no unwrap of pop()
    casts = []
    for n in names:
        b = P.body(n)
        for c in (b.get("mir") or {}).get("casts", []):
            if c["from"].startswith("i") and c["to"].startswith("u"):
                casts.append((cshort(n), c["from"], c["to"], c["sp"]))
    ctx.expect(not casts, "C15.4", "no-signed-to-unsigned-cast", fn["sp"], "the signed level is never cast to an unsigned count (a negative level gives an empty range)",
               "signed->unsigned casts: %s" % casts)
    sm = [b for b in (P.body(n) for n in names) if b and b["path"].endswith("scope_is_small")]
    if len(sm) == 1:
        b = sm[0]
        adv = [n for n in walk(b["body"]) if n.get("k") == "MethodCall" and n["name"] in ("next", "nth", "advance_by", "skip", "advance_cursor", "truncate_iterator_to_cursor", "next_if", "next_if_eq")]
        pk = [n for n in walk(b["body"]) if n.get("k") == "MethodCall" and n["name"] == "peek_amount"]
        const_ok = False
        if pk:
            a = strip(pk[0]["args"][0])
            const_ok = a.get("k") == "Lit" or (a.get("k") == "Path" and str(a.get("dk", "")).startswith("Const"))
        ctx.expect(not adv and len(pk) == 1 and const_ok, "C15.4", "bounded-lookahead", b["sp"],
                   "look-ahead is one peek_amount(<constant>) and never advances the iterator", "advancing calls %d, peek_amount calls %d" % (len(adv), len(pk)))
    else:
        ctx.bad("C15.4", "missing-anchor/scope_is_small", fn["sp"], "look-ahead helper not found")


def check_nodefault(ctx):
    """T1: the formatter is compiled in every feature configuration; same rules on the --no-default-features facts"""
    check(ctx)
