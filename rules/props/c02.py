"""C02 — generated module is closed, well-formed Rust (structural necessary conditions)."""
from .. import gen_rules as G
from . import c06

META = {
    "explanation": "Closure of references: the definer's predicate (item emitted iff not substituted, namespace non-empty, struct/enum) and its placement "
                   "(module chain of the namespace, keyed by full path) are checked against the referrer's path rule (root ident + all segments for >= 2 segments, "
                   "prelude table for one, substitute otherwise). Arity: declared parameters and applied arguments filter on the same `has a type` condition, both "
                   "order-preserving. Every declared parameter is used: unused starts as all params, every field of both field closures marks the parameters its path "
                   "mentions, the collector visits every child of all TypePathType variants, the marker is consumed in all struct forms and as __Ignore in enums. "
                   "Unique names: BTreeMap keyed by ident / path. Module template with `use super::root`. Trailing `;` iff unit or tuple struct. "
                   "Whether rustc accepts the module (name resolution in the user's crate, derive bounds, infinitely sized types through Rc/Arc) is NOT decided.",
    "trusted_base": ["nightly rustc HIR", "scale_info::Path::namespace() is all segments but the last"],
    "assumptions": ["necessary structural conditions of `closed and well-formed`; compilation itself is outside static reach here"],
    "exhaustive": True,
}


def check(ctx):
    G.definition_predicate(ctx, "C02.1", require_skip_substituted=False)
    G.generated_path(ctx, "C02.1")
    with ctx.only(lambda k: k in ("type-ir/only-struct-enum", "enum-ir/name", "struct-ir/name", "type-ir/params-init", "type-ir/type-params")):
        G.enum_struct_ir(ctx, "C02.2")
    G.type_params_decl(ctx, "C02.3")
    with ctx.only(lambda k: k.endswith(".path") and ("Composite" in k or "Variant" in k)):
        G.resolver_arms(ctx, "C02.3")
    with ctx.only(lambda k: k.startswith("field-closure")):
        G.field_closures(ctx, "C02.5")
    G.parent_params_visitor(ctx, "C02.6")
    with ctx.only(lambda k: k in ("item/struct", "item/enum", "fields/struct", "fields/enum", "item/helper-ident")):
        G.item_templates(ctx, "C02.7")
        G.field_templates(ctx, "C02.7", strict_alloc=False)
    G.phantom_data(ctx, "C02.8")
    with ctx.only(lambda k: k.startswith("container/ModuleIR")):
        c06.containers(ctx)
    G.module_template(ctx, "C02.10")
    # a reference to a same-path item type-checks against the KEPT definition only if the merge was justified: the shape comparator compares every
    # shape-bearing field and every list length of both operands (shared with C03)
    from . import c03
    with ctx.only(lambda k: k.startswith("comparator-coverage/") or k.startswith("comparator-length/") or k.startswith("comparator-arm/")):
        c03.comparator(ctx, "C02.9")
    G.keep_first_or_error(ctx, "C02.9")
    # the CompactAs derive compiles only on single-field structs: eligibility is part of "the module compiles with codec derives configured"
    from . import c08 as _c08
    with ctx.only(lambda k: k in ("compact-as/eligibility", "compact-as/uint-set")):
        _c08.compact_as(ctx)
    # closure of references: a type is skipped by the definer iff `substitutes.contains(path)`; it is referenced through its substitute iff the
    # look-up answers Some. The two must agree on every key of the map (same key, no extra condition on the look-up), else a reference falls back
    # to a generated path that is never defined
    from . import c07
    with ctx.only(lambda k: k.startswith("same-key/")):
        c07.check(ctx)
