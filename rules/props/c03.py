"""C03 — no silent conflation: differently shaped types never share an item."""
from ..core import q
from ..core.q import expect_term, site, peel, ANY
from ..core.ir import walk, strip, walk_with_parents
from ..core.norm import Norm, show, cshort, as_for_loop
from .. import guards as GD
from .. import gen_rules as G

META = {
    "explanation": "Keep-first-or-error (K12+K5): the per-module type map is written only through a vacant entry; the occupied arm never writes and returns "
                   "DuplicateTypePath exactly when the shape comparator says `different`, with both ids flowing by identity. Comparator field coverage (K3): "
                   "for every shape-bearing field of scale-info's Field / Variant / TypeDef* / Type ADTs (read from the ADT facts, minus docs) the comparator "
                   "must read that field on BOTH operands in a symmetric position (two sides of ==, the two zipped iterators, mirrored arguments of a recursive "
                   "comparison). Grounds for `equal` (K17): every path that answers true is enumerated with its dominating conditions and must carry a ground "
                   "from the closed list {id identity, same generic-parameter index, conjunction of recursive comparisons, memo hit on the PAIR}. Grouping (K4/K5) "
                   "of the de-duplication utility: join the first group whose first member is shape-equal, else open a new group; rename iff more than one group. "
                   "Soundness of the generic-parameter heuristic over all type graphs is NOT decided.",
    "trusted_base": ["scale-info 2.11.5 ADT definitions (field lists come from the crate's own metadata)", "nightly rustc HIR"],
    "assumptions": ["necessary conditions only: a comparator that ignores a shape-bearing field or answers `equal` on an unreviewed ground conflates types"],
    "exhaustive": True,
}
GEN = ("scale_typegen",)
REQUIRED = [
    ("Field", "name"), ("Field", "ty"), ("Field", "type_name"),
    ("Variant", "name"), ("Variant", "index"), ("Variant", "fields"),
    ("TypeDefVariant", "variants"), ("TypeDefComposite", "fields"),
    ("TypeDefArray", "len"), ("TypeDefArray", "type_param"), ("TypeDefSequence", "type_param"), ("TypeDefCompact", "type_param"),
    ("TypeDefTuple", "fields"), ("TypeDefBitSequence", "bit_order_type"), ("TypeDefBitSequence", "bit_store_type"),
    ("Type", "path"), ("Path", "segments"), ("Type", "type_params"), ("Type", "type_def"),
]
EXCLUDED = {("Field", "docs"), ("Variant", "docs"), ("Type", "docs")}


def adt_short(owner):
    o = peel(owner).split("<")[0]
    return o.rsplit("::", 1)[-1]


def descend_pair(N, l, r, covered, depth=0):
    """walk two expressions in lock step; record (ADT, field) read on both"""
    if depth > 12:
        return
    l, r = strip(l), strip(r)
    if l is r:
        return
    kl, kr = l.get("k"), r.get("k")
    if kl == "Field" and kr == "Field" and l["name"] == r["name"]:
        ol, orr = adt_short(l.get("owner", "")), adt_short(r.get("owner", ""))
        if ol == orr:
            covered.add((ol, l["name"]))
        descend_pair(N, l["base"], r["base"], covered, depth + 1)
        return
    if kl == "MethodCall" and kr == "MethodCall" and l.get("callee") == r.get("callee"):
        descend_pair(N, l["recv"], r["recv"], covered, depth + 1)
        return
    if kl == "Path" and kr == "Path" and l.get("r") == "local" and r.get("r") == "local":
        dl, dr = N.defs.get(l["id"]), N.defs.get(r["id"])
        if dl and dr and dl[0][0] == "let" and dr[0][0] == "let" and dl[1] == dr[1]:
            descend_pair(N, dl[0][1], dr[0][1], covered, depth + 1)
        return
    if kl == "Tup" and kr == "Tup" and len(l["es"]) == len(r["es"]):
        for a, b in zip(l["es"], r["es"]):
            descend_pair(N, a, b, covered, depth + 1)
        return
    if kl == "Match" and kr == "Match" and l.get("src", "").startswith("TryDesugar"):
        descend_pair(N, l["scrut"], r["scrut"], covered, depth + 1)
        return
    if kl == "Call" and kr == "Call" and l.get("callee") == r.get("callee") and l.get("callee") and len(l["args"]) == len(r["args"]):
        for a, b in zip(l["args"], r["args"]):
            descend_pair(N, a, b, covered, depth + 1)


def symmetric_pairs(fn):
    """pairs of expression nodes compared / traversed side by side"""
    out = []
    for n in walk(fn["body"]):
        k = n.get("k")
        if k == "Binary" and n["op"] in ("==", "!="):
            out.append((n["l"], n["r"], "cmp"))
        elif k == "MethodCall" and cshort(n.get("callee", "")) in ("Iterator::zip", "Option::zip") and n["args"]:
            out.append((n["recv"], n["args"][0], "zip"))
        elif k in ("Call", "MethodCall"):
            args = ([n["recv"]] + n["args"]) if k == "MethodCall" else n["args"]
            for i in range(len(args)):
                for j in range(i + 1, len(args)):
                    ti, tj = args[i].get("ty"), args[j].get("ty")
                    if ti == tj and ti not in ("bool",):
                        out.append((args[i], args[j], "args"))
        elif k == "Tup" and len(n["es"]) == 2:
            out.append((n["es"][0], n["es"][1], "tuple"))
    return out


def check(ctx):
    G.keep_first_or_error(ctx, "C03.1")
    comparator(ctx, None)
    grouping(ctx)


def comparator(ctx, rid_override):
    # the comparator's generic-parameter machinery is relied on by name: its definitions are pinned as leaves
    ctx.mention("GenericsList::extend(", "GenericsList::index_for_type_id(", "GenericsList::index_for_type_name(", "GenericsList::empty(")
    P = ctx.P
    R2 = rid_override or "C03.2"
    fn = q.anchor_fn(ctx, R2, "shape comparator (fn with a match on (&TypeDef, &TypeDef))",
                     [b for b, ms in q.fns_with_match_on(P, lambda t: t.startswith("(&scale_info::TypeDef<") or t.startswith("(scale_info::TypeDef<"), GEN)])
    if fn is None:
        return
    N = Norm(fn)
    covered = set()
    pairs = symmetric_pairs(fn)
    for l, r, kind in pairs:
        descend_pair(N, l, r, covered)
    ctx.count("symmetric operand pairs in the comparator", len(pairs), 21)
    # calc_params: extend() on both sides with the respective type_params
    ext = [n for n in walk(fn["body"]) if n.get("k") == "MethodCall" and cshort(n.get("callee", "")) == "GenericsList::extend"]
    roots = set()
    for n in ext:
        a = strip(n["args"][0])
        if a.get("k") == "Field" and a["name"] == "type_params":
            roots.add(show(N.term(a["base"])))
    if len(roots) >= 2:
        covered.add(("Type", "type_params"))
    # the TypeDef pair match itself reads type_def on both
    for n in walk(fn["body"]):
        if n.get("k") == "Match" and n.get("src") == "Normal":
            sc = strip(n["scrut"])
            if sc.get("k") == "Tup" and len(sc["es"]) == 2:
                descend_pair(N, sc["es"][0], sc["es"][1], covered)
    # ADT-driven requirement list (everything except docs must be in REQUIRED: a new scale-info field fails closed)
    for adt in ("Field", "Variant", "TypeDefVariant", "TypeDefComposite", "TypeDefArray", "TypeDefSequence", "TypeDefCompact", "TypeDefTuple", "TypeDefBitSequence"):
        a = q.adt_by_name(P, adt, "scale_info")
        if a is None:
            ctx.bad(R2, "missing-anchor/adt/" + adt, "", "scale-info ADT %s not found in the facts" % adt)
            continue
        for f in a["variants"][0]["fields"]:
            if (adt, f["name"]) in EXCLUDED:
                continue
            if (adt, f["name"]) not in REQUIRED:
                ctx.bad(R2, "comparator-coverage/%s.%s" % (adt, f["name"]), a["sp"], "scale-info's %s has a field `%s` that the reviewed requirement list does not know" % (adt, f["name"]))
    for adt, f in REQUIRED:
        ctx.expect((adt, f) in covered, R2, "comparator-coverage/%s.%s" % (adt, f), fn["sp"],
                   "`%s.%s` is read on both operands in a symmetric position" % (adt, f),
                   "the shape comparator never compares `%s.%s` of the two types: two definitions that differ only there are judged equal and share one generated item" % (adt, f))
    # zipped collections must be guarded by an EQUALITY comparison of their lengths (zip silently truncates)
    # (`a.iter().zip(b)` as a method call, or the free function `std::iter::zip(a, b)`: (node, left operand, right operand))
    # The comparator AND every private helper that works on its behalf (q.owners) are searched: a zip moved into a helper `all_pairwise(a, b, f)`
    # needs its length comparison there (or it has none).
    bodies = [(fn, N)]
    for c, hb in P.all_bodies(GEN):
        if "body" in hb and hb["path"] != fn["path"] and not q.derived(hb) and hb.get("dk") in ("Fn", "AssocFn") \
                and fn["path"] in q.owners(ctx, hb["path"], GEN) and q.owners(ctx, hb["path"], GEN) != [hb["path"]]:
            bodies.append((hb, Norm(hb)))
    n_zips = 0
    for hf, HN in bodies:
        zips = [(n, n["recv"], n["args"][0]) for n in walk(hf["body"]) if n.get("k") == "MethodCall" and cshort(n.get("callee", "")) == "Iterator::zip" and n["args"]]
        zips += [(n, n["args"][0], n["args"][1]) for n in walk(hf["body"]) if n.get("k") == "Call" and cshort(n.get("callee", "")) == "iter::zip" and len(n["args"]) == 2]
        lens = []
        for n in walk(hf["body"]):
            if n.get("k") == "Binary" and n["op"] in ("==", "!=", "<", ">", "<=", ">="):
                l, r = strip(n["l"]), strip(n["r"])
                if l.get("k") == "MethodCall" and r.get("k") == "MethodCall" and l["name"] == "len" and r["name"] == "len":
                    lens.append((show(HN.term(l["recv"])), show(HN.term(r["recv"])), n["op"], n))
        n_zips += len(zips)
        for z, za, zb in zips:
            a, b = show(HN.term(za)), show(HN.term(zb))
            ops = [op for x, y, op, _n in lens if {x, y} == {a, b}]
            key = "comparator-length/" + (a.split("@")[-1].split(".")[-1] if "@" in a or "." in a else a)[:40] + ("" if hf is fn else "@" + cshort(hf["path"]))
            ctx.expect(bool(ops) and all(op in ("==", "!=") for op in ops), R2, key, site(z),
                       "the two zipped lists are compared for equal length (%s)" % ops,
                       "the comparator%s zips `%s` with `%s` but compares their lengths with %s: a list that is a strict prefix of the other is judged equal "
                       "(zip truncates), and the judgement becomes asymmetric" % ("" if hf is fn else " (in its helper `%s`)" % cshort(hf["path"]), a[-60:], b[-60:], ops or "nothing"))
    ctx.count("zipped collection pairs in the comparator", n_zips, 1)
    # off-diagonal and primitive arms
    ms = q.matches_on(fn["body"], lambda t: t.startswith("(&scale_info::TypeDef<"))
    if len(ms) == 1:
        m = ms[0]
        variants = q.variants_of(P, "TypeDef", "scale_info")
        diag = {}
        wild = None
        for arm in m["arms"]:
            pr = show(("sym", __import__("rules.core.norm", fromlist=["pat_repr"]).pat_repr(arm["pat"])))
            if pr == "_":
                wild = arm
            for v in variants:
                if pr.replace("$", "").replace("_", "") == "(TypeDef::%s(),TypeDef::%s())" % (v, v):
                    diag[v] = arm
        for v in variants:
            ctx.expect(v in diag, R2, "comparator-arm/" + v, site(m), "diagonal arm (%s, %s) present" % (v, v), "no arm comparing two %s definitions" % v)
        ctx.expect(wild is not None and show(N.term(wild["body"])) == "false", R2, "comparator-arm/off-diagonal", site(m),
                   "different TypeDef kinds are never equal", "off-diagonal arm is `%s`" % (show(N.term(wild["body"])) if wild else "missing"))
        if "Primitive" in diag:
            arm = diag["Primitive"]
            t = show(N.term(arm["body"], q.arm_syms(arm["pat"])))
            ctx.expect(t in ("(A_00==A_10)", "(A_10==A_00)"), R2, "comparator-arm/Primitive-eq", site(arm), "primitives are compared for equality", "primitive arm is `%s`" % t)
    else:
        ctx.bad(R2, "missing-anchor/typedef-pair-match", fn["sp"], "expected one match on (&TypeDef, &TypeDef), found %d" % len(ms))
    grounds(ctx, fn, N, rid_override or "C03.3")


def grounds(ctx, fn, N, R3="C03.3"):
    """K17: every way of answering `true`"""
    sites = []
    for n, parents in walk_with_parents(fn["body"]):
        if n.get("k") == "Ret" and "e" in n and strip(n["e"]).get("k") == "Lit" and strip(n["e"]).get("v") is True:
            sites.append(n)
        elif n.get("k") == "Lit" and n.get("v") is True and n.get("x") is None:
            par = parents[-1] if parents else {}
            if par.get("k") != "Ret":
                # a bare `true` value (arm body / tail expression)
                if par.get("k") is None and ("body" in par or "stmts" in par):
                    sites.append(n)
    ctx.count("ways of answering `true` without recursion", len(sites), 3)
    ids = [i for i, t in enumerate(fn["inputs"]) if t == "u32"]
    gls = [i for i, t in enumerate(fn["inputs"]) if t.endswith("GenericsList")]
    vis = [i for i, t in enumerate(fn["inputs"]) if "HashSet<" in t]
    if len(ids) != 2 or len(gls) != 2:
        ctx.bad(R3, "missing-anchor/comparator-signature", fn["sp"], "comparator signature changed: %s" % fn["inputs"])
        return
    ia, ib = ids
    ga, gb = gls
    A, B = "P%d" % ia, "P%d" % ib
    for n in sites:
        conds = GD.dominating(N, fn["body"], n)
        cs = [c for c in GD.cond_strings(conds)]
        last = cs[-1] if cs else ""
        joined = " && ".join(cs)
        if last.replace(" ", "") in ("(%s==%s)" % (A, B), "(%s==%s)" % (B, A)):
            ctx.ok(R3, "ground/id-identity", site(n), "true because both ids are the same id")
        elif "index_for_type_id(P%d,%s)@v1::Some.0==GenericsList::index_for_type_id(P%d,%s)@v1::Some.0" % (ga, A, gb, B) in last:
            ctx.ok(R3, "ground/same-generic-index", site(n), "true because both ids are explained by the same generic-parameter index")
        elif len(vis) == 1 and "HashSet<(u32, u32)" in fn["inputs"][vis[0]] and last == "!HashSet::insert(P%d,(%s,%s))" % (vis[0], A, B):
            ctx.ok(R3, "ground/pair-memo", site(n), "true because this very pair (a, b) is already being compared further up (memo hit on the pair)")
        elif sum(1 for c in cs[-2:] if c.startswith("!HashSet::insert(") or c.startswith("HashSet::contains(")) == 2:
            ctx.bad(R3, "ground/unpaired-visited-sets", site(n),
                    "answers `equal` when id a was seen before on the left AND id b was seen before on the right - on two independent visited sets, not on the pair (a,b): "
                    "X{a:P,b:Q,c:P} vs X'{a:P',b:Q',c:Q'} are judged equal (condition: %s)" % " && ".join(cs[-2:]))
        else:
            ctx.bad(R3, "ground/unreviewed/" + last[:120], site(n), "new shortcut to `equal` under the condition `%s`" % joined[-300:])
    # the type-name ground inside compare_fields
    t = show(N.term(fn["body"]), 10 ** 6)
    # fields_equal zips the two field lists (C1_0 with generics C1_1, C1_2 with generics C1_3): the left field's name is looked up in the
    # left list, the right field's name in the right list
    ZA = "GenericsList::index_for_type_name(C1_1,C2_0.0.type_name@v1::Some.0)"
    ZB = "GenericsList::index_for_type_name(C1_3,C2_0.1.type_name@v1::Some.0)"
    tn = "((let v1::Some($)=%s&&let v1::Some($)=%s)&&(%s@v1::Some.0==%s@v1::Some.0))" % (ZA, ZB, ZA, ZB)
    ctx.expect(tn in t, R3, "ground/same-generic-name-index", fn["sp"], "field types named by a generic parameter are equal iff both names resolve to the same parameter index",
               "the type-name ground of compare_fields changed")
    # .. and that ground is only used when BOTH fields have a recorded type name and BOTH field types are generic parameters of their own
    # type (by id); in every other case the two field types are compared structurally
    IA = "GenericsList::index_for_type_id(C1_1,C2_0.0.ty.id)"
    IB = "GenericsList::index_for_type_id(C1_3,C2_0.1.ty.id)"
    field = ("((C2_0.0.name==C2_0.1.name)&&if(((let v1::Some($)=C2_0.0.type_name&&let v1::Some($)=C2_0.1.type_name)&&(let v1::Some($)=%s&&let v1::Some($)=%s))){%s}"
             "else{utils::types_equal_inner(C2_0.0.ty.id,C1_1,C2_0.1.ty.id,C1_3,P4,P5)})") % (IA, IB, tn)
    # the comparator as a whole: the pieces above say what must be compared; the connectives between them (every `==`, `&&`, `all`) and the
    # polarity of every test are pinned by the reviewed term of the whole function
    from .. import desc_rules as _DR
    expect_term(ctx, R3, "ground/comparator-term", fn["sp"], t, _DR.golden("gen/types_equal_inner"),
                "equal iff same id, or the pair is already being compared, or both are the same generic parameter, or: same path and the same kind of "
                "definition with every shape-bearing part equal (lengths, names, indices, element / member / field types with each side's own generics)")
    ctx.expect(field in t, R3, "ground/field-comparison", fn["sp"],
               "two fields are equal iff their names are equal and - when both carry a type name and both types are generic parameters of their own type - the "
               "names resolve to the same parameter index, otherwise iff the field types are equal structurally (each side with its own generics)",
               "the per-field comparison of compare_fields changed (guard of the type-name ground, or the structural fallback)")


def grouping(ctx):
    P = ctx.P
    fn = q.fn1(P, "utils::ensure_unique_type_paths", "scale_typegen")
    if fn is None:
        ctx.bad("C03.4", "missing-anchor/ensure_unique_type_paths", "", "ensure_unique_type_paths not found")
        return
    N = Norm(fn)
    loops = [n for n in walk(fn["body"], into_closures=False) if as_for_loop(n) is not None and show(N.term(as_for_loop(n)[1])) == "Iterator::enumerate(P0.types)"]
    if len(loops) != 1:
        ctx.bad("C03.4", "missing-anchor/grouping-loop", fn["sp"], "expected one loop over the enumerated registry entries, found %d" % len(loops))
        return
    pat, it, body = as_for_loop(loops[0])
    # symbols: the groups-of-this-path local and the flag
    syms = {}
    for n in walk(body):
        if n.get("k") == "SLet" and n["pat"].get("k") == "Bind":
            ty = peel(n["pat"].get("ty", ""))
            if ty.startswith("std::vec::Vec<std::vec::Vec<u32"):
                syms[n["pat"]["id"]] = "GROUPS"
    for lid, (origin, path, p) in N.defs.items():
        if peel(p.get("ty", "")).startswith("std::collections::HashMap<&[std::string::String], std::vec::Vec<std::vec::Vec<u32"):
            syms[lid] = "MAP"
    t = show(N.term(body, syms), 10 ** 5)
    E = "elem(Iterator::enumerate(P0.types))"
    IDX = "(%s.0 as u32)" % E
    TE = "utils::types_equal(%s,elem(GROUPS)['0'],P0)" % IDX
    exp = ("if(slice::is_empty(Path::namespace(%s.1.ty.path))){'()'}else{"
           "search(GROUPS,%s,Vec::push(elem(GROUPS),%s),Vec::push(GROUPS,vec!(%s)))}") % (E, TE, IDX, IDX)
    expect_term(ctx, "C03.4", "grouping", site(loops[0]), t, exp,
                "prelude (empty namespace) skipped; a type joins the FIRST group whose first member is shape-equal to it, otherwise it opens a new group")
    gl = N.term(loops[0], syms)
    groups_init = None
    for n in walk(body):
        if n.get("k") == "SLet" and n["pat"].get("k") == "Bind" and syms.get(n["pat"]["id"]) == "GROUPS":
            groups_init = show(N.term(n["init"], syms))
    expect_term(ctx, "C03.4", "grouping-key", site(loops[0]), groups_init or "?", "Entry::or_default(HashMap::entry(MAP,%s.1.ty.path.segments))" % E,
                "groups are keyed by the full path (all segments)")
