"""C14 — Rust value examples conform to the generated type definitions (structural necessary conditions)."""
import re
from ..core import q
from ..core.q import expect_term, expect_fn, site, ANY, arms_by_variant, arm_syms
from ..core.ir import walk, strip
from ..core.norm import Norm, show, cshort
from ..core import templates as T
from .. import desc_rules as DR, k10, k13

META = {
    "explanation": "Typed literals (K1): every integer arm of the primitive example interpolates a local generated as exactly the arm's integer type (quote renders it with its "
                   "suffix). Marker agreement (K14, sibling implementations in two crates): the marker field name emitted for named structs equals the name the generator's "
                   "struct template uses; the needs-marker flag is consumed in every non-error arm (unit, tuple, named); its value comes from the generator's own IR "
                   "construction; variants never get one. Tuple / array / vector arity (K4+K14): tuples use the separator-inside-repetition form so one-element tuples stay "
                   "tuples; arrays repeat `len` times or use `[x; len]` with len from the definition; vectors have two elements. Path without generics via the generator's "
                   "resolve_type_path of the SAME id. Box agreement (K14): every field emitter that reads the recorded type name's Box marker - generator (2), description (1) "
                   "versus Rust example (0): a KNOWN FINDING. Seed determinism and recursion guard as in C12. That the expression type-checks against the generated module is NOT decided.",
    "trusted_base": ["quote's ToTokens for integers emits suffixed literals", "reviewed golden terms (rules/golden.json) for ty_example / fields_example", "nightly rustc HIR"],
    "assumptions": ["registries without bit sequences and 256-bit integers; Compact(..) around explicitly Compact-typed fields is accepted (property text)"],
    "exhaustive": True,
}
D = DR.D
M = "rust_value"


def _mask_copy_selector(t):
    """the condition that selects `[x; len]` over `[x, x, ..]` (the Copy heuristic) is left open: both forms have the definition's length"""
    return re.sub(r"(TypeDef::Array\(\$\)=>Ok\(if\().*?(\)\{T\[\[ #0 ; #1 \]\])", r"\1<selector>\2", t, count=1, flags=re.S)


def check(ctx):
    P = ctx.P
    # C14.1 typed literals
    pf = q.fn1(P, "rust_value::primitive_example", D)
    if pf is None:
        ctx.bad("C14.1", "missing-anchor/primitive_example", "", "primitive_example not found")
    else:
        Np = Norm(pf)
        pm = q.matches_on(pf["body"], lambda t: t == "scale_info::TypeDefPrimitive")
        parms = arms_by_variant(pm[0]) if pm else {}
        for v in q.variants_of(P, "TypeDefPrimitive", "scale_info"):
            arm = parms.get(v)
            if arm is None:
                ctx.bad("C14.1", "literal/" + v, pf["sp"], "no explicit arm for TypeDefPrimitive::%s" % v)
                continue
            t = show(Np.term(arm["body"]))
            if v in DR.INTS:
                e = "T[#0](Rng::gen<%s>(P1))" % DR.INTS[v]
                w = "%s -> a `%s` value interpolated as a suffixed literal" % (v, DR.INTS[v])
            elif v == "Bool":
                e, w = "T[#0](Rng::gen<bool>(P1))", "bool literal"
            elif v == "Char":
                e, w = "T[#0](Option::unwrap(SliceRandom::choose(%s,P1)))" % ANY, "char literal from a literal array"
            elif v == "Str":
                e, w = "T[#0 . into ()](Option::unwrap(SliceRandom::choose(%s,P1)))" % ANY, "string literal converted with .into()"
            else:
                e, w = "T[[ #( #0 ),* ]](Rng::gen<[u8; 32_usize]>(P1))", "256-bit integers as 32 byte literals (outside the property's quantifier)"
            expect_term(ctx, "C14.1", "literal/" + v, arm, t, e, w)
    # C14.2 marker name agreement with the generator
    gen_names = set()
    for c_, sf in P.all_bodies(("scale_typegen",)):
        if "body" not in sf or "::type_ir::" not in sf["path"] or q.derived(sf):
            continue            # the generator's token emitters (whichever function of the IR module holds the marker template)
        for node, items, kind, parent in T.find_templates(sf["body"]):
            text = T.render_pos(items)
            m = re.fullmatch(r"#\w+ pub (\w+) : #\w+", text)
            if m and not any(it[0] == "interp" and i == 2 for i, it in enumerate(items)):
                gen_names.add(m.group(1))
    fe = q.fn1(P, "rust_value::fields_example", D)
    ex_names = set()
    if fe is not None:
        Nfe = Norm(fe)
        for node, items, kind, parent in T.find_templates(fe["body"]):
            text = T.render_pos(T.flatten(items, Nfe))      # a hoisted `quote!(::core::marker::PhantomData)` stands for its tokens
            m = re.fullmatch(r"(\w+) : :: core :: marker :: PhantomData", text)
            if m:
                ex_names.add(m.group(1))
    ctx.expect(len(gen_names) == 1 and gen_names == ex_names, "C14.2", "marker-name-agreement", fe["sp"] if fe else "",
               "the marker field is called `%s` in the generated struct and in the example" % (sorted(gen_names)[0] if gen_names else "?"),
               "generator names the marker field %s, the Rust example uses %s" % (sorted(gen_names), sorted(ex_names)))
    # C14.3 marker consumed in every non-error arm
    if fe is not None:
        Nf = Norm(fe)
        i_flag = q.param_index(fe, lambda t: t == "bool")
        ms = [m for m in q.matches_on(fe["body"], lambda t: t == "(bool, bool)")]
        if len(ms) == 1:
            for arm in ms[0]["arms"]:
                pr = show(("sym", __import__("rules.core.norm", fromlist=["pat_repr"]).pat_repr(arm["pat"])))
                t = show(Nf.term(arm["body"]))
                if pr == "(false,false)":
                    ctx.expect(t.startswith("Err("), "C14.3", "marker-consumed/" + pr, site(arm), "mixed fields are an error", "mixed arm: " + t[:100])
                else:
                    ctx.expect("if(P%d)" % i_flag in t or "then(P%d," % i_flag in t, "C14.3", "marker-consumed/" + pr, site(arm), "the needs-marker flag decides whether the marker is emitted in this form",
                               "the %s form ignores the unused-parameter marker flag: a struct of this form with unused type parameters gets no PhantomData" % pr)
        else:
            # the forms are not chosen by a match on the two flags: the same is read off the function's term - every template that is a result
            # of the function (not one built per field inside a closure) either stands under the flag or has a piece that does
            from rules.core.norm import subterms as _subterms
            FLAG = ("param", i_flag)
            results = []

            def visit(x, under):
                if x[0] == "closure":
                    return
                if x[0] == "if":
                    u = under or x[1] == FLAG
                    visit(x[2], u)
                    visit(x[3], under)
                    return
                if x[0] == "tpl" and x[2]:
                    has = under or any(sl[0] == "call" and sl[1] == "then" and sl[2] and sl[2][0] == FLAG or (sl[0] == "if" and sl[1] == FLAG) for sl in x[3])
                    results.append((x[2], has))
                    return
                from rules.core.norm import _direct_children
                for c_ in _direct_children(x):
                    visit(c_, under)
            visit(Nf.term(fe["body"]), False)
            if len(results) < 3:
                ctx.bad("C14.3", "missing-anchor/named-unnamed-match", fe["sp"], "the three forms of a field list (unit, tuple, named) were not found in fields_example")
            for text, has in results:
                ctx.expect(has, "C14.3", "marker-consumed/" + text[:40], fe["sp"], "the needs-marker flag decides whether the marker is emitted in this form",
                           "the form `%s` ignores the unused-parameter marker flag: a struct of this form with unused type parameters gets no PhantomData" % text[:60])
    DR.expect_golden(ctx, "C14.4", "fields-example", "rust/fields_example", "rust_value::fields_example",
                     "named: `{ name: value, .. marker? }`; unnamed: `( value, .. marker? )`; unit: `(marker)?`; values via resolve(field.ty.id) in order, Compact(..) only around explicitly Compact-typed fields")
    DR.expect_golden(ctx, "C14.4", "marker-source", "rust/has_unused_type_params", "has_unused_type_params",
                     "marker presence = the generator's own create_type_ir(ty).type_params.has_unused_type_params()")
    expect_fn(ctx, "C14.4", "marker-source/predicate", "TypeParameters::has_unused_type_params", "Not(BTreeSet::is_empty(P0.unused))", "has unused params iff the unused set is non-empty", "scale_typegen")
    # C14.5..7 ty_example
    fn = DR.expect_golden(ctx, "C14.6", "ty-example", "rust/ty_example", "rust_value::ty_example",
                          "struct: path(id) + fields(marker flag); enum: path(id)::Variant + that variant's fields (no marker); vec![a, b]; [x; len] / len repetitions; "
                          "( #(#f,)* ) tuples; primitives; compact -> inner; middleware first",
                          mask=_mask_copy_selector)
    if fn is not None:
        N = Norm(fn)
        ms = q.matches_on(fn["body"], lambda t: t.startswith("scale_info::TypeDef<"))
        arms = arms_by_variant(ms[0]) if ms else {}
        if "Variant" in arms:
            calls = [n for n in q.calls_to(arms["Variant"]["body"], "rust_value::fields_example")]
            i_flag = 1
            flags = [show(N.term(c["args"][i_flag])) for c in calls]
            ctx.expect(flags == ["false"], "C14.4", "marker-source/variants-never", site(arms["Variant"]),
                       "enum variants never carry the marker (the generator emits a separate __Ignore variant instead)", "variant fields are emitted with marker flag %s" % flags)
        if "Composite" in arms:
            calls = [n for n in q.calls_to(arms["Composite"]["body"], "rust_value::fields_example")]
            flags = [show(N.term(c["args"][1])) for c in calls]
            ctx.expect(flags == ["rust_value::has_unused_type_params(P2,P1)?"], "C14.4", "marker-source/structs", site(arms["Composite"]),
                       "struct literals get the marker iff the generator's IR of THIS type has unused parameters", "struct marker flag is %s" % flags)
        if "Tuple" in arms:
            tt = [T.render_pos(items) for node, items, kind, parent in T.find_templates(arms["Tuple"]["body"])]
            ctx.expect(tt == ["( #( #fields , )* )"] or (len(tt) == 1 and re.fullmatch(r"\( #\( #\w+ , \)\* \)", tt[0])), "C14.5", "tuple-form", site(arms["Tuple"]),
                       "tuple example `( #(#fields,)* )`: the comma is inside the repetition, so a one-element tuple is `(x,)`", "tuple template(s): %s" % tt)
        if "Array" in arms:
            at = show(N.term(arms["Array"]["body"], arm_syms(arms["Array"]["pat"])))
            ctx.expect("(A.len as usize)" in at and at.count("(A.len as usize)") == 2, "C14.6", "array-arity", site(arms["Array"]), "both array forms use the definition's len", "array arm: " + at[:300])
    DR.expect_golden(ctx, "C14.7", "path-without-generics", "rust/resolve_type_path_omit_generics", "resolve_type_path_omit_generics",
                     "path = tokens of the generator's resolve_type_path(id) (optional middleware), cut before the generic arguments")
    # (the Copy heuristic only selects between the two array forms, which both have the definition's length: its own body is not part of the
    # conformance rule; its recursion is classified under C14.9 below)
    # C14.8 Box agreement between the sibling field emitters
    box_users = {}
    for c, b in P.all_bodies(DR.LIBS):
        if "body" not in b or q.derived(b):
            continue
        for n in walk(b["body"]):
            if n.get("k") == "MethodCall" and cshort(n.get("callee", "")) in ("str::contains", "str::starts_with"):
                a = strip(n["args"][0])
                if a.get("k") == "Lit" and a.get("v") == "Box<":
                    box_users.setdefault(cshort(b["path"]), 0)
                    box_users[cshort(b["path"])] += 1
    ctx.count("field emitters consulting the Box marker", sum(box_users.values()), 2)   # generator (possibly through one helper) + description
    ok = any("fields_example" in f or "rust_value" in f for f in box_users)
    ctx.expect(ok, "C14.8", "box-agreement/fields_example/box-marker-ignored", fe["sp"] if fe else "",
               "the Rust example wraps boxed fields like the generator does",
               "the generator (create_composite_ir_kind x2) and the description (field_type_description) wrap a field in Box<..> when its recorded type name contains `Box<`, "
               "but the Rust example emitter never reads that marker: for `struct S { b: Box<u32> }` it emits `S { b: 5u32 }`, which is not an instance of the generated `b: Box<u32>`")
    DR.seed_and_rng(ctx, "C14.9", M)
    DR.transformer_guard(ctx, "C14.9", M)
    entry = q.fn1(P, "rust_value::example_from_seed", D)
    if entry is not None:
        g, table = DR.graph(ctx, entry["path"])
        reach = k10.reachable(g, [entry["path"]])
        # only the description crate's own functions: the generator's sites are C10's
        with ctx.only(lambda k: k.startswith("scc/")):
            k13.check_sccs(ctx, "C14.9", g, {f for f in reach if f.startswith(D)}, DR.LIBS, [b for b in table if b["in"] == entry["path"]])
        inv = [s for s in k10.inventory(P, (D,)) if s.owner in reach]
        from .. import panics
        ctx.count("panic-capable sites reachable from rust_value::example_from_seed (description crate)", len(inv), 5)
        panics.discharge_all(ctx, "C14.9", P, inv, g, {"bindings": table})
