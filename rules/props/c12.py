"""C12 — example SCALE values are valid instances of their type (structural necessary conditions)."""
from ..core import q
from ..core.q import expect_term, expect_fn, site, ANY, arms_by_variant, arm_syms
from ..core.norm import Norm, show, cshort
from .. import desc_rules as DR, k13

META = {
    "explanation": "Arm agreement (K2+K4) of the scale-value generator: composite -> composite of its own fields in order (named iff named); variant -> the chosen variant's own "
                   "name and that same variant's fields; sequence -> unnamed composite of element examples; array -> exactly `0..array.len` element examples; tuple -> unnamed "
                   "composite over its members; compact -> the inner example; bit sequence -> a bit-sequence value. Width table (K1): Uk -> U128(gen::<uk>() as u128), "
                   "Ik -> I128(gen::<ik>() as i128), 128/256-bit arms, Bool, Char/Str from non-empty literal arrays. Determinism: the only randomness source is "
                   "ChaCha8Rng::seed_from_u64(seed) with the seed parameter by identity. Termination / no panic: recursion only through Transformer::resolve whose recurse policy "
                   "returns Err (fn-pointer bindings resolved), in-progress marker set before the policy runs, panic inventory discharged. Error provenance: Err only from "
                   "recursion, an empty variant list, mixed fields, a missing id. That scale-value encodes the value against the id and decodes it back is NOT decided.",
    "trusted_base": ["rand: gen::<T>() yields a value of type T; SliceRandom::choose returns an element of the slice", "scale-value constructors", "nightly rustc HIR/MIR"],
    "assumptions": ["compact wraps unsigned integers or single-field wrappers of them (W5)"],
    "exhaustive": True,
}
M = "scale_value"


def check(ctx):
    P = ctx.P
    a = DR.typedef_match_fn(ctx, "C12.1", "scale-value policy (match on TypeDef -> Result<Value>)", lambda o: o.startswith("std::result::Result<scale_value::Value<"))
    if a is None:
        return
    fn, ms = a
    m = ms[0]
    N = Norm(fn)
    i_ty = q.param_index(fn, lambda t: t.startswith("&scale_info::Type<"))
    i_tr = q.param_index(fn, lambda t: "Transformer<" in t)
    TY, TR = "P%d" % i_ty, "P%d" % i_tr
    RNG = "RefCell::borrow_mut(Transformer::state(%s))" % TR
    arms = arms_by_variant(m)
    for v in q.variants_of(P, "TypeDef", "scale_info"):
        if v not in arms:
            ctx.bad("C12.1", "arm/" + v, site(m), "no explicit arm for TypeDef::%s in the scale-value generator" % v)
    CH = "ok_or(SliceRandom::choose(A.variants,%s),%s)?" % (RNG, ANY)
    exp = {
        "Composite": "Ok(scale_value::Value{context:(),value:ValueDef::Composite(scale_value::fields_type_example(Iterator::map(A.fields,|1|{(C1_0.name,C1_0.ty.id)}),%s)?)})" % TR,
        "Variant": "Ok(scale_value::Value{context:(),value:ValueDef::Variant(scale_value::Variant{name:%s.name,values:scale_value::fields_type_example(Iterator::map(%s.fields,|1|{(C1_0.name,C1_0.ty.id)}),%s)?})})" % (CH, CH, TR),
        "Sequence": "Ok(Value::unnamed_composite([Transformer::resolve(%s,A.type_param.id)?,Transformer::resolve(%s,A.type_param.id)?]))" % (TR, TR),
        "Array": "Ok(Value::unnamed_composite(Iterator::collect(Iterator::map(ops::Range{end:A.len,start:'0'},|1|{Transformer::resolve(%s,A.type_param.id)}))?))" % TR,
        "Tuple": "Ok(scale_value::Value{context:(),value:ValueDef::Composite(scale_value::fields_type_example(Iterator::map(A.fields,|1|{(v1::None,C1_0.id)}),%s)?)})" % TR,
        "Compact": "Transformer::resolve(%s,A.type_param.id)" % TR,
    }
    why = {
        "Composite": "struct -> composite of its own fields (name, id) in order",
        "Variant": "enum -> ONE variant chosen from the list; its own name and its own fields (same choice)",
        "Sequence": "sequence -> unnamed composite of examples of the element type",
        "Array": "array -> exactly array.len examples of the element type",
        "Tuple": "tuple -> unnamed composite over the members in order",
        "Compact": "compact -> example of the inner type",
    }
    for v, e in exp.items():
        arm = arms.get(v)
        if arm is None:
            continue
        t = N.term(arm["body"], arm_syms(arm["pat"]))
        expect_term(ctx, "C12.1", "arm/" + v, arm, t, e, why[v])
    if "BitSequence" in arms:
        t = show(N.term(arms["BitSequence"]["body"]))
        import re as _re
        ok = "Ok(Value::bit_sequence(mut[BitSequence::new();.BitSequence::push(Rng::gen<bool>(" in t \
            or _re.match(r"Ok\(Value::bit_sequence\(Iterator::collect\(Iterator::map\(ops::Range\{.*\},\|1\|\{Rng::gen<bool>\(", t) is not None      # the same bits collected
        ctx.expect(ok, "C12.1", "arm/BitSequence", site(arms["BitSequence"]),
                   "bit sequence -> a BitSequence value of random bits (children not visited: the value does not depend on store/order)", "bit-sequence arm: " + t[:200])
    sc = show(N.term(m["scrut"]))
    ctx.expect(sc == "%s.type_def" % TY, "C12.1", "dispatch", site(m), "dispatch on the type's own definition", "scrutinee " + sc)
    # width table: the Primitive arm with the private table helper looked through is Ok(Value::primitive(match primitive { .. })) over the shared rng
    parm = arms.get("Primitive")
    pt = N.term(parm["body"], arm_syms(parm["pat"])) if parm is not None else None
    table = None
    if pt is not None and pt[0] == "call" and pt[1] == "Ok" and len(pt[2]) == 1 and pt[2][0][0] == "call" and pt[2][0][1] == "Value::primitive" \
            and len(pt[2][0][2]) == 1 and pt[2][0][2][0][0] == "match" and show(pt[2][0][2][0][1]) == "A":
        table = pt[2][0][2][0]
    elif pt is not None and pt[0] == "call" and pt[1] == "Ok" and len(pt[2]) == 1 and pt[2][0][0] == "match" and show(pt[2][0][1]) == "A" \
            and all(g is None and (b[0] == "opaque" or (b[0] == "call" and b[1] == "Value::primitive" and len(b[2]) == 1)) for _p, g, b in pt[2][0][2]):
        # the constructor applied in every arm instead of once around the table: the same table
        table = ("match", pt[2][0][1], [(p_, g_, b_[2][0] if b_[0] == "call" else b_) for p_, g_, b_ in pt[2][0][2]])
    ctx.expect(table is not None, "C12.1", "arm/Primitive", site(parm) if parm is not None else site(m),
               "primitive -> Value::primitive(<width table over the primitive kind>)", "primitive arm: " + (show(pt)[:200] if pt is not None else "missing"))
    if table is not None:
        parms = {}
        for pat_, g_, body_ in table[2]:
            if g_ is None:
                for alt in pat_.split("|"):
                    parms[alt.strip().rsplit("::", 1)[-1]] = body_
        R = RNG
        for v in q.variants_of(P, "TypeDefPrimitive", "scale_info"):
            body_ = parms.get(v)
            if body_ is None:
                ctx.bad("C12.2", "width/" + v, site(parm), "no explicit arm for TypeDefPrimitive::%s" % v)
                continue
            t = show(body_)
            if v in DR.INTS:
                ty = DR.INTS[v]
                wide = "u128" if ty.startswith("u") else "i128"
                ctor = "Primitive::U128" if ty.startswith("u") else "Primitive::I128"
                e = ["%s((Rng::gen<%s>(%s) as %s))" % (ctor, ty, R, wide)]
                if ty == wide:
                    e.append("%s(Rng::gen<%s>(%s))" % (ctor, ty, R))
                w = "%s -> a random %s widened to %s" % (v, ty, wide)
            elif v in ("U256", "I256"):
                e = ["Primitive::%s(Rng::gen<[u8; 32]>(%s))" % (v, R), "Primitive::%s(Rng::gen<[u8; 32_usize]>(%s))" % (v, R)]
                w = "256-bit value from 32 random bytes"
            elif v == "Bool":
                e = ["Primitive::Bool(Rng::gen<bool>(%s))" % R]
                w = "random bool"
            elif v == "Char":
                e = ["Primitive::Char(SliceRandom::choose(%s,%s)@v1::Some.0)" % (ANY, R)]
                w = "a char chosen from a literal array"
            else:
                e = ["Primitive::String(SliceRandom::choose(%s,%s)@v1::Some.0)" % (ANY, R)]
                w = "a string chosen from a literal array"
            expect_term(ctx, "C12.2", "width/" + v, parm, t, e, w)
    # fields
    expect_fn(ctx, "C12.3", "fields", "scale_value::fields_type_example",
              "if(Iterator::all(P0,|1|{Option::is_none(C1_0.0)})){Ok(if(Iterator::all(P0,|1|{Option::is_some(C1_0.0)})){Composite::Unnamed(Vec::new())}else{"
              "Composite::unnamed(Iterator::collect(Iterator::map(P0,|1|{Transformer::resolve(P1,C1_0.1)}))?)})}else{if(Iterator::all(P0,|1|{Option::is_some(C1_0.0)})){"
              "Ok(Composite::named(Iterator::collect(Iterator::map(P0,|1|{Ok((Option::unwrap(C1_0.0),Transformer::resolve(P1,C1_0.1)?))}))?))}else{Err(%s)}}" % ANY,
              "no fields -> empty unnamed; all named -> named composite of (name, example of id) in order; all unnamed -> unnamed composite in order; mixed -> Err", DR.D)
    DR.seed_and_rng(ctx, "C12.4", M)
    DR.transformer_guard(ctx, "C12.5", M)
    DR.panic_inventory(ctx, "C12.6", "scale_value::example_from_seed")
