"""C16 — settings builders behave as set/map accumulators over any call history."""
from ..core import q
from ..core.q import expect_term, expect_fn, site, peel, ANY
from ..core.ir import walk, strip
from ..core.norm import Norm, show, cshort
from . import c06, c10, c07

META = {
    "explanation": "Accumulator structure (K15+K4+K5): global registrations extend the default sets; add_*_for(ty, xs, recursive) extends entry(ty).or_default() of the recursive "
                   "map iff `recursive`, else of the specific map; derives go to .derives, attributes to .attributes (sibling agreement of the two methods). Substitutes "
                   "(K4/K11): insert = HashMap::insert (last wins), insert_if_not_exists = entry().or_insert (first wins), extend = insert per element in order; in each, the "
                   "fallible parse is evaluated before (dominates) the map mutation, so a rejected call mutates nothing. Key = segment idents only. Error kinds (K10): "
                   "ExpectedAbsolutePath iff neither leading `::` nor first segment `crate`; EmptySubstitutePath, ExpectedAngleBracketGenerics, InvalidFromType, InvalidToType "
                   "only at their guards. Type-level (K16): AbsolutePath has a private field and is only produced by the checked conversion; insert*/extend take AbsolutePath. "
                   "With std set/map semantics this gives order-/repetition-independence of derives and last-/first-wins of substitutes for ALL call histories.",
    "trusted_base": ["std HashMap/HashSet semantics", "nightly rustc HIR + ADT visibility facts"],
    "assumptions": [],
    "exhaustive": True,
}
S = "scale_typegen"


def check(ctx):
    P = ctx.P
    expect_fn(ctx, "C16.1", "derives/all", "DerivesRegistry::add_derives_for_all", "Extend::extend(P0.default_derives.derives,P1)", "global derives: set extend", S)
    expect_fn(ctx, "C16.1", "attributes/all", "DerivesRegistry::add_attributes_for_all", "Extend::extend(P0.default_derives.attributes,P1)", "global attributes: set extend", S)
    SEL = "Entry::or_default(HashMap::entry(if(P3){P0.recursive_type_derives}else{P0.specific_type_derives},P1))"
    expect_fn(ctx, "C16.1", "derives/for", "DerivesRegistry::add_derives_for", "Extend::extend(%s.derives,P2)" % SEL,
              "recursive -> recursive map, else specific map; entry(ty).or_default(); derives extended", S)
    expect_fn(ctx, "C16.1", "attributes/for", "DerivesRegistry::add_attributes_for", "Extend::extend(%s.attributes,P2)" % SEL,
              "same selection as add_derives_for; attributes extended (sibling agreement)", S)
    expect_fn(ctx, "C16.1", "derives/extend_from", "Derives::extend_from", "{Extend::extend(P0.derives,P1.derives);Extend::extend(P0.attributes,P1.attributes)}", "union, no crossing", S)
    expect_fn(ctx, "C16.1", "derives/insert", "Derives::insert_derive", "HashSet::insert(P0.derives,P1)", "single derive: set insert", S)
    expect_fn(ctx, "C16.1", "attributes/insert", "Derives::insert_attribute", "HashSet::insert(P0.attributes,P1)", "single attribute: set insert", S)
    from . import c08
    with ctx.only(lambda k: k in ("resolve", "resolve/for-type", "resolve/path-key")):
        c08.check(ctx)
    # `... and recursively for its ancestors` is a UNION over all ancestors: the flattening must extend, never replace or keep-first
    with ctx.only(lambda k: k.startswith("flatten/") or k.startswith("key-multiplicity/")):
        c08.flatten(ctx)
    # "recursively for its ancestors" follows every way one type mentions another (fields, elements, type parameters, ..): the traversal that
    # computes what a recursive registration reaches
    with ctx.only(lambda k: k.startswith("reach/")):
        c08.reachability(ctx)
    # substitutes: operation + parse-before-mutate
    # the private parser of one rule is looked through: key = the source path's idents, rule = Substitute{target unchanged, mapping parsed from both}
    def KEY(src):
        return "substitutes::path_segments(%s)" % src

    def SUB(src, dst):
        return "substitutes::Substitute{param_mapping:TypeSubstitutes::parse_path_param_mapping(%s,%s)?,path:%s}" % (src, dst, dst)
    expect_fn(ctx, "C16.2", "substitutes/insert", "TypeSubstitutes::insert", "{HashMap::insert(P0.substitutes,%s,%s);Ok(())}" % (KEY("P1"), SUB("P1", "P2.0")),
              "insert: parse (may fail, nothing mutated yet), then HashMap::insert - the last rule for a key wins", S)
    expect_fn(ctx, "C16.2", "substitutes/insert_if_not_exists", "TypeSubstitutes::insert_if_not_exists",
              "{Entry::or_insert(HashMap::entry(P0.substitutes,%s),%s);Ok(())}" % (KEY("P1"), SUB("P1", "P2.0")), "insert-if-absent: entry(key).or_insert(rule) never replaces", S)
    DELEGATING = ["Iterator::try_for_each(P1,|1|{TypeSubstitutes::insert(P0,C1_0.0,C1_0.1)})", "{for(P1){TypeSubstitutes::insert(P0,elem(P1).0,elem(P1).1)?};Ok(())}"]
    expect_fn(ctx, "C16.2", "substitutes/extend", "TypeSubstitutes::extend",
              ["{for(P1){HashMap::insert(P0.substitutes,%s,%s)};Ok(())}" % (KEY("elem(P1).0"), SUB("elem(P1).0", "elem(P1).1.0"))] + DELEGATING,
              "extend: per element in order, parse then insert (a failing element stops before its own insertion) - written out or by calling insert per element", S)
    for suf in ("TypeSubstitutes::insert", "TypeSubstitutes::insert_if_not_exists", "TypeSubstitutes::extend"):
        fn = q.fn1(P, suf, S)
        if fn is None:
            continue
        # statement order: the `?` on the parse is evaluated in a `let` that precedes the statement mutating the map
        order = []
        for n in walk(fn["body"]):
            if n.get("k") == "Match" and str(n.get("src", "")).startswith("TryDesugar"):
                order.append(("try", n["sp"]))
            elif n.get("k") == "MethodCall" and cshort(n.get("callee", "")) in ("HashMap::insert", "HashMap::entry", "Entry::or_insert"):
                order.append(("mutate", n["sp"]))
        kinds = [k for k, _ in order]
        ok = "try" in kinds and "mutate" in kinds and kinds.index("try") < kinds.index("mutate")
        if not ok and suf.endswith("::extend") and show(Norm(fn).term(fn["body"])) in DELEGATING:
            ok = True           # each element goes through `insert`, whose own order is checked above
        ctx.expect(ok, "C16.3", "parse-before-mutate/" + cshort(fn["path"]), fn["sp"], "the fallible parse precedes the map mutation in evaluation order", "order of effects: %s" % kinds)
    with ctx.only(lambda k: k.startswith("key/") or k.startswith("mapping/")):
        # incl. the mapping function as a whole: a rule is accepted (and the map modified) only after BOTH generic lists were validated
        c07.check(ctx)
    # error kinds
    sites = c10.ctor_sites(P, "error::TypeSubstitutionErrorKind")
    exp_where = {"ExpectedAbsolutePath": ["scale_typegen::try_from"], "EmptySubstitutePath": ["TypeSubstitutes::parse_path_param_mapping"],
                 "ExpectedAngleBracketGenerics": ["TypeSubstitutes::parse_path_param_mapping"], "InvalidFromType": ["TypeSubstitutes::parse_path_param_mapping"],
                 "InvalidToType": ["TypeSubstitutes::parse_path_param_mapping"], "NoMatchingFromType": []}
    for v in q.variants_of(P, "TypeSubstitutionErrorKind", S) or []:
        where = sorted({cshort(o) for b, n in sites.get(v, []) for o in q.owners(ctx, b["path"], (S,))})       # a private helper produces on behalf of its callers
        if v not in exp_where:
            ctx.bad("C16.4", "error-kind/" + v, "", "new TypeSubstitutionErrorKind::%s without reviewed provenance" % v)
            continue
        ctx.expect(where == exp_where[v], "C16.4", "error-kind/" + v, site(sites[v][0][1]) if sites.get(v) else "",
                   "TypeSubstitutionErrorKind::%s is produced only in %s" % (v, exp_where[v] or "no library function"), "produced in %s" % where)
    ABS = "(let v1::Some($)=P0.leading_colon||(let v1::Some($)=Punctuated::first(P0.segments)&&(Punctuated::first(P0.segments)@v1::Some.0.ident=='crate')))"
    fs = [b for b in q.fn_by_suffix(P, "std::convert::TryFrom<syn::Path>>::try_from", S)]
    if len(fs) == 1:
        expect_term(ctx, "C16.4", "absolute/checked-conversion", fs[0]["sp"], Norm(fs[0]).term(fs[0]["body"]),
                    "if(%s){Ok(substitutes::AbsolutePath(P0))}else{Err(error::TypeSubstitutionError{kind:TypeSubstitutionErrorKind::ExpectedAbsolutePath,span:Spanned::span(P0)})}" % ABS,
                    "absolute iff leading `::` or first segment `crate` (private predicate looked through); relative targets are rejected with ExpectedAbsolutePath; the path is "
                    "wrapped unchanged otherwise")
    else:
        ctx.bad("C16.4", "missing-anchor/TryFrom<syn::Path> for AbsolutePath", "", "checked conversion not found")
    fn = q.fn1(P, "TypeSubstitutes::parse_path_param_mapping", S)
    if fn is not None:
        t = show(Norm(fn).term(fn["body"]), 10 ** 6)
        for kind, frag in (("EmptySubstitutePath", "else{Err(error::TypeSubstitutionError{kind:TypeSubstitutionErrorKind::EmptySubstitutePath,span:Spanned::span(P0)})}"),
                           ("ExpectedAngleBracketGenerics", "PathArguments::Parenthesized($)=>return Err(error::TypeSubstitutionError{kind:TypeSubstitutionErrorKind::ExpectedAngleBracketGenerics,"),
                           ("InvalidFromType", "ok_or(substitutes::get_valid_from_substitution_type(C1_0),error::TypeSubstitutionError{kind:TypeSubstitutionErrorKind::InvalidFromType,span:Spanned::span(C1_0)})"),
                           ("InvalidToType", "ok_or(substitutes::get_valid_to_substitution_type(C1_0),error::TypeSubstitutionError{kind:TypeSubstitutionErrorKind::InvalidToType,span:Spanned::span(C1_0)})")):
            ok = frag in t
            if kind == "EmptySubstitutePath":
                ok = "ok_or(Punctuated::last(P0.segments),error::TypeSubstitutionError{kind:TypeSubstitutionErrorKind::EmptySubstitutePath,span:Spanned::span(P0)})?.arguments" in t
            ctx.expect(ok, "C16.4", "error-guard/" + kind, fn["sp"], "%s at its documented guard" % kind, "guard for %s changed" % kind)
    # K15 container facts and K16-lite type-level facts from the ADT table
    with ctx.only(lambda k: k.startswith("container/") and "ModuleIR" not in k):
        c06.containers(ctx)
    ap = q.adt_by_name(P, "AbsolutePath", S)
    ok = ap is not None and len(ap["variants"][0]["fields"]) == 1 and not ap["variants"][0]["fields"][0]["pub"]
    ctx.expect(ok, "C16.6", "absolute-path/private-field", ap["sp"] if ap else "", "AbsolutePath's only field is private: it cannot be built from a relative path outside the checked conversion",
               "AbsolutePath field visibility changed")
    ctors = sorted({cshort(b["path"]) for c, b in P.all_bodies((S,)) if "body" in b and not q.derived(b)
                    for n in walk(b["body"]) if n.get("k") == "Call" and n.get("callee", "").endswith("substitutes::AbsolutePath") and str(n.get("dk", "")).startswith("Ctor")})
    ctx.expect(ctors == ["scale_typegen::try_from"], "C16.6", "absolute-path/who-may-construct", "", "AbsolutePath is constructed only by the checked TryFrom", "constructed in %s" % ctors)
    for suf in ("TypeSubstitutes::insert", "TypeSubstitutes::insert_if_not_exists"):
        fn = q.fn1(P, suf, S)
        if fn is not None:
            ctx.expect(fn["inputs"][2].endswith("substitutes::AbsolutePath"), "C16.6", "absolute-path/signature/" + cshort(fn["path"]), fn["sp"],
                       "the target parameter has type AbsolutePath", "signature: %s" % fn["inputs"])
    fn = q.fn1(P, "TypeSubstitutes::extend", S)
    if fn is not None:
        ctx.expect("AbsolutePath" in fn["inputs"][1], "C16.6", "absolute-path/signature/TypeSubstitutes::extend", fn["sp"], "extend takes (syn::Path, AbsolutePath) pairs", "signature: %s" % fn["inputs"])
