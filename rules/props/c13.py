"""C13 — type descriptions are faithful to the registry and always terminate (structural necessary conditions)."""
from ..core import q
from ..core.q import expect_term, expect_fn, site, ANY, arms_by_variant
from ..core.ir import walk, strip
from ..core.norm import Norm, show, cshort
from .. import desc_rules as DR, k10, k13

META = {
    "explanation": "Arm completeness and sources (K2+K4): every child of every TypeDef arm is described through transformer.resolve of its OWN id, in order, with the field / variant "
                   "name; array length from array.len; both tuple emitters put the comma after an element iff another follows or the tuple has exactly one element (K14); Box<..> "
                   "iff the recorded type name contains the same `Box<` literal the generator uses (K14 across crates). Primitive names (K1). Expand-once-then-name policy (K5): "
                   "recurse and cache-hit policies return the name with parameters iff the type has a path ident. Termination (K13): the only unguarded recursion "
                   "(type_name_with_type_params) descends only into type parameters and element / tuple / compact children, never into fields; everything else passes through "
                   "resolve, whose in-progress marker precedes the policy call. Formatting flag: format only applies format_type_description to the result (with C15 this gives "
                   "equality up to whitespace). Sealed cache: the Transformer's cache field is private. Panic inventory discharged. Lock-step textual faithfulness as a whole is NOT decided.",
    "trusted_base": ["nightly rustc HIR", "format! lowering decoded from fmt::Arguments bytes", "reviewed golden terms (rules/golden.json) for the loop-built strings"],
    "assumptions": ["W2, W5"],
    "exhaustive": True,
}
D = DR.D


def check(ctx):
    P = ctx.P
    a = DR.typedef_match_fn(ctx, "C13.1", "structural description (match on TypeDef -> Result<String>, takes the transformer)",
                            lambda o: o.startswith("std::result::Result<std::string::String"))
    if a is not None:
        fn, ms = a
        m = ms[0]
        arms = arms_by_variant(m)
        for v in q.variants_of(P, "TypeDef", "scale_info"):
            ctx.expect(v in arms, "C13.1", "arm/" + v, site(m), "TypeDef::%s has an explicit arm in the description" % v, "no explicit arm for TypeDef::%s in the description" % v)
    # the description of one type as ONE reviewed term: the private helpers between the policy function `ty_description` and the registry (per
    # type-def, fields, field, variants, variant, tuple) are looked through, so that what each arm emits - `()` / `{..}` / `(..)` by the field
    # names, every field through resolve(field.ty.id) in order with `name: ` and Box<..>, `{v1,v2}` for variants, Vec<..>, [..; len], the tuple
    # comma, Compact<..>, BitSequence(..) - is pinned together with how the pieces are put together
    fn = DR.expect_golden(ctx, "C13.1", "description", "desc/ty_description", "description::ty_description",
                          "description = prefix (enum / struct / none) + name with parameters (iff the type has an ident) + structure of its own TypeDef: every child "
                          "through the transformer's resolve of its own id, in order")
    # (the field list keeps a function of its own: it leaves early on mixed named / unnamed fields, which cannot be read as part of its caller)
    DR.expect_golden(ctx, "C13.1", "fields", "desc/fields_type_description", "description::fields_type_description",
                     "`()` for no fields; `{..}` iff all named, `(..)` iff all unnamed, Err for mixed; every field described in order, comma between fields; "
                     "field (private helper looked through) = resolve(field.ty.id), wrapped in Box<..> iff the recorded type name contains `Box<`, prefixed by `name: ` iff named")
    DR.expect_golden(ctx, "C13.5", "type-name", "desc/type_name_with_type_params", "description::type_name_with_type_params",
                     "names: Vec<..>, [..;len], (..,) with the one-element comma, Compact<..>, primitives, BitSequence, ident<params..> with `_` for skipped parameters")
    # K14: both tuple emitters use the same comma rule
    import re as _re
    for nm, fnsuf in (("tuple-emitter/structural", "description::ty_description"), ("tuple-emitter/name", "description::type_name_with_type_params")):
        tf = q.fn1(P, fnsuf, D)
        if tf is None:
            continue
        t = show(Norm(tf).term(tf["body"]), 10 ** 6)
        # canonical form of the separator loop: the members joined by ',', then one more ',' iff there is exactly one member
        ok = _re.search(r"F\[\(\{slice::join\(.*?,','\)\??\}\{if\(\(slice::len\([^()]*fields\)=='1'\)\)\{','\}else\{''\}\}\)\]", t) is not None
        ctx.expect(ok, "C13.3", nm, tf["sp"], "members joined by ',' and a trailing ',' iff len == 1 (one-element tuples keep their comma)", "tuple comma rule changed in " + fnsuf + ": " + t[:300])
    # K1 primitive names
    pf = q.fn1(P, "description::primitive_type_description", D)
    if pf is None:
        ctx.bad("C13.2", "missing-anchor/primitive_type_description", "", "primitive name table not found")
    else:
        Np = Norm(pf)
        pm = q.matches_on(pf["body"], lambda t: t == "scale_info::TypeDefPrimitive")
        parms = arms_by_variant(pm[0]) if pm else {}
        for v in q.variants_of(P, "TypeDefPrimitive", "scale_info"):
            arm = parms.get(v)
            exp = "'String'" if v == "Str" else "'%s'" % v.lower()
            if arm is None:
                ctx.bad("C13.2", "prim-name/" + v, pf["sp"], "no explicit arm for %s" % v)
            else:
                expect_term(ctx, "C13.2", "prim-name/" + v, arm, Np.term(arm["body"]), exp, "%s is called %s" % (v, exp))
    # K14 Box literal agreement across crates
    lits = []
    lit_crates = set()
    for c, b in P.all_bodies(DR.LIBS):
        if "body" not in b or q.derived(b):
            continue
        for n in walk(b["body"]):
            if n.get("k") == "MethodCall" and cshort(n.get("callee", "")) == "str::contains":
                a = strip(n["args"][0])
                at = Norm(b).term(a) if a.get("k") != "Lit" else ("lit", a["v"])        # a named constant stands for its text
                if at[0] == "lit" and isinstance(at[1], str):
                    lits.append((cshort(b["path"]), at[1]))
                    lit_crates.add(b["path"].split("::")[0])
    vals = {v for _f, v in lits}
    ctx.expect(vals == {"Box<"} and len(lit_crates) >= 2, "C13.1", "box-literal-agreement", "", "all %d Box detections (%s) use the same literal `Box<`" % (len(lits), sorted({f for f, _ in lits})),
               "Box detection literals differ: %s" % lits)
    # policies
    NAME = "description::type_name_with_type_params(P1,Transformer::types(P%d))"
    # the two policies are whatever is BOUND to the transformer's policy fields at the constructor call in type_description (nested fns or
    # non-capturing closures written in place): found through the fn-pointer bindings, compared as terms
    tdf = q.fn1(P, "description::type_description", D)
    pol = {}
    if tdf is not None:
        _g, table = DR.graph(ctx, tdf["path"])
        for b in table:
            if b["in"] == tdf["path"]:
                pol[b["field"].rsplit(".", 1)[-1]] = ctx.P.body(b["bound_to"])
    for field, key, exp, why in (
            ("recurse_policy", "policy/recurse", "then(Option::is_some(Path::ident(P1.path)),Ok(%s))" % (NAME % 2), "met again while in progress: name iff the type has an ident, else continue"),
            ("cache_hit_policy", "policy/cache-hit", "Some(Ok(if(Option::is_some(Path::ident(P1.path))){%s}else{P2}))" % (NAME % 3), "already described: name iff the type has an ident, else the cached text")):
        pf = pol.get(field)
        if pf is None:
            ctx.bad("C13.4", "missing-anchor/" + field, tdf["sp"] if tdf else "", "no function or non-capturing closure is bound to Transformer.%s in type_description" % field)
            continue
        ctx.mention(cshort(pf["path"]))
        expect_term(ctx, "C13.4", key, pf["sp"], Norm(pf).term(pf["body"]), exp, why)
    RES = "Transformer::resolve(Transformer::new(description::ty_description,%s,%s,(),P1),P0)" % (ANY, ANY)
    expect_fn(ctx, "C13.6", "format-flag", "description::type_description",
              "if(P2){Ok(formatting::format_type_description(%s?))}else{%s}" % (RES, RES),
              "result = resolve(id) with the policies checked above; the formatter is applied to it iff `format`", D)
    # `the formatted description equals the unformatted one up to whitespace`: the formatter copies every character exactly once and
    # adds whitespace only (the instances of C15 that carry this clause, evaluated here for C13)
    from . import c15
    with ctx.only(lambda k: k.endswith("/copy-once") or k in ("output/returned", "loop-shape", "loop-source", "loop-body-is-match", "default-arm")):
        c15.check(ctx)
    # sealed cache
    tr = q.adt_by_name(P, "Transformer", D)
    priv = tr is not None and all(not f["pub"] for f in tr["variants"][0]["fields"] if f["name"] == "cache")
    ctx.expect(priv, "C13.7", "sealed-cache", tr["sp"] if tr else "", "Transformer.cache is private: callers cannot pre-seed or clear the recursion guard", "cache field is public")
    # termination + panics
    entry = q.fn1(P, "description::type_description", D)
    if entry is not None:
        g, table = DR.graph(ctx, entry["path"])
        reach = k10.reachable(g, [entry["path"]])
        mine = [b for b in table if b["in"] == entry["path"]]
        k13.check_sccs(ctx, "C13.5", g, reach, DR.LIBS, mine)
    DR.panic_inventory(ctx, "C13.8", "description::type_description")
