"""Def-use term normalisation inside one body (engine E2, core service `normalise`).

`Norm(body)` indexes every binding site of a function body (parameters, `let`s,
match-arm / `if let` / `for` patterns, closure parameters) and converts an
expression into a *term*: locals are replaced by what they were bound to,
pattern bindings become projections, transparent operations are erased.
Two sources that differ by renaming, let-introduction / inlining or by using a
`for` loop instead of an iterator chain give the same term; `idx` and `idx + 1`
do not.  Plain use-def inlining: no path exploration, no solver.

Terms are nested tuples, rendered by `show()`:
    ("param", i)                     P{i}
    ("cparam", depth, i)             C{depth}_{i}          closure parameter
    ("sym", name)                    name                  caller-supplied symbol
    ("lit", v)                       literal
    ("def", path)                    constant / unit ctor / fn item
    ("field", t, name)               t.name
    ("proj", t, variant, acc)        t@Variant.acc         binding obtained by destructuring
    ("elem", t)                      elem(t)               element of an iteration
    ("try", t)                       t?
    ("call", name, [t...])           name(t,...)
    ("closure", depth, n, t)         |n| t
    ("struct", adt, variant, {f:t})
    ("tup", [t...]) ("array", [t...])
    ("mut", name, init, [effects])   mutable local with its ordered effects
    ("match", t, [(pat, guard, t)])  ("if", c, t, e)
    ("tpl", kind, text, [t...])      quote template (text with #k slots)
    ("fmt", [parts])                 format string
    ("op", op, [t...])   ("cast", ty, t)   ("ret", t)   ("opaque", kind)
"""
import re
from .ir import strip, walk, children, PAT_KINDS
from . import templates as T

TRANSPARENT = {
    "Clone::clone", "Iterator::cloned", "Iterator::copied", "ToOwned::to_owned", "Option::as_ref",
    "Option::as_deref", "Option::as_mut", "AsRef::as_ref", "Borrow::borrow", "slice::iter", "slice::to_vec",
    "IntoIterator::into_iter", "Deref::deref", "Box::new", "String::as_str", "Vec::as_slice",
    "Option::cloned", "Option::copied", "Vec::iter", "slice::iter_mut", "Result::as_ref", "hint::must_use",
    "Iterator::by_ref", "AsMut::as_mut", "Vec::as_mut_slice", "DerefMut::deref_mut", "BorrowMut::borrow_mut",
    "BTreeSet::iter", "HashSet::iter", "HashMap::iter", "BTreeMap::iter", "VecDeque::iter",          # `for x in c.iter()` is `for x in &c`
}


# accessors of dependencies that are read through their own definition (taken from the dependency's facts, not modelled by hand)
DEP_ACCESSORS = {}         # callee as written at call sites -> its definition (none enabled: `Path::ident` is named by too many reviewed terms)

GENERIC_SENSITIVE = {"Rng::gen", "Rng::r#gen"}


def _last_generic(g):
    """last generic argument of a substs string like `[Self, u8]`"""
    g = g.strip()
    if g.startswith("[") and g.endswith("]"):
        g = g[1:-1]
    depth = 0
    cur = ""
    parts = []
    for ch in g:
        if ch in "<([":
            depth += 1
        elif ch in ">)]":
            depth -= 1
        if ch == "," and depth == 0:
            parts.append(cur.strip())
            cur = ""
        else:
            cur += ch
    if cur.strip():
        parts.append(cur.strip())
    return cshort(parts[-1]) if parts and "::" in parts[-1] and "<" not in parts[-1] else (parts[-1] if parts else "?")


def cshort(path):
    """`a::b::Type::<X>::method` -> `Type::method` (generic args removed)"""
    out = []
    depth = 0
    i = 0
    s = path
    while i < len(s):
        ch = s[i]
        if ch == "<":
            depth += 1
        elif ch == ">":
            depth -= 1
        elif depth == 0:
            out.append(ch)
        i += 1
    s = "".join(out)
    s = re.sub(r"::::", "::", s)
    s = re.sub(r"::+$", "", s)
    parts = [p for p in s.split("::") if p]
    return "::".join(parts[-2:])


def ctor_name(n):
    """for Call/Path nodes resolved to a constructor: 'Enum::Variant' or 'Struct'"""
    p = n.get("callee") or n.get("path") or ""
    return cshort(p)


DEFAULT_PROGRAM = None
DEFAULT_KEEP = None
LOCAL_CRATES = ("scale_typegen::", "scale_typegen_description::")
INLINE_MAX_DEPTH = 3
INLINE_MAX_SIZE = 6000


def set_default(program, keep):
    """make every Norm built afterwards able to inline calls to repo-local helper functions that no rule names"""
    global DEFAULT_PROGRAM, DEFAULT_KEEP
    DEFAULT_PROGRAM, DEFAULT_KEEP = program, keep


SLICE_HEADS = ("slice::split_first", "slice::first", "slice::split_last", "slice::last", "Vec::first", "Vec::last")
_RANGE_FROM_1 = ("struct", "std::ops::RangeFrom", "RangeFrom", {"start": ("lit", "1")})


def _ctor_arm(t, v):
    """t = match s { A => V(x), B => W(y), C => <diverges> } where every arm that yields a value yields a constructor call of one enum and exactly
    one of them the variant v: that arm (pattern, guard, body), else None"""
    if t[0] != "match" or any(g is not None for _p, g, _b in t[2]) or "::" not in v:
        return None
    enum = v.rsplit("::", 1)[0]
    hit = None
    for a in t[2]:
        b = a[2]
        if _diverges(b):
            continue
        if b[0] != "call" or "::" not in b[1] or b[1].rsplit("::", 1)[0] != enum or not re.fullmatch(r"[A-Za-z_][\w:]*(\([$_,]*\))?", a[0]):
            return None
        if b[1] == v:
            if hit is not None:
                return None
            hit = a
    return hit


def _let(pat, scr):
    """the condition `let PAT = SCR`; `let Some(..) = xs.first() / xs.split_first()` (binders only) is `!xs.is_empty()`"""
    alts = [a.strip() for a in _split_top(pat, "|")] if "|" in pat else [pat]
    if len(alts) > 1 and all(re.fullmatch(r"[A-Za-z_][\w:]*(\([$_]\))?", a) for a in alts):
        c = None
        for a in alts:
            k = _let(a, scr)            # `let A(_) | B(_) = s`  is  `s is A || s is B`
            c = k if c is None else ("op", "||", [c, k])
        return c
    if re.fullmatch(r"[A-Za-z_][\w:]*\(_\)", pat):
        pat = pat[:-3] + "($)"          # whether the payload is bound or ignored does not matter for the test
    if scr[0] == "match" and re.fullmatch(r"[A-Za-z_][\w:]*\([$_]\)", pat):
        arm = _ctor_arm(scr, pat.split("(")[0])
        if arm is not None:
            return _let(arm[0], scr[1])      # (match s { A => V(x), B => W(y) }) is V  ==  s is A
    if pat in ("v1::None", "Option::None"):
        return _not(_let("v1::Some($)", scr))
    if pat.startswith("(") and pat.endswith(")") and scr[0] == "tup":
        # `let (p, q) = (a, b)` tests the components: `let p = a && let q = b`
        parts = [x.strip() for x in _split_top(pat[1:-1], ",")]
        if len(parts) == len(scr[1]) and len(parts) >= 2:
            c = None
            for part, comp in zip(parts, scr[1]):
                if re.fullmatch(r"[$_]", part):
                    continue
                k = _let(part, comp)
                if k == ("lit", True):
                    continue
                c = k if c is None else ("op", "&&", [c, k])
            return c if c is not None else ("lit", True)
    if pat.startswith("{") and pat.endswith("}"):
        # a plain struct pattern tests its fields: `let S { a: None, b: S2 { c: Some(_), .. }, d } = x` is `x.a is None && x.b.c is Some`
        c = None
        for part in _split_top(pat[1:-1], ","):
            part = part.strip()
            if not part or part == ".." or ":" not in part:
                continue
            name, sub = part.split(":", 1)
            if re.fullmatch(r"[$_]", sub):
                continue
            k = _let(sub, ("field", scr, name))
            if k == ("lit", True):
                continue
            c = k if c is None else ("op", "&&", [c, k])
        return c if c is not None else ("lit", True)
    if scr[0] == "call" and scr[1] in SLICE_HEADS and len(scr[2]) == 1 and re.fullmatch(r"(v1|Option)::Some\([$_(),]*\)", pat):
        return ("op", "Not", [("call", "slice::is_empty", [scr[2][0]])])
    if pat.startswith("[") and pat.endswith("]") and ".." not in pat and re.fullmatch(r"[\[\]$_(),]*", pat):
        # `let [a, b] = xs` (binders only, no rest) tests the length
        depth, n = 0, 1 if len(pat) > 2 else 0
        for ch in pat[1:-1]:
            if ch in "([":
                depth += 1
            elif ch in ")]":
                depth -= 1
            elif ch == "," and depth == 0:
                n += 1
        return ("op", "==", [_renorm_call(("call", "slice::len", [scr])), ("lit", str(n))])
    if scr[0] == "call" and scr[1] == "Option::map" and len(scr[2]) == 2 and re.fullmatch(r"(v1|Option)::Some\([$_]\)", pat):
        return _let(pat, scr[2][0])         # opt.map(f) is Some exactly when opt is
    if scr[0] == "call" and scr[1] == "Option::and_then" and len(scr[2]) == 2 and scr[2][1][0] == "closure" and scr[2][1][2] == 1 \
            and re.fullmatch(r"(v1|Option)::Some\([$_]\)", pat):
        # opt.and_then(f) is Some exactly when opt is Some(v) and f(v) is Some
        return ("op", "&&", [_let("v1::Some($)", scr[2][0]), _let(pat, _apply(scr[2][1], _proj_some(scr[2][0])))])
    if re.fullmatch(r"(v1|Option)::Some\([$_(),]*\)", pat):
        if scr[0] == "call" and scr[1] == "Option::zip" and len(scr[2]) == 2:
            return ("op", "&&", [_let("v1::Some($)", scr[2][0]), _let("v1::Some($)", scr[2][1])])     # a.zip(b) is Some  ==  both are
        if scr[0] == "if" and scr[3] == ("def", "v1::None"):
            return ("op", "&&", [scr[1], _let(pat, scr[2])])        # (if c { a } else { None }) is Some  ==  c && a is Some
        if scr[0] == "if" and scr[2] == ("def", "v1::None"):
            return ("op", "&&", [_not(scr[1]), _let(pat, scr[3])])
        if scr[0] == "call" and scr[1] == "then" and len(scr[2]) == 2:
            return scr[2][0]                                         # c.then(|| v) is Some  ==  c
        if scr[0] == "call" and scr[1] == "Some" and len(scr[2]) == 1:
            return ("lit", True)
    return ("iflet", pat, scr)


def peel_ty(t):
    while t.startswith("&"):
        t = t[1:].lstrip()
        if t.startswith("mut "):
            t = t[4:]
    return t


def _mk_cmp(op, l, r):
    """integer comparisons against a literal use `>=` / `<` only: `x > 1` is `x >= 2`, `x <= 1` is `x < 2`; the literal is on the right"""
    def intlit(t):
        return t[0] == "lit" and isinstance(t[1], str) and re.fullmatch(r"\d+", t[1]) is not None
    flip = {"<": ">", ">": "<", "<=": ">=", ">=": "<="}
    if op in flip and intlit(l) and not intlit(r):
        op, l, r = flip[op], r, l
    if op in ("==", "!=") and intlit(l) and not intlit(r):
        l, r = r, l
    if op in ("==", "!=") and l[0] == "call" and l[1] == "Some" and len(l[2]) == 1 and not (r[0] == "call" and r[1] == "Some"):
        l, r = r, l
    if op in ("==", "!=") and r[0] == "call" and r[1] == "Some" and len(r[2]) == 1 and not (l[0] == "call" and l[1] == "Some") and l != ("def", "v1::None"):
        # o == Some(w)  is  o is Some && payload == w
        c = ("op", "&&", [_let("v1::Some($)", l), ("op", "==", [_proj_some(l), r[2][0]])])
        return c if op == "==" else _not(c)
    if op == ">" and intlit(r):
        op, r = ">=", ("lit", str(int(r[1]) + 1))
    elif op == "<=" and intlit(r):
        op, r = "<", ("lit", str(int(r[1]) + 1))
    if op in ("==", "!=") and r[0] == "call" and r[1] == "Iterator::count" and not (l[0] == "call" and l[1] == "Iterator::count"):
        l, r = r, l
    if l[0] == "call" and l[1] == "Iterator::count" and len(l[2]) == 1 and l[2][0][0] == "call" and l[2][0][1] == "Iterator::filter" \
            and len(l[2][0][2]) == 2 and l[2][0][2][1][0] == "closure" and l[2][0][2][1][2] == 1:
        # counting the matches to ask about all / none of them:  filter(p).count() == len  is  all(p);  filter(p).count() == 0  is  all(!p)
        xs, clo = l[2][0][2]
        res = None
        if r[0] == "call" and r[1].endswith("::len") and len(r[2]) == 1 and r[2][0] == xs and op in ("==", "!="):
            res = ("call", "Iterator::all", [xs, clo])
        elif intlit(r) and (op, r[1]) in (("==", "0"), ("<", "1"), ("!=", "0"), (">=", "1")):
            res = ("call", "Iterator::all", [xs, ("closure", clo[1], clo[2], _not(clo[3]))])
            if (op, r[1]) in (("!=", "0"), (">=", "1")):
                return _not(res)
        if res is not None:
            return res if op != "!=" else _not(res)
    if l[0] == "call" and l[1].endswith("::len") and len(l[2]) == 1 and intlit(r):
        # emptiness, however it is asked:  len == 0, len < 1  /  len != 0, len >= 1
        e = ("call", l[1][:-5] + "::is_empty", [l[2][0]])
        if (op, r[1]) in (("==", "0"), ("<", "1")):
            return e
        if (op, r[1]) in (("!=", "0"), (">=", "1")):
            return ("op", "Not", [e])
    return ("op", op, [l, r])


def _shadow_safe(body, d, sub):
    """rewrite(body, sub) that leaves closures of the same depth index `d` alone: a term substituted into a closure body keeps the depth
    numbers of where it was written, so a closure inside it can carry the SAME index and rebinds the parameter name"""
    table = []

    def protect(n):
        if n[0] == "closure" and n[1] == d:
            table.append(n)
            return ("sym", "\x00clo%d" % (len(table) - 1))
        return None
    t = rewrite(body, protect)
    t = rewrite(t, sub)

    def restore(n):
        if n[0] == "sym" and isinstance(n[1], str) and n[1].startswith("\x00clo"):
            return table[int(n[1][4:])]
        return None
    for _ in range(len(table) + 1):
        t2 = rewrite(t, restore)
        if t2 == t:
            break
        t = t2
    return t


def _seq_parts(it):
    """the elements an iterator expression yields, as parts of a list (`vec+`): single elements, `for` parts; None when not understood"""
    if it[0] == "call" and it[1] == "iter::once" and len(it[2]) == 1:
        return [it[2][0]]
    if it[0] == "call" and it[1] == "Iterator::chain" and len(it[2]) == 2:
        a, b = _seq_parts(it[2][0]), _seq_parts(it[2][1])
        return None if a is None or b is None else a + b
    if it[0] == "call" and it[1] == "Iterator::map" and len(it[2]) == 2:
        inner = _seq_parts(it[2][0])
        f = it[2][1]
        if inner is None:
            return None
        if f[0] == "closure" and f[2] == 1:
            ap = lambda x: _apply(f, x)
        elif f[0] == "def":
            ap = lambda x: ("call", f[1], [x])          # a function passed by name
        else:
            return None
        return [("for", p[1], ap(p[2])) if p[0] == "for" else ap(p) for p in inner]
    if it[0] == "call" and it[1] == "Option::map" and len(it[2]) == 2 and it[2][1][0] == "closure" and it[2][1][2] == 1:
        return [_mk_if(_let("v1::Some($)", it[2][0]), _apply(it[2][1], _proj_some(it[2][0])), ("lit", "()"))]       # an Option as a 0-or-1 element sequence
    if it[0] == "call" and it[1] == "then" and len(it[2]) == 2:
        return [_mk_if(it[2][0], it[2][1], ("lit", "()"))]
    if it[0] in ("call", "field", "param", "proj", "elem", "index") and not (it[0] == "call" and it[1] in ("Iterator::filter", "Iterator::filter_map", "Iterator::flat_map",
                                                                                                         "Iterator::enumerate", "Iterator::zip", "Iterator::rev")):
        return [("for", it, ("elem", it))]
    return None


def _compose(g, f):
    """|x| g(f(x)) for two one-parameter closures written at the same depth"""
    d = g[1]
    fb = f[3]
    return ("closure", d, 1, _shadow_safe(g[3], d, lambda n: fb if n == ("cparam", d, 0) else None))


def _apply(clo, arg):
    """body of the one-parameter closure term `clo` with its parameter replaced by `arg`; closures nested inside move one level up"""
    d = clo[1]

    def sub(n):
        if n[0] == "cparam":
            if n[1] == d and n[2] == 0:
                return arg
            if n[1] > d:
                return ("cparam", n[1] - 1, n[2])
        if n[0] == "closure" and n[1] > d:
            return ("closure", n[1] - 1, n[2], n[3])
        return None
    return _shadow_safe(clo[3], d, sub)


_LAZY_ARGS = {"then": (1,), "ok_or": (1,), "search": (1, 2, 3), "vec+": tuple(range(64))}


def _finish_returns(t, top):
    """guard clauses that ended up at the top of a fn / closure body only after floating are an if / else chain as well"""
    def conv(b):
        for _ in range(8):
            if b[0] == "ret":
                b = b[1]                  # `return v` as the last thing a body does is its value
            elif b[0] == "early" and b[1] and b[1][-1][1][0] == "ret" and b[1][-1][0] != ("lit", "match"):
                b = _ret_chain(b[1], b[2])
            elif b[0] == "early" and b[2][0] == "early":
                b = ("early", list(b[1]) + list(b[2][1]), b[2][2])       # consecutive guard clauses are one list
            else:
                break
        return b

    def clo(n):
        if n[0] == "closure":
            nb = _then_merge(conv(n[3]))
            if nb is not n[3]:
                return ("closure", n[1], n[2], nb)
        return None
    t = rewrite(t, clo)
    return _then_merge(_push_ctor(_result_map_tail(conv(t)))) if top else t


def _result_map_tail(t):
    """as the result of a function:  match x { Ok(v) => Ok(f(v)), Err(e) => Err(e) }  (i.e. x.map(f))   ==   Ok(f(x?))"""
    if t[0] == "match" and len(t[2]) == 2 and all(g is None for _p, g, _b in t[2]) and {t[2][0][0], t[2][1][0]} == {"v1::Ok($)", "v1::Err($)"}:
        okb = next(b for p, _g, b in t[2] if p == "v1::Ok($)")
        erb = next(b for p, _g, b in t[2] if p == "v1::Err($)")
        okp, erp = ("proj", t[1], "v1::Ok", "0"), ("proj", t[1], "v1::Err", "0")
        if erb == ("call", "Err", [erp]) and okb[0] == "call" and okb[1] == "Ok" and len(okb[2]) == 1:
            tr = ("try", t[1])
            return ("call", "Ok", [rewrite(okb[2][0], lambda n: tr if n == okp else None)])
    return t


_NONE = ("def", "v1::None")
_NO_TAIL_TRY = False


def _conj(c):
    if c[0] == "op" and c[1] == "&&" and len(c[2]) == 2:
        return _conj(c[2][0]) + _conj(c[2][1])
    return [c]


def _extend_over_match(ts, x):
    """ts.extend(match s { P => quote!(p), .. })  is  match s { P => ts.extend(quote!(p)), .. }"""
    if x[0] == "match" and all(g is None and b[0] == "tpl" for _p, g, b in x[2]):
        return ("match", x[1], [(p, g, ("call", "Extend::extend", [ts, b])) for p, g, b in x[2]])
    return ("call", "Extend::extend", [ts, x])


def _tpl_splice(text, slots, k, sub):
    """the template (text, slots) with the whole-value slot #k replaced by the tokens of the template `sub`"""
    base = len(slots)
    toks = []
    for tok in text.split(" "):
        if tok == "#%d" % k:
            for st in sub[2].split(" "):
                m = re.fullmatch(r"#(\d+)", st)
                toks.append("#%d" % (base + int(m.group(1))) if m else st)
        else:
            toks.append(tok)
    new_slots = list(slots) + list(sub[3])
    # drop the spliced slot and renumber
    order = [i for i in range(len(new_slots)) if i != k]
    ren = {old: new for new, old in enumerate(order)}
    out = []
    for tok in toks:
        m = re.fullmatch(r"#(\d+)", tok)
        out.append("#%d" % ren[int(m.group(1))] if m else tok)
    return " ".join(" ".join(out).split()), [new_slots[i] for i in order]


def _renorm_tpl(t):
    """a template whose slots were just substituted: a whole-value slot that now holds Some(x) emits x, None emits nothing, and the tokens of
    a quote! that now sits in a whole-value slot stand in its place"""
    text, slots = t[2], list(t[3])
    in_rep = set()
    depth = 0
    for tok in text.split(" "):
        if tok == "#(":
            depth += 1
        elif depth and (tok.startswith(")") and tok.endswith("*")):
            depth -= 1
        elif depth:
            m = re.fullmatch(r"#(\d+)", tok)
            if m:
                in_rep.add(int(m.group(1)))
    changed = True
    while changed:
        changed = False
        for k, sl in enumerate(slots):
            if k in in_rep or ("#%d" % k) not in text.split(" "):
                continue
            if sl[0] == "call" and sl[1] == "Some" and len(sl[2]) == 1:
                slots[k] = sl = sl[2][0]
                changed = True
            if sl == ("def", "v1::None"):
                slots[k] = sl = ("tpl", "quote", "", [])
                changed = True
            if sl[0] == "tpl" and sl[1] == "quote" and text.split(" ").count("#%d" % k) == 1:
                shift = {}
                text, slots = _tpl_splice(text, slots, k, sl)
                in_rep = {i - 1 if i > k else i for i in in_rep}
                changed = True
                break
    # slots numbered in the order of their first use in the text (as a template written in one piece numbers them)
    order = []
    for tok in text.split(" "):
        m = re.fullmatch(r"#(\d+)", tok)
        if m and int(m.group(1)) not in order:
            order.append(int(m.group(1)))
    if len(order) == len(slots) and order != sorted(order):
        ren = {old: new for new, old in enumerate(order)}
        text = " ".join(("#%d" % ren[int(tok[1:])]) if re.fullmatch(r"#\d+", tok) else tok for tok in text.split(" "))
        slots = [slots[i] for i in order]
    return ("tpl", t[1], text, slots)


def _tpl_over_match(t, min_slots=2):
    """quote!( a #x b ) with x = match s { P => quote!(p), Q => quote!(q) } (as a whole value, not in a repetition) is
    match s { P => quote!(a p b), Q => quote!(a q b) }: the pieces chosen by one scrutinee are chosen once, around the template"""
    text, slots = t[2], t[3]
    whole = set(re.findall(r"(?<![#(] )#(\d+)", " " + text))
    in_rep = set()
    depth = 0
    for tok in text.split(" "):
        if tok == "#(":
            depth += 1
        elif depth and (tok.startswith(")") and tok.endswith("*")):
            depth -= 1
        elif depth:
            m = re.fullmatch(r"#(\d+)", tok)
            if m:
                in_rep.add(m.group(1))
    cands = [k for k, sl in enumerate(slots) if str(k) not in in_rep and sl[0] == "match" and all(g is None and b[0] == "tpl" and b[1] == "quote" for _p, g, b in sl[2])]
    if not cands:
        return t
    scr = slots[cands[0]][1]
    pats = [p for p, _g, _b in slots[cands[0]][2]]
    ks = [k for k in cands if slots[k][1] == scr and [p for p, _g, _b in slots[k][2]] == pats]
    if len(ks) < min_slots:
        return t              # one piece chosen by a match stays a slot (the field list of a struct); several pieces chosen together are one choice
    arms = []
    for ai, pat in enumerate(pats):
        tx, sl = text, list(slots)
        # splice from the highest index down so that the remaining indices stay valid
        for k in sorted(ks, reverse=True):
            tx, sl = _tpl_splice(tx, sl, k, sl[k][2][ai][2])
        arms.append((pat, None, _renorm_tpl(("tpl", t[1], tx, sl)) if min_slots < 2 else ("tpl", t[1], tx, sl)))
    return ("match", scr, arms)


_OPEN_TOK, _CLOSE_TOK = ("#(", "(", "{", "["), (")", "}", "]")


def _rep_close(tok):
    return tok.startswith(")") and tok.endswith("*")


def _renumber_slots(text, slots):
    """slots numbered in the order of their first use in the text; slots the text does not use are dropped"""
    order = []
    for tok in text.split(" "):
        m = re.fullmatch(r"#(\d+)", tok)
        if m and int(m.group(1)) not in order:
            order.append(int(m.group(1)))
    ren = {old: new for new, old in enumerate(order)}
    text = " ".join(("#%d" % ren[int(tok[1:])]) if re.fullmatch(r"#\d+", tok) else tok for tok in text.split(" "))
    return text, [slots[i] for i in order]


def _optional_piece(c, piece, d):
    """the piece emitted only when c holds, as a whole-value slot: c.then(|| piece), or o.map(|m| piece) when c is `let Some(m) = o`"""
    if c[0] == "iflet" and c[1] in ("v1::Some($)", "Option::Some($)"):
        o = c[2]
        pay = _proj_some(o)

        def sub(n):
            if n == pay:
                return ("cparam", d, 0)
            if n[0] == "cparam" and n[1] >= d:
                return ("cparam", n[1] + 1, n[2])
            if n[0] == "closure" and n[1] >= d:
                return ("closure", n[1] + 1, n[2], n[3])
            return None
        return ("call", "Option::map", [o, ("closure", d, 1, rewrite(piece, sub))])
    return _mk_then(c, piece)


def _split_rep_parts(text, slots, d):
    """`#( pre #k post )*` over a list written as parts (`vec+`: loops, optional items, single items) is the pieces of the parts one after the
    other - a repetition per loop, an optional piece per optional item, the tokens of a single item in place - each with pre / post around
    every element: the same tokens as a token stream assembled by appends"""
    toks = text.split(" ")
    slots = list(slots)
    i = 0
    changed = False
    while i < len(toks):
        if toks[i] != "#(":
            i += 1
            continue
        depth, j = 1, i + 1
        while j < len(toks) and depth:
            if toks[j] in _OPEN_TOK:
                depth += 1
            elif toks[j] in _CLOSE_TOK or _rep_close(toks[j]):
                depth -= 1
            j += 1
        inner = toks[i + 1:j - 1]
        marks = [x for x in inner if re.fullmatch(r"#\d+", x)]
        ok = depth == 0 and toks[j - 1] == ")*" and len(marks) == 1 and "#(" not in inner and toks.count(marks[0]) == 1
        st = slots[int(marks[0][1:])] if ok else None
        if not ok or st[0] != "call" or st[1] != "vec+":
            i += 1
            continue
        pre, post = inner[:inner.index(marks[0])], inner[inner.index(marks[0]) + 1:]

        def piece(X):
            if X[0] == "tpl" and X[1] == "quote":
                return ("tpl", "quote", " ".join(pre + [X[2]] + post).strip(), list(X[3]))
            return ("tpl", "quote", " ".join(pre + ["#0"] + post), [X])
        new = []
        for part in st[2]:
            if part[0] == "for":
                it, X = part[1], part[2]
                if X[0] in ("for", "seq", "early") or (X[0] == "if" and (_is_unit(X[2]) or _is_unit(X[3]))) or _is_unit(X):
                    new = None
                    break
                slots.append(("call", "Iterator::map", [it, ("closure", d, 1, rewrite(piece(X), _elem_to_param(it, d)))]))
                new += ["#(", "#%d" % (len(slots) - 1), ")*"]
            elif part[0] == "if" and _is_unit(part[3]) and not _is_unit(part[2]) and part[2][0] not in ("for", "seq", "early", "if"):
                slots.append(_optional_piece(part[1], piece(part[2]), d))
                new.append("#%d" % (len(slots) - 1))
            elif part[0] in ("for", "seq", "early", "if", "match") or _is_unit(part):
                new = None
                break
            else:
                pc = piece(part)
                base = len(slots)
                new += [("#%d" % (base + int(tok[1:]))) if re.fullmatch(r"#\d+", tok) else tok for tok in pc[2].split(" ")]
                slots.extend(pc[3])
        if new is None:
            i += 1
            continue
        toks[i:j] = new
        changed = True
        i += len(new)
    if not changed:
        return text, slots
    return _renumber_slots(" ".join(" ".join(toks).split()), slots)


def _unroll_rep_literals(text, slots):
    """`#( pre #k post ),*` over a list written out in place (`vec![a, b]`, `[a, b]`, at most four items) is `pre #a post , pre #b post`"""
    toks = text.split(" ")
    slots = list(slots)
    i = 0
    changed = False
    while i < len(toks):
        if toks[i] != "#(":
            i += 1
            continue
        depth, j = 1, i + 1
        while j < len(toks) and depth:
            if toks[j] in _OPEN_TOK:
                depth += 1
            elif toks[j] in _CLOSE_TOK or _rep_close(toks[j]):
                depth -= 1
            j += 1
        inner = toks[i + 1:j - 1]
        marks = [x for x in inner if re.fullmatch(r"#\d+", x)]
        ok = depth == 0 and _rep_close(toks[j - 1]) and len(marks) == 1 and "#(" not in inner and toks.count(marks[0]) == 1
        st = slots[int(marks[0][1:])] if ok else None
        items = None
        if ok and st[0] == "call" and st[1] == "vec!" and len(st[2]) <= 4:
            items = list(st[2])
        elif ok and st[0] == "array" and len(st[1]) <= 4:
            items = list(st[1])
        if items is None:
            i += 1
            continue
        sep = toks[j - 1][1:-1]
        new = []
        for n_, it_ in enumerate(items):
            if n_ and sep:
                new.append(sep)
            slots.append(it_)
            new += [("#%d" % (len(slots) - 1)) if x == marks[0] else x for x in inner]
        toks[i:j] = new
        changed = True
        i += len(new)
    if not changed:
        return text, slots
    return _renumber_slots(" ".join(" ".join(toks).split()), slots)


def _hoist_single_slot_reps(text, slots):
    """`#( #k )*` over it.map(|x| quote!(pre #X post)) with ONE interpolation X is `#( pre #k post )*` over it.map(|x| X): literal tokens around
    a single interpolated value are written in the repetition, the element is the value"""
    toks = text.split(" ")
    slots = list(slots)
    i = 0
    changed = False
    while i + 2 < len(toks):
        m = re.fullmatch(r"#(\d+)", toks[i + 1])
        if toks[i] == "#(" and m and toks[i + 2] == ")*" and toks.count(toks[i + 1]) == 1:
            st = slots[int(m.group(1))]
            if st[0] == "call" and st[1] == "Iterator::map" and len(st[2]) == 2 and st[2][1][0] == "closure" and st[2][1][3][0] == "tpl" \
                    and st[2][1][3][1] == "quote" and len(st[2][1][3][3]) == 1 and st[2][1][3][2].split(" ").count("#0") == 1 \
                    and "#(" not in st[2][1][3][2].split(" ") and st[2][1][3][2] != "#0":
                clo = st[2][1]
                inner = clo[3]
                val = inner[3][0]
                slots[int(m.group(1))] = st[2][0] if val == ("cparam", clo[1], 0) else ("call", "Iterator::map", [st[2][0], ("closure", clo[1], clo[2], val)])
                toks[i + 1:i + 2] = [toks[i + 1] if t_ == "#0" else t_ for t_ in inner[2].split(" ")]
                changed = True
        i += 1
    return (" ".join(toks), slots) if changed else (text, slots)


def _fold_rep_groups(text, slots):
    """`#( pre #k post )*` over `it.map(|x| quote!(body))` is `#( #k )*` over `it.map(|x| quote!(pre body post))`: the literal tokens of a
    repetition (without separator) belong to every element, wherever they are written"""
    toks = text.split(" ")
    slots = list(slots)
    i = 0
    while i < len(toks):
        if toks[i] != "#(":
            i += 1
            continue
        depth, j = 1, i + 1
        while j < len(toks) and depth:
            if toks[j] in _OPEN_TOK:
                depth += 1
            elif toks[j] in _CLOSE_TOK or _rep_close(toks[j]):
                depth -= 1
            j += 1
        inner = toks[i + 1:j - 1]
        marks = [x for x in inner if re.fullmatch(r"#\d+", x)]
        if depth == 0 and toks[j - 1] == ")*" and len(marks) == 1 and len(inner) > 1 and "#(" not in inner:
            k = int(marks[0][1:])
            st = slots[k]
            if st[0] == "call" and st[1] == "Iterator::map" and len(st[2]) == 2 and st[2][1][0] == "closure" and st[2][1][3][0] == "tpl" \
                    and st[2][1][3][1] == "quote":
                clo = st[2][1]
                tp = clo[3]
                body = " ".join(tp[2] if x == marks[0] else x for x in inner).strip()
                slots[k] = ("call", "Iterator::map", [st[2][0], ("closure", clo[1], clo[2], ("tpl", "quote", " ".join(body.split()), tp[3]))])
                toks[i + 1:j - 1] = [marks[0]]
                i += 3
                continue
        i += 1
    return " ".join(toks), slots


def _plain_flag(x):
    """a condition that is a plain place (parameter, captured variable, loop element, field of one) or its negation: reading it cannot fail
    or act. Returns a sort key that does not depend on how the root is written (`elem(it)` in a loop is `C1_0` in the closure), or None"""
    neg = 0
    if x[0] == "op" and x[1] == "Not" and len(x[2]) == 1:
        x, neg = x[2][0], 1
    path = []
    while x[0] == "field":
        path.append(str(x[2]))
        x = x[1]
    if x[0] == "param":
        return (0, x[1], tuple(reversed(path)), neg)
    if x[0] in ("cparam", "elem"):
        return (1, 0, tuple(reversed(path)), neg)
    return None


def _mk_then(c, v):
    """`c.then(|| v)`; a conjunction of plain flags is written in one order (their evaluation order cannot be observed)"""
    parts = _conj(c)
    if len(parts) > 1 and all(_plain_flag(x) is not None for x in parts):
        parts = sorted(parts, key=_plain_flag)
        c = parts[-1]
        for x in reversed(parts[:-1]):
            c = ("op", "&&", [x, c])
    return ("call", "then", [c, v])


def _then_norm(c, v):
    """`c.then(|| v)` as the result of a function: one conjunction (right-nested); `let Some(_) = X` followed by uses of its payload
    is `X?` at those uses"""
    parts = _conj(c)
    i = 0
    while i < len(parts) and not _NO_TAIL_TRY:
        x = parts[i]
        if x[0] == "iflet" and re.fullmatch(r"(v1|Option)::Some\(\$\)", x[1]):
            payload = ("proj", x[2], x[1].split("(")[0], "0")
            rest = parts[i + 1:] + [v]
            if any(n == payload for r in rest for n in subterms(r, closures=False)):
                tr = ("try", x[2])
                sub = (lambda n: tr if n == payload else None)
                parts = parts[:i] + [rewrite(r, sub) for r in parts[i + 1:]]
                v = rewrite(v, sub)
                continue
        i += 1
    uniq = []
    for x in parts:
        if x not in uniq and x != ("lit", True):
            uniq.append(x)
    parts = uniq
    if not parts:
        return ("call", "Some", [v])
    c = parts[-1]
    for x in reversed(parts[:-1]):
        c = ("op", "&&", [x, c])
    return ("call", "then", [c, v])


def _then_merge(t):
    """the result of an Option-valued function: nested `if c { None } else { .. }` / `c.then(|| v)` / `x.filter(p)?` chains are one
    `conditions.then(|| value)`"""
    def is_then(x):
        return x[0] == "call" and x[1] == "then" and len(x[2]) == 2
    if t[0] == "if":
        a, b = _then_merge(t[2]), _then_merge(t[3])
        if a == _NONE and is_then(b):
            return _then_norm(("op", "&&", [_not(t[1]), b[2][0]]), b[2][1])
        if b == _NONE and is_then(a):
            return _then_norm(("op", "&&", [t[1], a[2][0]]), a[2][1])
        if b == _NONE and not _NO_TAIL_TRY:
            # if let Some(_) = X && c(payload) { v(payload) } else { None }   ==   if c(X?) { v(X?) } else { None }
            n = _then_norm(t[1], a)
            if n[0] == "call" and n[1] == "then":
                if n[2][0] != t[1] or n[2][1] != a:
                    return _mk_if(n[2][0], n[2][1], _NONE)
            elif n[0] == "call" and n[1] == "Some":
                return n[2][0]
        if a is not t[2] or b is not t[3]:
            return _mk_if(t[1], a, b)
        return t
    if is_then(t):
        c, v = t[2]
        v = _float(v)
        while v[0] == "early" and v[1] and all(val == ("ret", _NONE) and g != ("lit", "match") for g, val in v[1]):
            for g, _val in v[1]:
                c = ("op", "&&", [c, _not(g)])
            v = v[2]
        return _then_norm(c, v)
    return t


_GENERIC_PARAM = re.compile(r"(?:impl [\w:<>, ]+?|[A-Za-z_]\w*)/#(\d+)")


def _map_strings(t, f):
    """the term with f applied to every string atom (names, patterns, type strings)"""
    if isinstance(t, str):
        return f(t)
    if isinstance(t, tuple):
        return tuple(_map_strings(x, f) for x in t)
    if isinstance(t, list):
        return [_map_strings(x, f) for x in t]
    if isinstance(t, dict):
        return {k: _map_strings(v, f) for k, v in t.items()}
    return t


_TO_STRING = ("From::from", "Into::into", "ToOwned::to_owned", "ToString::to_string", "String::from", "str::to_string", "str::to_owned", "Clone::clone",
              "str::to_string", "String::clone")


_TEXT_TYPES = ("str", "char", "std::string::String", "alloc::string::String")
_INT_TYPES = ("u8", "u16", "u32", "u64", "u128", "usize", "i8", "i16", "i32", "i64", "i128", "isize")


def _is_string_conv(e, arg):
    """the call converts a piece of text (&str / String / char) into a String"""
    if peel_ty(e.get("ty", "")) not in ("std::string::String", "alloc::string::String"):
        return False
    at = peel_ty(strip(arg).get("ty", "") if isinstance(arg, dict) else "")
    at2 = peel_ty(arg.get("ty", "")) if isinstance(arg, dict) else ""
    return at in _TEXT_TYPES or at2 in _TEXT_TYPES


def _is_int_widening(e, arg):
    """`T::from(x)` / `x.into()` between integer types: the lossless conversion, i.e. `x as T`"""
    if peel_ty(e.get("ty", "")) not in _INT_TYPES:
        return False
    at = peel_ty(strip(arg).get("ty", "") if isinstance(arg, dict) else "")
    return at in _INT_TYPES


def _string_builder(t):
    """a String assembled by pushes is the text of its pieces:  String::new() / "..".to_string() / x.to_string() followed by push(c) /
    push_str(x) / insert_str(0, x)   ==   format!("..{}..", x);   when every push sits under one and the same `if c`, the value is
    `if c { <that text> } else { <the initial text> }`"""
    init, effs = t[2], t[3]
    parts = []
    if init[0] == "call" and init[1] in ("String::new", "Default::default") and not init[2]:
        pass
    elif init[0] == "lit" and isinstance(init[1], str):
        parts.append(("lit", init[1]))
    elif init[0] == "fmt":
        parts.extend(init[1])
    elif effs and all(e[0] == "mutcall" and e[1] in _STR_EDITS for e in effs):
        parts.append(("arg", "", init))         # any other String value followed by pushes
    else:
        return t
    if not effs:
        return t
    guards = [tuple(e[-1]) for e in effs]
    common = bool(guards[0]) and all(g == guards[0] for g in guards) and len(guards[0]) == 1 and guards[0][0][:3] == ("guard", "if", True)
    if any(guards) and not common:
        # pieces pushed under their own `if`s: each is the piece or nothing
        if any(g[:2] not in (("guard", "if"), ("guard", "arm")) for gs in guards for g in gs) \
                or any(e[0] != "mutcall" or e[1] not in ("String::push", "String::push_str") for e in effs):
            return t
        for e in effs:
            if len(e[3]) != 1 or e[2] != "":
                return t
            x = e[3][0]
            piece = [("lit", x[1])] if x[0] == "lit" and isinstance(x[1], str) else list(x[1]) if x[0] == "fmt" else [("arg", "", x)]
            if e[-1]:
                c = None
                for g in e[-1]:
                    if g[1] == "arm":
                        k = _let(g[3], g[2])            # pushed in the arm of a match: pushed when the pattern matches
                    else:
                        k = g[3] if g[2] else _not(g[3])
                    c = k if c is None else ("op", "&&", [c, k])
                val = ("lit", piece[0][1]) if len(piece) == 1 and piece[0][0] == "lit" else x if piece == [("arg", "", x)] else ("fmt", piece)
                piece = [("arg", "", _mk_if(c, val, ("lit", "")))]
            parts.extend(piece)
        # a piece pushed when c holds followed by a piece pushed when it does not: one piece chosen by c
        EMPTY = ("lit", "")
        k = 0
        while k + 1 < len(parts):
            a_, b_ = parts[k], parts[k + 1]
            if a_[0] == "arg" and b_[0] == "arg" and a_[2][0] == "if" and b_[2][0] == "if" and a_[2][1] == b_[2][1] \
                    and a_[2][3] == EMPTY and b_[2][2] == EMPTY and not _has_try(a_[2][1]):
                parts[k:k + 2] = [("arg", "", _mk_if(a_[2][1], a_[2][2], b_[2][3]))]
            elif a_[0] == "arg" and b_[0] == "arg" and a_[2][0] == "if" and b_[2][0] == "if" and a_[2][1] == b_[2][1] \
                    and a_[2][2] == EMPTY and b_[2][3] == EMPTY and not _has_try(a_[2][1]):
                parts[k:k + 2] = [("arg", "", _mk_if(a_[2][1], b_[2][2], a_[2][3]))]
            else:
                k += 1
        merged = []
        for p_ in parts:
            if p_[0] == "lit" and merged and merged[-1][0] == "lit":
                merged[-1] = ("lit", merged[-1][1] + p_[1])
            else:
                merged.append(p_)
        if len(merged) == 1 and merged[0][0] == "arg" and merged[0][1] in ("", "new_display"):
            return merged[0][2]          # a String that received one piece is that piece's text
        return ("fmt", merged)
    for e in effs:
        if not (e[0] == "mutcall" and e[1] in _STR_EDITS and e[2] == ""):
            return t
        if e[1] == "String::insert_str" or e[1] == "String::insert":
            if not (len(e[3]) == 2 and e[3][0] == ("lit", "0")):
                return t
            x, front = e[3][1], True
        else:
            if len(e[3]) != 1:
                return t
            x, front = e[3][0], False
        new = [("lit", x[1])] if x[0] == "lit" and isinstance(x[1], str) else list(x[1]) if x[0] == "fmt" else [("arg", "", x)]
        parts = new + parts if front else parts + new
    merged = []
    for p in parts:
        if p[0] == "arg" and p[2][0] == "fmt":
            sub = list(p[2][1])
        else:
            sub = [p]
        for q_ in sub:
            if q_[0] == "lit" and merged and merged[-1][0] == "lit":
                merged[-1] = ("lit", merged[-1][1] + q_[1])
            else:
                merged.append(q_)
    r = ("fmt", merged)
    if len(merged) == 1 and merged[0][0] == "arg" and merged[0][1] in ("", "new_display") and not guards[0]:
        return merged[0][2]              # a String that received one piece is that piece's text
    if guards[0]:
        return _mk_if(guards[0][0][3], r, init)
    return r


_STR_EDITS = ("String::push", "String::push_str", "String::insert_str", "String::insert")


def _canon_match_free(scr, arms):
    return Norm._canon_match(_FREE, scr, arms)


def _hole(t):
    """(context, inner): inner is the sub-term in the only strictly evaluated position of t that holds a `return` of this function"""
    if t[0] == "call":
        lazy = _LAZY_ARGS.get(t[1], ())
        idx = [i for i, a in enumerate(t[2]) if _has_ret(a)]
        if len(idx) == 1 and idx[0] not in lazy and t[1] not in ("then", "search"):
            i = idx[0]
            return (lambda x: ("call", t[1], list(t[2][:i]) + [x] + list(t[2][i + 1:]))), t[2][i]
    elif t[0] == "field":
        return (lambda x: ("field", x, t[2])), t[1]
    elif t[0] == "proj":
        return (lambda x: ("proj", x, t[2], t[3])), t[1]
    elif t[0] == "try":
        return (lambda x: ("try", x)), t[1]
    return None


def _push_ctor(t):
    """as the result of a function, a strict context around a match with returning arms moves into the other arms:
         f(match x { A => a, B => return v })          ==   match x { A => f(a), B => v }
         f(match x { A => { if c { return v } a } })    ==   match x { A => if c { v } else { f(a) } }"""
    if not _has_ret(t):
        return t
    ctxs, inner = [], t
    while True:
        h = _hole(inner)
        if h is None:
            break
        ctxs.append(h[0])
        inner = h[1]
    if not ctxs:
        return t

    def K(x):
        for c in reversed(ctxs):
            x = c(x)
        return x

    def arm(b):
        if _rets(b):
            return _unreturn(b)
        if b[0] == "early" and all(v[0] == "ret" and c != ("lit", "match") for c, v in b[1]):
            return _ret_chain(list(b[1]), K(b[2]))
        if _diverges(b):
            return b
        if _has_ret(b):
            return None
        return K(b)
    if inner[0] == "match" and all(g is None for _p, g, _b in inner[2]):
        arms = [(p, g, arm(b)) for p, g, b in inner[2]]
        if all(b is not None for _p, _g, b in arms):
            return _canon_match_free(inner[1], arms)
    if inner[0] == "early":
        r = arm(inner)
        if r is not None:
            return r
    return t


def _reduce_applied(t):
    """after a helper's function-valued parameters were replaced by the arguments: `(f)(x)` with f a function named at the call is the call
    `f(x)`, with f a closure written at the call it is the closure's body"""
    def red(n):
        if n[0] == "call" and n[1] == "@call" and n[2]:
            f, args = n[2][0], n[2][1:]
            if f[0] == "def":
                return ("call", f[1], list(args))
            if f[0] == "closure" and f[2] == len(args):
                d = f[1]

                def beta(x):
                    if x[0] == "cparam":
                        if x[1] == d:
                            return args[x[2]] if x[2] < len(args) else None
                        if x[1] > d:
                            return ("cparam", x[1] - 1, x[2])
                    if x[0] == "closure" and x[1] > d:
                        return ("closure", x[1] - 1, x[2], x[3])
                    return None
                return _shadow_safe(f[3], d, beta)
        return None
    return rewrite(t, red)


def _untry_option(t):
    """value of an Option-returning helper whose term uses `x?`: each `x?` (innermost first, in order of occurrence) becomes the condition
    `let Some(_) = x` with the payload in its place; the value is `conditions.then(|| v)` for `Some(v)`, else `if conditions { t } else { None }`.
    A `?` inside a closure of the helper whose operand mentions that closure's own parameter belongs to the closure and stays."""
    conds = []
    for _round in range(12):
        own = []        # (try node) candidates, pre-order

        def visit(x, bound):
            if x[0] == "closure":
                visit(x[3], bound | {x[1]})
                return
            if x[0] == "try":
                inner_try = any(y[0] == "try" for y in subterms(x[1]))
                local = any(y[0] == "cparam" and y[1] in bound for y in subterms(x[1]))
                if not inner_try and not local and x not in own:
                    own.append(x)
            for c in _direct_children(x):
                visit(c, bound)
        visit(t, frozenset())
        if not own:
            break
        x = own[0]
        conds.append(_let("v1::Some($)", x[1]))
        payload = _proj_some(x[1])
        t = rewrite(t, lambda n, x=x, payload=payload: payload if n == x else None)
    if not conds:
        return t
    c = conds[-1]
    for k in reversed(conds[:-1]):
        c = ("op", "&&", [k, c])
    if t[0] == "call" and t[1] == "Some" and len(t[2]) == 1:
        return ("call", "then", [c, t[2][0]])
    return _mk_if(c, t, _NONE)


def _has_ret(t):
    """a `return` that belongs to the function the term is the body of (not to a closure inside it)"""
    return any(x[0] == "ret" for x in subterms(t, closures=False))


def _subterms_outside_closures(t):
    stack = [t]
    while stack:
        x = stack.pop()
        yield x
        if x[0] == "closure":
            continue
        for c in _direct_children(x):
            stack.append(c)


def _direct_children(t):
    k = t[0]
    if k in ("field", "proj", "elem", "try", "rest", "ret", "break", "repeat"):
        return [t[1]]
    if k == "for":
        return [t[1], t[2]]
    if k == "seq":
        return list(t[1]) + [t[2]]
    if k == "call":
        return list(t[2])
    if k == "closure":
        return [t[3]]
    if k == "struct":
        return list(t[3].values()) if t[3] else []
    if k in ("tup", "array"):
        return list(t[1])
    if k == "mut":
        out = [t[2]]
        for e in t[3]:
            for x in e[:-1]:
                if isinstance(x, tuple) and x and isinstance(x[0], str) and x[0] in _KINDS:
                    out.append(x)
                elif isinstance(x, list):
                    out.extend(y for y in x if isinstance(y, tuple))
        return out
    if k == "match":
        out = [t[1]]
        for p, g, b in t[2]:
            if g:
                out.append(g)
            out.append(b)
        return out
    if k == "if":
        return [t[1], t[2], t[3]]
    if k in ("iflet", "iflet-not"):
        return [t[2]]
    if k == "early":
        out = []
        for c, v in t[1]:
            out.extend([c, v])
        return out + [t[2]]
    if k == "tpl":
        return list(t[3])
    if k == "fmt":
        return [p[2] for p in t[1] if p[0] == "arg"]
    if k == "op":
        return list(t[2])
    if k == "cast":
        return [t[2]]
    if k == "index":
        return [t[1], t[2]]
    if k == "rindex":
        return [t[1]]
    return []


def _float(t, top=False):
    """effects of a `{s; v}` in a strictly evaluated position (argument, operand, scrutinee, condition) move to the enclosing
    sequence: `f(a, {s; v})` is `{s; f(a, v)}`. Conditionally evaluated positions (branches, loop bodies, closure bodies,
    right operands of && / ||, lazily evaluated arguments) keep their effects."""
    def lift(n):
        k = n[0]
        effs = []
        if k == "call" and n[1] == "Ok" and len(n[2]) == 1 and (n[2][0][0] == "try" or (n[2][0][0] == "if" and _tail_try(n[2][0]))):
            return _mk_ok(n[2][0])

        def take(x, lazy=False):
            if x[0] == "seq" and not lazy:
                effs.extend(x[1])
                return take(x[2])
            if x[0] == "early" and not lazy and all(_diverges(v) for _c, v in x[1]):
                # f(.. if c { return d } v ..)  leaves before f is applied:  the guard clause moves out, f applies to v
                effs.append(("earlymark", x[1]))
                return take(x[2])
            return x
        if k == "call":
            lazy = _LAZY_ARGS.get(n[1], ())
            r = (k, n[1], [take(a, i in lazy) for i, a in enumerate(n[2])])
        elif k in ("tup", "array"):
            r = (k, [take(a) for a in n[1]])
        elif k == "struct":
            r = (k, n[1], n[2], {f: take(v) for f, v in n[3].items()})
        elif k == "tpl":
            r = (k, n[1], n[2], [take(a) for a in n[3]])          # interpolated expressions are evaluated before the tokens are built
        elif k in ("try", "elem", "ret"):
            inner = take(n[1])
            if k == "try" and inner[0] == "call" and inner[1] in ("Ok", "Some") and len(inner[2]) == 1:
                r = inner[2][0]                 # Ok(x)? is x
                if not effs:
                    return r
            elif k == "try" and inner[0] == "if" and _tail_ok(inner):
                r = _mk_try(inner)
                if not effs:
                    return r
            elif k == "try" and inner[0] == "call" and inner[1] == "then" and len(inner[2]) == 2:
                effs.append(("earlymark", [(_not(inner[2][0]), ("ret", _NONE))]))       # c.then(|| v)?  ==  if !c { return None }  v
                r = inner[2][1]
            else:
                r = (k, inner)
        elif k == "field":
            r = (k, take(n[1]), n[2])
        elif k == "proj":
            r = (k, take(n[1]), n[2], n[3])
        elif k == "op":
            ops = list(n[2])
            if ops:
                ops[0] = take(ops[0])
                if n[1] not in ("&&", "||"):
                    ops[1:] = [take(x) for x in ops[1:]]
            r = (k, n[1], ops)
        elif k == "if":
            r = (k, take(n[1]), n[2], n[3])
        elif k == "match":
            r = (k, take(n[1]), n[2])
        elif k == "for":
            r = (k, take(n[1]), n[2])
        elif k == "seq":
            flat = []
            for x in n[1]:
                if x[0] == "seq":
                    flat.extend(x[1])
                    if x[2] != ("lit", "()"):
                        flat.append(x[2])
                else:
                    flat.append(x)
            tail = n[2]
            if tail[0] == "seq":
                flat.extend(tail[1])
                tail = tail[2]
            uniq = []
            for x in flat:
                if x not in uniq:          # one statement substituted at several uses is still one statement
                    uniq.append(x)
            if not uniq:
                return tail
            return ("seq", uniq, tail)
        else:
            return None
        if not effs:
            return None
        uniq = []
        for x in effs:
            if x not in uniq:
                uniq.append(x)
        # rebuild from the inside out: plain effects form a sequence, guard clauses wrap what follows them
        res = r
        pending = []
        for x in reversed(uniq):
            if x[0] == "earlymark":
                if pending:
                    res = ("seq", list(reversed(pending)), res)
                    pending = []
                res = ("early", list(x[1]), res)
            else:
                pending.append(x)
        if pending:
            res = ("seq", list(reversed(pending)), res)
        return lift(res) or res
    out = rewrite(t, lift)
    return _finish_returns(out, top)


def _not(c):
    if c[0] == "op" and c[1] == "Not" and len(c[2]) == 1:
        return c[2][0]
    if c[0] == "iflet-not":
        return ("iflet", c[1], c[2])
    if c[0] == "iflet":
        return ("iflet-not", c[1], c[2])
    if c[0] == "op" and c[1] in ("==", "!=") and len(c[2]) == 2:
        return ("op", "!=" if c[1] == "==" else "==", c[2])
    if c[0] == "op" and c[1] in ("&&", "||") and len(c[2]) == 2:
        return ("op", "||" if c[1] == "&&" else "&&", [_not(c[2][0]), _not(c[2][1])])      # De Morgan
    return ("op", "Not", [c])


def _mk_try(x):
    """Ok(a)? is a;  (if c { Ok(a) } else { y })?  is  if c { a } else { y? }"""
    if x[0] == "call" and x[1] in ("Ok", "Some") and len(x[2]) == 1:
        return x[2][0]
    if x[0] == "if" and (_tail_ok(x[2]) or _tail_ok(x[3])):
        return _mk_if_raw(x[1], _mk_try(x[2]), _mk_try(x[3]))
    if x[0] == "call" and x[1] == "Err" and len(x[2]) == 1:
        return ("ret", x)            # Err(e)?  leaves the function with the error (up to the error conversion)
    if x[0] == "match" and len(x[2]) == 2 and all(g is None for _p, g, _b in x[2]):
        # (match r { Ok(v) => Ok(X(v)), Err(e) => Err(e) })?  ==  X(r?)     (r.map(f)?  ==  f(r?))
        arms = {p: b for p, _g, b in x[2]}
        okb, erb = arms.get("v1::Ok($)"), arms.get("v1::Err($)")
        r = x[1]
        if okb is not None and erb == ("call", "Err", [("proj", r, "v1::Err", "0")]) and okb[0] == "call" and okb[1] == "Ok" and len(okb[2]) == 1:
            okv = ("proj", r, "v1::Ok", "0")
            X = okb[2][0]
            n_use = sum(1 for y in subterms(X) if y == okv)
            if n_use == 1 and not any(y == r for y in subterms(rewrite(X, lambda n: ("lit", "()") if n == okv else None))):
                return rewrite(X, lambda n: ("try", r) if n == okv else None)
    if x[0] == "match" and all(g is None for _p, g, _b in x[2]) and any(_tail_ok(b) or (b[0] == "call" and b[1] == "Err" and len(b[2]) == 1) for _p, _g, b in x[2]):
        # (match v { A => fallible, B => Ok(b), C => Err(e) })?   ==   match v { A => fallible?, B => b, C => return Err(e) }
        return ("match", x[1], [(p, g, b if _diverges(b) else _mk_try(b)) for p, g, b in x[2]])
    return ("try", x)


def _tail_ok(x):
    return (x[0] == "call" and x[1] in ("Ok", "Some") and len(x[2]) == 1) or (x[0] == "if" and (_tail_ok(x[2]) or _tail_ok(x[3])))


def _mk_ok(x):
    """Ok(x?) is x up to the error conversion; Ok(if c { a } else { b? }) is if c { Ok(a) } else { b }"""
    if x[0] == "try":
        return x[1]
    if x[0] == "if" and (_tail_try(x[2]) or _tail_try(x[3])):
        return ("if", x[1], _mk_ok(x[2]), _mk_ok(x[3]))
    return ("call", "Ok", [x])


def _tail_try(x):
    return x[0] == "try" or (x[0] == "if" and (_tail_try(x[2]) or _tail_try(x[3])))


def _negs(c):
    """number of negated leaves of a condition built from && / ||"""
    if c[0] == "op" and c[1] in ("&&", "||"):
        return sum(_negs(x) for x in c[2])
    return 1 if (c[0] == "op" and c[1] == "Not") or c[0] == "iflet-not" else 0


def _distribute_field(b, i):
    """(match x { A => (p, q), B => (r, s) }).0  ==  match x { A => p, B => r }     (likewise for if / else; diverging arms stay)"""
    def comp(t):
        if t[0] == "tup" and i < len(t[1]):
            return t[1][i]
        if t[0] == "opaque" and t[1] == "diverge" or t[0] in ("ret", "break") or t == ("continue",):
            return t
        if t[0] in ("match", "if"):
            return _distribute_field(t, i)
        return None
    if b[0] == "match":
        arms = [(p, g, comp(bt)) for p, g, bt in b[2]]
        if any(x is None for _p, _g, x in arms) or not any(bt[0] == "tup" for _p, _g, bt in b[2]):
            return None
        return ("match", b[1], arms)
    if b[0] == "if":
        t, e = comp(b[2]), comp(b[3])
        if t is None or e is None:
            return None
        return _mk_if(b[1], t, e)
    return None


def _assume(t, facts):
    """t where the conditions in `facts` (shown strings of atomic conditions) are known to hold: conjuncts that are known drop out of nested
    `if` conditions (closures are not entered: they may run later, under other conditions for impure facts - conservative)"""
    def simp(c):
        if c[0] == "op" and c[1] == "&&" and len(c[2]) == 2:
            a, b = simp(c[2][0]), simp(c[2][1])
            if a is True:
                return b
            if b is True:
                return a
            return ("op", "&&", [a, b])
        return True if _show(c) in facts else c

    def go(x):
        if x[0] == "closure":
            return x
        if x[0] == "if":
            c = simp(x[1])
            if c is True:
                return go(x[2])
            if c is x[1]:
                return ("if", c, go(x[2]), go(x[3]))
            return _mk_if_raw(c, go(x[2]), go(x[3]))          # a shortened condition goes through the identities again (Not -> swap, ..)
        if x[0] == "call":
            return ("call", x[1], [go(a) for a in x[2]])
        if x[0] == "struct" and x[3]:
            return ("struct", x[1], x[2], {k: go(v) for k, v in x[3].items()})
        if x[0] in ("tup", "array"):
            return (x[0], [go(a) for a in x[1]])
        return x
    return go(t)


def _dedupe_conj(c):
    """a && (a && b)  is  a && b  for a condition `a` that only reads (no `?`, no effects): asked twice, e.g. by the caller and again by a helper"""
    if not (c[0] == "op" and c[1] == "&&"):
        return c
    parts = _conj(c)
    uniq = []
    dup = False
    for x in parts:
        if x in uniq and not any(y[0] in ("try", "mut", "seq", "for", "early", "ret") for y in subterms(x)):
            dup = True
            continue
        uniq.append(x)
    if not dup:
        return c
    r = uniq[-1]
    for x in reversed(uniq[:-1]):
        r = ("op", "&&", [x, r])
    return r


def _mk_if_raw(c, t, e):
    """if c {t} else {e} with the boolean identities applied"""
    c = _dedupe_conj(c)
    if c[0] in ("iflet", "op") and t[0] in ("if", "call", "struct", "tup"):
        facts = {_show(x) for x in _conj(c) if x[0] == "iflet" or (x[0] == "op" and x[1] not in ("&&", "||"))}
        if facts and any(f in _show(t) for f in facts):
            t = _assume(t, facts)
    if c[0] == "op" and c[1] == "Not" and len(c[2]) == 1:
        return _mk_if_raw(c[2][0], e, t)
    if c[0] == "iflet-not":
        return _mk_if_raw(("iflet", c[1], c[2]), e, t)
    if c[0] == "op" and c[1] in ("&&", "||"):
        nc = _not(c)
        if _negs(nc) < _negs(c):
            return _mk_if_raw(nc, e, t)         # if !a && !b { t } else { e }  ==  if a || b { e } else { t }
    if c[0] == "op" and c[1] == "!=" and len(c[2]) == 2 and not _diverges(t) and not _diverges(e):
        return _mk_if_raw(("op", "==", c[2]), e, t)
    if c[0] == "iflet" and c[1] in ("v1::Some($)", "Option::Some($)") and e[0] == "ret" and not _diverges(t):
        # if let Some(v) = X { f(v) } else { return Err(e) }   ==   f(X.ok_or(e)?)        (likewise `else { return None }` and `X?`)
        payload = ("proj", c[2], c[1].split("(")[0], "0")
        tr = None
        if e[1][0] == "call" and e[1][1] == "Err" and len(e[1][2]) == 1:
            tr = ("try", ("call", "ok_or", [c[2], e[1][2][0]]))
        elif e[1] == ("def", "v1::None"):
            tr = ("try", c[2])
        if tr is not None and any(x == payload for x in subterms(t)):
            return rewrite(t, lambda n: tr if n == payload else None)
    if _diverges(e) and not _diverges(t) and not _is_unit(t):
        return ("early", [(_not(c), e)], t)          # `if c { v } else { return .. }` is a guard clause followed by v
    if _diverges(t) and not _diverges(e) and not _is_unit(e):
        return ("early", [(c, t)], e)
    if t[0] == "if" and t[3] == e and not _diverges(e):
        return _mk_if_raw(("op", "&&", [c, t[1]]), t[2], e)          # if a { if b { x } else { y } } else { y }  ==  if a && b { x } else { y }
    if t[0] == "if" and t[2] == e and not _diverges(e):
        return _mk_if_raw(("op", "&&", [c, _not(t[1])]), t[3], e)    # if a { if b { y } else { x } } else { y }  ==  if a && !b { x } else { y }
    if e[0] == "if" and e[2] == t and not _diverges(t):
        return _mk_if_raw(("op", "||", [c, e[1]]), t, e[3])          # if a { y } else { if b { y } else { x } }  ==  if a || b { y } else { x }
    if t[0] == "try" and e[0] == "try":
        return ("try", _mk_if_raw(c, t[1], e[1]))                    # if c { x? } else { y? }  ==  (if c { x } else { y })?
    if t[0] == "struct" and e[0] == "struct" and t[1] == e[1] and t[2] == e[2] and t[3] is not None and e[3] is not None and set(t[3]) == set(e[3]):
        # if c { S { a: x1, b: y } } else { S { a: x2, b: y } }  ==  S { a: if c { x1 } else { x2 }, b: y }
        return ("struct", t[1], t[2], {f: (t[3][f] if t[3][f] == e[3][f] else _mk_if_raw(c, t[3][f], e[3][f])) for f in t[3]})
    if c[0] == "op" and c[1] == "==" and len(c[2]) == 2 and c[2][1] == ("lit", "1") and c[2][0][0] == "call" and c[2][0][1] == "slice::len":
        # a list of one element joined with any separator is that element: under `len == 1`, xs[0] is xs.join(sep)
        for j_ in [x for x in subterms(e) if x[0] == "call" and x[1] == "slice::join" and len(x[2]) == 2]:
            xs = j_[2][0]
            if _renorm_call(("call", "slice::len", [xs])) == c[2][0]:
                idx = ("index", xs, ("lit", "0"))
                if any(x == idx for x in subterms(t)):
                    t = rewrite(t, lambda n: j_ if n == idx else None)
                    break
    if (t[0] == "fmt") != (e[0] == "fmt") or (t[0] == "fmt" and e[0] == "fmt"):
        # text with a common beginning / end: if c { A } else { format!("{A}{B}") }  ==  format!("{A}{}", if c { "" } else { B })
        def parts(x):
            ps = list(x[1]) if x[0] == "fmt" else [("lit", x[1])] if x[0] == "lit" and isinstance(x[1], str) else [("arg", "", x)]
            return [("arg", "", p_[2]) if p_[0] == "arg" and p_[1] in ("", "new_display") else p_ for p_ in ps]     # `{}` however the piece got there
        pt, pe = parts(t), parts(e)
        i = 0
        while i < min(len(pt), len(pe)) and pt[i] == pe[i]:
            i += 1
        j = 0
        while j < min(len(pt), len(pe)) - i and pt[len(pt) - 1 - j] == pe[len(pe) - 1 - j]:
            j += 1
        mt, me = pt[i:len(pt) - j], pe[i:len(pe) - j]
        tail_lit = None
        if len(mt) == 1 and len(me) == 1 and mt[0][0] == "lit" and me[0][0] == "lit" and j == 0 and i:
            # the literal texts that differ may still end alike: ",)" / ")" is "," / "" followed by ")"
            a_, b_ = mt[0][1], me[0][1]
            k_ = 0
            while k_ < min(len(a_), len(b_)) and a_[len(a_) - 1 - k_] == b_[len(b_) - 1 - k_]:
                k_ += 1
            if k_ and (k_ == len(a_) or k_ == len(b_)):
                tail_lit = ("lit", a_[len(a_) - k_:])
                mt = [("lit", a_[:len(a_) - k_])] if len(a_) > k_ else []
                me = [("lit", b_[:len(b_) - k_])] if len(b_) > k_ else []
        if (i or j or tail_lit) and (not mt or not me) and (mt or me):
            def text(ps):
                if not ps:
                    return ("lit", "")
                if len(ps) == 1 and ps[0][0] == "lit":
                    return ("lit", ps[0][1])
                if len(ps) == 1 and ps[0][0] == "arg" and ps[0][1] == "":
                    return ps[0][2]
                return ("fmt", ps)
            mid = _mk_if_raw(c, text(mt), text(me))
            return ("fmt", pt[:i] + [("arg", "", mid)] + ([tail_lit] if tail_lit else []) + (pt[len(pt) - j:] if j else []))
    if t == ("lit", True) and e == ("lit", False):
        return c
    if t == ("lit", False) and e == ("lit", True):
        return _not(c)
    if t == e and t[0] == "lit":
        return t
    if e == ("lit", False):
        return ("op", "&&", [c, t])
    if e == ("lit", True):
        return ("op", "||", [_not(c), t])
    if t == ("def", "v1::None") and e[0] == "call" and e[1] == "Some" and len(e[2]) == 1:
        return _mk_then(_not(c), e[2][0])
    if e == ("def", "v1::None") and t[0] == "call" and t[1] == "Some" and len(t[2]) == 1:
        return _mk_then(c, t[2][0])
    if e == ("def", "v1::None") and t[0] == "call" and t[1] == "then" and len(t[2]) == 2:
        return _mk_then(("op", "&&", [c, t[2][0]]), t[2][1])          # if c { d.then(|| v) } else { None }  ==  (c && d).then(|| v)
    if t == ("def", "v1::None") and e[0] == "call" and e[1] == "then" and len(e[2]) == 2:
        return _mk_then(("op", "&&", [_not(c), e[2][0]]), e[2][1])
    if t[0] == "call" and e[0] == "call" and t[1] == e[1] and len(t[2]) == len(e[2]) and t[1] not in ("then", "ok_or"):
        # if c { f(x, a) } else { f(x, b) }  ==  f(x, if c { a } else { b })
        diff = [i for i, (a, b) in enumerate(zip(t[2], e[2])) if a != b]
        if len(diff) == 1:
            i = diff[0]
            args = list(t[2])
            args[i] = _mk_if_raw(c, t[2][i], e[2][i])
            if t[1] == "Ok" and len(args) == 1:
                return _mk_ok(args[0])
            return ("call", t[1], args)
    return ("if", c, t, e)



def _is_empty_atom(c):
    return c[0] == "call" and c[1].endswith("::is_empty") and len(c[2]) == 1 and _plain_place(c[2][0])


def _plain_place(x):
    while x[0] in ("field", "proj"):
        x = x[1]
    return x[0] == "param"


def _redecide(x, known):
    """x with its decision tables decided again under what the enclosing branch establishes (known: shown atom -> (atom, value))"""
    key = next(iter(known))
    xs = _show(known[key][0][2][0])
    if "Iterator::all(" + xs + "," not in _show(x):
        return x

    def fn(n):
        if n[0] in ("if", "early") and not _DECIDING[0]:
            d = _decide(n, known)
            if d is not None and d != n:
                return d
        return None
    return rewrite(x, fn)


def _mk_if(c, t, e):
    """if c {t} else {e}: boolean identities (_mk_if_raw), then the decision normal form for decision tables (_decide)"""
    if not _DECIDING[0]:
        # what is asked about a list of a parameter holds in the whole branch: tables further in are decided with that knowledge
        a, pol = (c[2][0], False) if c[0] == "op" and c[1] == "Not" and len(c[2]) == 1 else (c, True)
        if _is_empty_atom(a):
            k = _show(a)
            t = _redecide(t, {k: (a, pol)})
            e = _redecide(e, {k: (a, not pol)})
    r = _mk_if_raw(c, t, e)
    if r[0] in ("if", "early") and not _DECIDING[0]:
        d = _decide(r)
        if d is not None:
            return d
    return r


_DECIDING = [False]


def _cond_atoms(c, out):
    if c[0] == "op" and c[1] in ("&&", "||") and len(c[2]) == 2:
        _cond_atoms(c[2][0], out)
        _cond_atoms(c[2][1], out)
    elif c[0] == "op" and c[1] == "Not" and len(c[2]) == 1:
        _cond_atoms(c[2][0], out)
    elif c[0] == "iflet-not":
        out.append(("iflet", c[1], c[2]))
    elif c[0] == "op" and c[1] == "!=" and len(c[2]) == 2:
        out.append(("op", "==", c[2]))
    else:
        out.append(c)


def _atoms_of(c):
    out = []
    _cond_atoms(c, out)
    return out


def _cond_eval(c, asg):
    if c[0] == "op" and c[1] == "&&" and len(c[2]) == 2:
        return _cond_eval(c[2][0], asg) and _cond_eval(c[2][1], asg)
    if c[0] == "op" and c[1] == "||" and len(c[2]) == 2:
        return _cond_eval(c[2][0], asg) or _cond_eval(c[2][1], asg)
    if c[0] == "op" and c[1] == "Not" and len(c[2]) == 1:
        return not _cond_eval(c[2][0], asg)
    if c[0] == "iflet-not":
        return not asg[_show(("iflet", c[1], c[2]))]
    if c[0] == "op" and c[1] == "!=" and len(c[2]) == 2:
        return not asg[_show(("op", "==", c[2]))]
    return asg[_show(c)]


def _exclusions(atoms):
    """what is known about the atoms of a table among themselves: for A = xs.all(p), B = xs.all(!p), E = xs.is_empty():  A && B  only if E, and E
    implies A and B. Returns a predicate over assignments (name -> bool) that is true for assignments no input can produce."""
    rel = []
    names = list(atoms)
    for a in names:
        ta = atoms[a]
        if not (ta[0] == "call" and ta[1] == "Iterator::all" and len(ta[2]) == 2 and ta[2][1][0] == "closure"):
            continue
        for b in names:
            tb = atoms[b]
            if b <= a or not (tb[0] == "call" and tb[1] == "Iterator::all" and len(tb[2]) == 2 and tb[2][1][0] == "closure"):
                continue
            if ta[2][0] != tb[2][0] or ta[2][1][1:3] != tb[2][1][1:3] or _not(ta[2][1][3]) != tb[2][1][3] and _not(tb[2][1][3]) != ta[2][1][3]:
                continue
            for e in names:
                te = atoms[e]
                if te[0] == "call" and te[1].endswith("::is_empty") and len(te[2]) == 1 and te[2][0] == ta[2][0]:
                    rel.append((a, b, e))
    if not rel:
        return None

    def impossible(asg):
        for a, b, e in rel:
            if asg[a] and asg[b] and not asg[e]:
                return True
            if asg[e] and not (asg[a] and asg[b]):
                return True
        return False
    return impossible


_WILD = ("sym", "\x00any")


def _decide(t, known=None):
    """An if / else tree that is a decision TABLE - the same pure condition is asked in more than one place (`if a && b {..} else if
    a {..} else if b {..} else {..}`, guard clauses over `!a && !b`, ..) - is written as the reduced decision tree over its atomic
    conditions in a fixed (alphabetical) order. `match (a, b) { (true, true) => .., .. }` takes the same form (_decide_table)."""
    conds = []

    def peel(x):
        # Ok(if c { a } else { b }) is if c { Ok(a) } else { Ok(b) } (the factored form is rebuilt by _mk_if_raw)
        while x[0] == "call" and x[1] in ("Ok", "Some", "Err") and len(x[2]) == 1 and x[2][0][0] == "if":
            i = x[2][0]
            x = ("if", i[1], ("call", x[1], [i[2]]), ("call", x[1], [i[3]]))
        return x

    def spine(x):
        x = peel(x)
        if x[0] == "if":
            conds.append(x[1])
            spine(x[2])
            spine(x[3])
        elif x[0] == "early" and x[1] and not any(c == ("lit", "match") for c, _v in x[1]):
            for c, _v in x[1]:
                conds.append(c)         # `if c { return .. }` before the value is a branch of the table as well
            spine(x[2])
    spine(t)
    if len(conds) < 2:
        return None
    occ = []
    for c in conds:
        a = []
        _cond_atoms(c, a)
        occ.append({_show(x): x for x in a})
    atoms = {}
    for o in occ:
        atoms.update(o)
    fixed = {}
    for k, (term, val) in (known or {}).items():
        if k not in atoms:
            atoms[k] = term
        fixed[k] = val
    free = [k for k in atoms if k not in fixed]
    impossible = _exclusions(atoms)
    if not (2 <= len(free) <= (4 if impossible is not None else 3)) and not (fixed and 1 <= len(free) <= 3):
        return None
    if not any(sum(1 for o in occ if k in o) >= 2 for k in atoms) and impossible is None:
        return None                     # every condition asked once: a plain else-if chain, left as written
    if fixed and impossible is None:
        return None
    if any(x[0] in ("try", "seq", "early", "ret", "mut", "for") for a in atoms.values() for x in subterms(a)):
        return None                     # conditions that can leave the function or have effects are not reordered

    def leaf(x, asg):
        while True:
            x = peel(x)
            if x[0] == "if":
                x = x[2] if _cond_eval(x[1], asg) else x[3]
            elif x[0] == "early" and x[1] and all(all(_show(a) in asg for a in _atoms_of(c)) for c, _v in x[1] if c != ("lit", "match")) \
                    and not any(c == ("lit", "match") for c, _v in x[1]):
                # guard clauses over the same conditions are decided as well
                hit = next((v for c, v in x[1] if _cond_eval(c, asg)), None)
                if hit is not None:
                    return hit
                x = x[2]
            else:
                return x
    # the order of the questions is the one with the fewest tests (ties: alphabetical), so that the table does not depend on how
    # it was written and a plain `if a {..} else if b {..} else {..}` chain stays a chain
    memo = {}

    def leaf_of(asg):
        k = tuple(sorted(asg.items()))
        if k not in memo:
            full = dict(asg)
            full.update(fixed)
            memo[k] = _WILD if impossible is not None and impossible(full) else leaf(t, full)
        return memo[k]

    def size(order, i, asg):
        if i == len(order):
            return 0, leaf_of(asg)
        a = dict(asg); a[order[i]] = True
        nt, tb = size(order, i + 1, a)
        a = dict(asg); a[order[i]] = False
        ne, eb = size(order, i + 1, a)
        if tb == eb or eb == _WILD:
            return nt, tb
        if tb == _WILD:
            return ne, eb
        return 1 + nt + ne, ("?", order[i], tb, eb)
    import itertools
    names = min((list(o) for o in itertools.permutations(sorted(free))), key=lambda o: (size(o, 0, {})[0], o))
    r = _decide_table(names, atoms, leaf_of)
    return None if r == _WILD else r


def _decide_table(names, atoms, leaf_of):
    def build(i, asg):
        if i == len(names):
            return leaf_of(asg)
        a = dict(asg)
        a[names[i]] = True
        tb = build(i + 1, a)
        a = dict(asg)
        a[names[i]] = False
        eb = build(i + 1, a)
        if tb == eb or eb == _WILD:
            return tb
        if tb == _WILD:
            return eb
        return _mk_if_raw(atoms[names[i]], tb, eb)
    _DECIDING[0] = True
    try:
        return build(0, {})
    finally:
        _DECIDING[0] = False


_LEN_PRESERVING = ("Iterator::map", "Iterator::enumerate", "Iterator::collect", "Iterator::rev", "Iterator::cloned", "Iterator::copied")


def _renorm_call(n):
    """a call whose arguments were just substituted: it.map(f).map(g) is it.map(g . f); the length of a mapped / enumerated / collected
    sequence is the length of the sequence"""
    name, args = n[1], n[2]
    if name == "Iterator::map" and len(args) == 2 and args[1][0] == "closure" and args[1][2] == 1 and args[0][0] == "call" and args[0][1] == "Iterator::map" \
            and len(args[0][2]) == 2 and args[0][2][1][0] == "closure" and args[0][2][1][2] == 1:
        f, g = args[0][2][1], args[1]
        return ("call", "Iterator::map", [args[0][2][0], ("closure", g[1], 1, _shadow_safe(g[3], g[1], lambda x: _apply(f, ("cparam", g[1], 0)) if x == ("cparam", g[1], 0) else None))])
    if name == "Option::map" and len(args) == 2 and args[1][0] == "closure" and args[1][2] == 1:
        if args[0][0] == "call" and args[0][1] == "Some" and len(args[0][2]) == 1:
            return ("call", "Some", [_apply(args[1], args[0][2][0])])
        if args[0] == ("def", "v1::None"):
            return args[0]
    if name in ("slice::len", "slice::is_empty") and len(args) == 1:
        base = args[0]
        while True:
            if base[0] == "try" and base[1][0] == "call" and base[1][1] == "Iterator::collect":
                base = base[1]            # the list that `collect::<Result<Vec<_>, _>>()?` yields has one element per element of what was collected
            elif base[0] == "call" and base[1] in _LEN_PRESERVING and base[2] and not (base[1] == "Iterator::collect" and base[2][0][0] == "try"):
                base = base[2][0]
            else:
                break
        if base is not args[0]:
            return ("call", name, [base])
    return n


def rewrite(t, fn):
    """rebuild a term bottom-up; fn(node) -> replacement or None"""
    k = t[0]
    if k in ("field",):
        b = rewrite(t[1], fn)
        if b[0] == "tup" and str(t[2]).isdigit() and int(t[2]) < len(b[1]):
            return b[1][int(t[2])]          # (a, b).0  ==  a   (a component that is already rewritten: fn is not applied to it a second time)
        elif b[0] == "struct" and isinstance(b[3], dict) and t[2] in b[3]:
            return b[3][t[2]]               # S { f: a, .. }.f  ==  a
        else:
            n = (k, b, t[2])
    elif k == "proj":
        n = (k, rewrite(t[1], fn), t[2], t[3])
    elif k in ("elem", "try", "rest", "ret", "break", "repeat"):
        n = (k, rewrite(t[1], fn))
    elif k == "for":
        n = (k, rewrite(t[1], fn), rewrite(t[2], fn))
    elif k == "seq":
        n = (k, [rewrite(x, fn) for x in t[1]], rewrite(t[2], fn))
    elif k == "call":
        n = (k, t[1], [rewrite(a, fn) for a in t[2]])
        if t[1] == "then" and len(n[2]) == 2 and n[2][0] != t[2][0]:
            n = _mk_then(n[2][0], n[2][1])          # the order of plain flags is decided on what is substituted
        elif n[2] != t[2]:
            n = _renorm_call(n)                     # adaptors meeting adaptors only after an argument was put in place
    elif k == "closure":
        n = (k, t[1], t[2], rewrite(t[3], fn))
    elif k == "struct":
        n = (k, t[1], t[2], {f: rewrite(v, fn) for f, v in t[3].items()})
    elif k in ("tup", "array"):
        n = (k, [rewrite(a, fn) for a in t[1]])
    elif k == "mut":
        effs = []
        for e in t[3]:
            e2 = []
            for x in e:
                if isinstance(x, tuple) and x and isinstance(x[0], str) and x[0] in _KINDS:
                    e2.append(rewrite(x, fn))
                elif isinstance(x, list):
                    e2.append([rewrite(y, fn) for y in x])
                else:
                    e2.append(x)
            effs.append(tuple(e2))
        n = (k, t[1], rewrite(t[2], fn), effs)
        if t[2][0] == "param" and n[2] != t[2] and len(effs) == 1 and effs[0][0] == "assign" and len(effs[0]) == 4 and effs[0][1] == "" and not effs[0][3]:
            # a by-value `mut` parameter that is reassigned once, with the argument put in its place:  { p = v(p) }  at p := a  is  v(a)
            init = n[2]
            n = rewrite(effs[0][2], lambda x: init if x == ("sym", "<self>") else None)
    elif k == "guard":
        if t[1] == "if":
            n = (k, "if", t[2], rewrite(t[3], fn))
        elif t[1] == "arm":
            n = (k, "arm", rewrite(t[2], fn), t[3])
        elif t[1] == "for":
            n = (k, "for", rewrite(t[2], fn))
        else:
            n = t
    elif k == "match":
        n = (k, rewrite(t[1], fn), [(p, rewrite(g, fn) if g else g, rewrite(b, fn)) for p, g, b in t[2]])
    elif k == "if":
        n = (k, rewrite(t[1], fn), rewrite(t[2], fn), rewrite(t[3], fn))
    elif k in ("iflet", "iflet-not"):
        n = (k, t[1], rewrite(t[2], fn))
    elif k == "early":
        n = (k, [(rewrite(c, fn), rewrite(v, fn)) for c, v in t[1]], rewrite(t[2], fn))
    elif k == "tpl":
        n = (k, t[1], t[2], [rewrite(a, fn) for a in t[3]])
        if n[3] != t[3]:
            n = _renorm_tpl(n)
    elif k == "fmt":
        n = (k, [p if p[0] == "lit" else (p[0], p[1], rewrite(p[2], fn)) for p in t[1]])
        if any(p[0] == "arg" and p[2][0] == "lit" and isinstance(p[2][1], str) and str(p[1]).strip(" {}:") in ("", "new_display") for p in n[1]):
            # a string literal that came to stand in a `{}` is part of the text
            parts = []
            for p in n[1]:
                q_ = ("lit", p[2][1]) if p[0] == "arg" and p[2][0] == "lit" and isinstance(p[2][1], str) and str(p[1]).strip(" {}:") in ("", "new_display") else p
                if q_[0] == "lit" and parts and parts[-1][0] == "lit":
                    parts[-1] = ("lit", parts[-1][1] + q_[1])
                else:
                    parts.append(q_)
            n = (k, parts)
        if any(p[0] == "arg" and p[2][0] == "fmt" and str(p[1]).strip(" {}:") in ("", "new_display") for p in n[1]):
            # the text of a format! that came to stand in a `{}` of another stands in its place
            parts = []
            for p in n[1]:
                for q_ in (p[2][1] if p[0] == "arg" and p[2][0] == "fmt" and str(p[1]).strip(" {}:") in ("", "new_display") else [p]):
                    if q_[0] == "lit" and parts and parts[-1][0] == "lit":
                        parts[-1] = ("lit", parts[-1][1] + q_[1])
                    else:
                        parts.append(q_)
            n = (k, parts)
    elif k == "op":
        n = (k, t[1], [rewrite(a, fn) for a in t[2]])
    elif k == "cast":
        n = (k, t[1], rewrite(t[2], fn))
    elif k == "index":
        n = (k, rewrite(t[1], fn), rewrite(t[2], fn))
    elif k == "rindex":
        n = (k, rewrite(t[1], fn), t[2])
    else:
        n = t
    r = fn(n)
    return n if r is None else r


class Norm:
    def __init__(self, body, syms=None, program=None, keep=None, _stack=()):
        self.body = body
        self.program = program if program is not None else DEFAULT_PROGRAM
        self.keep = keep if keep is not None else DEFAULT_KEEP
        self._stack = _stack + (body.get("path"),)
        self._cur_depth = 0
        self.call_depth = {}
        fb = body.get("body")
        while isinstance(fb, dict) and fb.get("k") in ("DropTemps", "Use"):
            fb = fb["e"]
        self._fn_block = fb if isinstance(fb, dict) else None
        self._strip_early = set()
        self._clock = 0
        self.seq, self.seq_done, self.loops_at, self._loop_stack, self.guards_at = {}, {}, {}, [], {}
        self._loop_blocks = set()      # bodies of `for` loops: `continue` leaves exactly that block
        self._ret_blocks = set()      # blocks whose value is the value of the fn / closure: `return v` there is just the value v
        _mark_tail(fb, self._ret_blocks)
        self.def_ctx = {}    # local id -> (closure depth, guards) at its `let`
        self.defs = {}       # local id -> binding record
        self.mut = set()     # ids declared `mut` or by-ref-mut
        self.closure_depth = {}
        self.effects = {}    # local id -> [(node, kind)] ordered
        self.syms = dict(syms or {})
        self.closure_src = {}   # closure def -> (adaptor short name, receiver/first-arg node)
        self._memo = {}
        self._busy = set()
        for i, p in enumerate(body.get("params", [])):
            self._bind_pat(p, ("param", i), ())
        self._index(body["body"], 0)

    # -------------------------------------------------------------- indexing ----
    def _bind_pat(self, p, origin, path):
        k = p.get("k")
        if k == "Bind":
            self.defs[p["id"]] = (origin, path, p)
            if p.get("mut"):
                self.mut.add(p["id"])
            if "sub" in p:
                self._bind_pat(p["sub"], origin, path)
        elif k in ("PRef", "PBox", "PDeref"):
            self._bind_pat(p["p"], origin, path)
        elif k == "PTuple":
            dd = p.get("dotdot")
            for i, q in enumerate(p["ps"]):
                self._bind_pat(q, origin, path + (("tuple", i if dd is None or i < dd else ("rev", len(p["ps"]) - i)),))
        elif k == "PTupleStruct":
            v = cshort(p.get("path", "?"))
            for i, q in enumerate(p["ps"]):
                self._bind_pat(q, origin, path + ((("tuple", i) if _is_struct_pat(p) else ("variant", v, str(i))),))
        elif k == "PStruct":
            v = cshort(p.get("path", "?"))
            for f in p["fields"]:
                # destructuring a plain struct is field access; only enum variants need the `@Variant.field` projection
                self._bind_pat(f["p"], origin, path + ((("sfield", f["name"]) if _is_struct_pat(p) else ("variant", v, f["name"])),))
        elif k == "Or":
            for q in p["ps"]:
                self._bind_pat(q, origin, path)
        elif k == "PSlice":
            for i, q in enumerate(p["before"]):
                self._bind_pat(q, origin, path + (("index", i),))
            if "mid" in p:
                self._bind_pat(p["mid"], origin, path + (("rest",),))
            for i, q in enumerate(p["after"]):
                self._bind_pat(q, origin, path + (("rindex", len(p["after"]) - i),))
        elif k == "PGuard":
            self._bind_pat(p["p"], origin, path)

    def _index(self, n, depth, guards=()):
        """source-order numbering around the structural indexing: an effect applies to a use only if it is finished before
        the use starts, or if both sit in the same loop"""
        if not isinstance(n, dict):
            return
        self._clock += 1
        self.seq[id(n)] = self._clock
        is_loop = n.get("k") == "Loop" or (n.get("k") == "Match" and n.get("src") == "ForLoopDesugar")
        if is_loop:
            self._loop_stack.append(id(n))
        self.loops_at[id(n)] = tuple(self._loop_stack)
        self.guards_at[id(n)] = guards
        try:
            self._index0(n, depth, guards)
        finally:
            if is_loop:
                self._loop_stack.pop()
            self._clock += 1
            self.seq_done[id(n)] = self._clock

    def _index0(self, n, depth, guards=()):
        if not isinstance(n, dict):
            return
        k = n.get("k")
        if k in ("Call", "MethodCall") or (k == "Path" and n.get("r") == "def" and n.get("dk") in ("Fn", "AssocFn")):
            self.call_depth[id(n)] = depth
        if k is None and "stmts" in n:
            # statements after `if c { continue }` / `let PAT = X else { continue }` run under the complementary condition
            g = guards
            for st in n["stmts"]:
                self._index(st, depth, g)
                cg = _exit_guard(st)
                if cg is not None:
                    g = g + (cg,)
            if "expr" in n:
                self._index(n["expr"], depth, g)
            return
        if k == "SLet":
            if n["pat"].get("k") == "Bind":
                self.def_ctx[n["pat"]["id"]] = (depth, guards)
            if "init" in n:
                self._bind_pat(n["pat"], ("let", n["init"]), ())
            else:
                self._bind_pat(n["pat"], ("uninit",), ())
        elif k == "Let":
            self._bind_pat(n["pat"], ("let", n["init"]), ())
        elif k == "Match":
            fl = as_for_loop(n)
            if fl is not None:
                pat, it, body = fl
                self._bind_pat(pat, ("elem", it), ())
                # the hidden `iter` binding
                self._bind_pat(n["arms"][0]["pat"], ("let", n["scrut"]), ())
                lb = body
                while isinstance(lb, dict) and lb.get("k") in ("DropTemps", "Use"):
                    lb = lb["e"]
                self._loop_blocks.add(id(lb))
                self._index(n["scrut"], depth, guards)
                self._index(body, depth, guards + (("for", it, body),))
                return
            elif n["src"].startswith("TryDesugar"):
                pass
            else:
                self._index(n["scrut"], depth, guards)
                for a in n["arms"]:
                    self._bind_pat(a["pat"], ("let", n["scrut"]), ())
                    g2 = guards + (("arm", n["scrut"], pat_repr(a["pat"])),)
                    if "guard" in a:
                        self._index(a["guard"], depth, g2)
                        g2 = g2 + (("if", a["guard"], True),)
                    self._index(a["body"], depth, g2)
                return
        elif k == "If":
            self._index(n["cond"], depth, guards)
            self._index(n["then"], depth, guards + (("if", n["cond"], True),))
            if "else" in n:
                self._index(n["else"], depth, guards + (("if", n["cond"], False),))
            return
        elif k == "Closure":
            cb = n["body"]
            while isinstance(cb, dict) and cb.get("k") in ("DropTemps", "Use"):
                cb = cb["e"]
            _mark_tail(cb, self._ret_blocks)
            self.closure_depth[n["def"]] = depth + 1
            for i, p in enumerate(n["params"]):
                self._bind_pat(p, ("cparam", depth + 1, i, n["def"]), ())
                for x in walk(p):
                    if x.get("k") == "Bind":
                        self.def_ctx[x["id"]] = (depth + 1, guards + (("closure", n["def"]),))
            self._index(n["body"], depth + 1, guards + (("closure", n["def"]),))
            return
        elif k == "Assign":
            lid = _root_local(n["l"])
            if lid is not None:
                self.effects.setdefault(lid, []).append((n, "assign", guards))
        elif k == "AssignOp":
            lid = _root_local(n["l"])
            if lid is not None:
                self.effects.setdefault(lid, []).append((n, "assignop", guards))
        elif k == "Call":
            for i, a in enumerate(n["args"]):
                a2 = a
                while isinstance(a2, dict) and a2.get("k") in ("DropTemps", "Use"):
                    a2 = a2["e"]
                if isinstance(a2, dict) and a2.get("k") == "AddrOf" and a2.get("mut"):
                    lid = _root_local(a2["e"])
                    if lid is not None:
                        self.effects.setdefault(lid, []).append((n, "mutarg:%d" % i, guards))
        elif k == "MethodCall":
            recv = n["recv"]
            for a in n["args"]:
                a2 = strip(a)
                if isinstance(a2, dict) and a2.get("k") == "Closure":
                    self.closure_src[a2["def"]] = (cshort(n.get("callee", n["name"])), recv)
            adj = recv.get("adj") or recv.get("ty", "")
            if adj.startswith("&mut ") or recv.get("ty", "").startswith("&mut "):
                lid = _root_local(recv)
                if lid is not None:
                    self.effects.setdefault(lid, []).append((n, "mutcall", guards))
            for i, a in enumerate(n["args"]):
                a2 = a
                while isinstance(a2, dict) and a2.get("k") in ("DropTemps", "Use"):
                    a2 = a2["e"]
                if isinstance(a2, dict) and a2.get("k") == "AddrOf" and a2.get("mut"):
                    lid = _root_local(a2["e"])
                    if lid is not None:
                        self.effects.setdefault(lid, []).append((n, "mutarg:%d" % (i + 1), guards))
        for c in children(n):
            self._index(c, depth, guards)

    ELEMENTWISE = ("Iterator::find", "Iterator::map", "Iterator::filter", "Iterator::any", "Iterator::all", "Iterator::position", "Iterator::for_each",
                   "Iterator::filter_map", "Iterator::find_map", "Iterator::flat_map", "Iterator::take_while", "Iterator::skip_while", "Iterator::inspect")

    def elemize(self, t, node):
        """closure parameters of the element-wise iterator adaptors enclosing `node`, rendered as `elem(<receiver>)`:
        the same element as in the for-loop form"""
        def path_to(root, target):
            if root is target:
                return [root]
            for c in children(root):
                if isinstance(c, dict):
                    p = path_to(c, target)
                    if p is not None:
                        return [root] + p
            return None
        path = path_to(self.body["body"], node) or []
        by_depth = {}
        for x in path:
            if x.get("k") == "Closure" and x.get("def") in self.closure_src:
                adaptor, recv = self.closure_src[x["def"]]
                if adaptor in self.ELEMENTWISE:
                    by_depth[self.closure_depth.get(x["def"])] = recv

        def sub(n):
            if n[0] == "cparam" and n[2] == 0 and n[1] in by_depth:
                return _elem_of(self._t(by_depth[n[1]]))[1]
            return None
        return rewrite(t, sub)

    def guard_terms(self, guards):
        """guards as terms (so that substitution, e.g. when a helper is inlined, reaches them): ("guard", kind, ..)"""
        out = []
        for g in guards:
            if g[0] == "if":
                out.append(("guard", "if", bool(g[2]), self._cond_value(self._t(g[1]))))
            elif g[0] == "arm":
                out.append(("guard", "arm", self._t(g[1]), g[2]))
            elif g[0] == "for":
                out.append(("guard", "for", self._t(g[1])))
            elif g[0] == "closure":
                out.append(("guard", "closure"))
        return out

    def _cond_value(self, t):
        """a condition under which something happens: where evaluating the condition leaves the function, the thing does not
        happen, so diverging arms of a boolean match count as false"""
        if t[0] == "match" and any(_diverges(b) for _p, _g, b in t[2]) and all(g is None for _p, g, _b in t[2]):
            return self._canon_match(t[1], [(p, g, ("lit", False) if _diverges(b) else b) for p, g, b in t[2]])
        return t

    def guards_term(self, guards):
        out = []
        for g in guards:
            if g[0] == "if":
                out.append(("" if g[2] else "!") + show(self._cond_value(self._t(g[1]))))
            elif g[0] == "arm":
                out.append(show(self._t(g[1])) + "~" + g[2])
            elif g[0] == "for":
                out.append("for(" + show(self._t(g[1])) + ")")
            elif g[0] == "closure":
                out.append("closure")
        return out

    # ------------------------------------------------------------------ terms ----
    def term(self, e, syms=None):
        if syms:
            old = self.syms
            self.syms = dict(old)
            self.syms.update(syms)
            memo = self._memo
            self._memo = {}
            try:
                return _float(self._t(e), e is self.body.get("body"))
            finally:
                self.syms = old
                self._memo = memo
        return _float(self._t(e), e is self.body.get("body"))

    def _applies(self, eff_node, use):
        shared_loop = bool(set(self.loops_at.get(id(eff_node), ())) & set(self.loops_at.get(id(use), ())))
        sd, su = self.seq_done.get(id(eff_node)), self.seq.get(id(use))
        if sd is not None and su is not None and sd >= su and not shared_loop:
            return False                     # the effect happens after the read
        if not shared_loop:
            # different branches of the same `if` / arms of the same `match` exclude each other
            ge, gu = self.guards_at.get(id(eff_node), ()), self.guards_at.get(id(use), ())
            for a, b in zip(ge, gu):
                if a is b or a == b:
                    continue
                if a[0] == "if" and b[0] == "if" and a[1] is b[1] and a[2] != b[2]:
                    return False
                if a[0] == "arm" and b[0] == "arm" and a[1] is b[1] and a[2] != b[2]:
                    return False
                break
        return True

    def local_term(self, lid, at=None):
        """term of a local; with `at` (the node that reads it) only the effects that can have happened before that read count"""
        if lid in self.syms:
            return ("sym", self.syms[lid])
        all_effs = self.effects.get(lid, [])
        if at is not None and all_effs:
            sel = [x for x in all_effs if self._applies(x[0], at)]
        else:
            sel = list(all_effs)
        mkey = lid if len(sel) == len(all_effs) else (lid, tuple(id(x[0]) for x in sel))
        if mkey in self._memo:
            return self._memo[mkey]
        if lid in self._busy:
            return ("sym", "<self>")
        rec = self.defs.get(lid)
        if rec is None:
            return ("opaque", "unbound#%d" % lid)
        origin, path, pat = rec
        self._busy.add(lid)
        try:
            o = origin[0]
            if o == "param":
                base = ("param", origin[1])
            elif o == "cparam":
                base = ("cparam", origin[1], origin[2])
            elif o == "let":
                base = self._t(origin[1])
                if id(origin[1]) in self._strip_early and base[0] == "early":
                    base = base[2]          # its guard clauses were emitted by the enclosing block
            elif o == "elem":
                base = ("elem", self._t(origin[1]))
            else:
                base = ("opaque", o)
            t = self._project(base, path)
            effs = sel
            if effs and (lid in self.mut or any(k in ("assign", "assignop") for _, k, _g in effs)):
                per_field = self._struct_by_fields(lid, pat, t, effs, origin)
                if per_field is not None:
                    t = per_field
                else:
                    et, inlined_any = self._effect_tuples(lid, effs)
                    et = self._join_effects(lid, et)
                    t = ("mut", pat.get("name", "?"), t, et) if inlined_any else self._canon_mut(lid, ("mut", pat.get("name", "?"), t, et), effs, origin)
                if t[0] == "mut":
                    t = _string_builder(t)
                if t[0] == "mut" and t[3]:
                    # every effect under one and the same `if c` / `if let`: the value is  if c { mut[init; effects] } else { init }
                    gs = [tuple(e_[-1]) for e_ in t[3]]
                    if gs[0] and all(g == gs[0] for g in gs) and all(g[1] in ("if", "arm") for g in gs[0]) \
                            and not any(x[0] == "sym" and x[1] == "<self>" for x in subterms(("tup", [g for g in gs[0]]))):
                        cond = None
                        for g in gs[0]:
                            c1 = (g[3] if g[2] else _not(g[3])) if g[1] == "if" else _let(g[3], g[2])
                            cond = c1 if cond is None else ("op", "&&", [cond, c1])
                        bare = ("mut", t[1], t[2], [tuple(list(e_[:-1]) + [[]]) for e_ in t[3]])
                        t = _mk_if(cond, bare, t[2])
        finally:
            self._busy.discard(lid)
        self._memo[mkey] = t
        return t

    def _adaptor(self, name, recv, clo):
        """map / filter / filter_map of `recv` with a one-parameter closure, in the canonical form of adaptor chains: maps compose, filters come
        before maps, a filter before a filter_map is part of it, `filter_map(|x| c.then(|| v))` is `filter(c).map(v)`"""
        d = clo[1]
        if recv[0] == "call" and recv[1] in ("Iterator::map", "Iterator::filter") and len(recv[2]) == 2 and recv[2][1][0] == "closure" \
                and recv[2][1][2] == 1 and recv[2][1][1] == d:
            base, inner = recv[2]
            if recv[1] == "Iterator::map" and name in ("Iterator::map", "Iterator::filter_map"):
                return self._adaptor(name, base, _compose(clo, inner))                              # it.map(f).map(g) == it.map(g . f)
            if recv[1] == "Iterator::map" and name == "Iterator::filter":
                return self._adaptor("Iterator::map", self._adaptor("Iterator::filter", base, _compose(clo, inner)), inner)     # it.map(f).filter(p) == it.filter(p . f).map(f)
            if recv[1] == "Iterator::filter" and name == "Iterator::filter_map":
                return self._adaptor(name, base, ("closure", d, 1, _mk_if(inner[3], clo[3], ("def", "v1::None"))))      # it.filter(p).filter_map(g)
            if recv[1] == "Iterator::filter" and name == "Iterator::filter":
                return self._adaptor(name, base, ("closure", d, 1, ("op", "&&", [inner[3], clo[3]])))
        if name == "Iterator::filter_map" and clo[3][0] == "call" and clo[3][1] == "then" and len(clo[3][2]) == 2:
            return ("call", "Iterator::map", [("call", "Iterator::filter", [recv, ("closure", d, 1, clo[3][2][0])]), ("closure", d, 1, clo[3][2][1])])
        return ("call", name, [recv, clo])

    def _struct_by_fields(self, lid, pat, init, effs, origin):
        """a struct local that is only ever changed field by field (`let mut r = S::default(); r.a.push(x); r.b.insert(y); r`) is the struct
        literal of its fields' values, each field with its own effects: `S { a: <a's value>, b: <b's value> }`"""
        if self.program is None or getattr(self, "_field_view", None) is not None:
            return None
        ty = peel_ty(pat.get("ty", "")).split("<")[0]
        adt = None
        for c in self.program.crates.values():
            for pth, a in getattr(c, "adts", {}).items():
                if a.get("kind") == "struct" and (pth == ty or pth.endswith("::" + ty) or (pth.split("::", 1)[-1] == ty)):
                    adt = a
        if adt is None or not adt.get("variants") or not effs:
            return None
        names = [f["name"] for f in adt["variants"][0]["fields"]]
        if init[0] == "struct" and init[3] is not None and ".." not in init[3]:
            inits = dict(init[3])
        elif init[0] == "call" and init[1] == "Default::default" and not init[2]:
            inits = {f: ("call", "Default::default", []) for f in names}
        else:
            return None
        if set(inits) != set(names):
            return None
        groups = {}
        for n, k, g in effs:
            tgt = n.get("recv") if k == "mutcall" else n.get("l") if k in ("assign", "assignop") else None
            if tgt is None:
                return None
            pth = self._lhs_path(tgt)
            head = pth.split(".")[0] if pth else ""
            if head not in names:
                return None
            groups.setdefault(head, []).append((n, k, g))
        out = {}
        for f in names:
            if f not in groups:
                out[f] = inits[f]
                continue
            self._field_view = f
            try:
                et, inl = self._effect_tuples(lid, groups[f])
                et = self._join_effects(lid, et)
                ft = ("mut", f, inits[f], et) if inl else self._canon_mut(lid, ("mut", f, inits[f], et), groups[f], origin)
            finally:
                self._field_view = None
            out[f] = ft
        return ("struct", adt["path"].split("::", 1)[-1] if adt["path"].count("::") else adt["path"], "", out)

    def _collected(self, it, x, d):
        """`for e in it { v.push(x) }` as a value: it.map(|e| x).collect()  (with `?` hoisted out of the closure)"""
        hoist = False
        if x[0] == "try":
            x, hoist = x[1], True
        elif _has_try(x):
            x, hoist = ("call", "Ok", [x]), True
        # an element of `s.map(f)` is f of an element of s (whatever the nesting depth the adaptor's closure was written at)
        def fuse(n):
            if n[0] == "elem" and n[1][0] == "call" and n[1][1] == "Iterator::map" and len(n[1][2]) == 2 and n[1][2][1][0] == "closure" and n[1][2][1][2] == 1:
                return _apply(n[1][2][1], rewrite(("elem", n[1][2][0]), fuse))
            return None
        if it[0] == "call" and it[1] == "Iterator::map":
            x = rewrite(x, fuse)
            it = _elem_of(it)[0]
        sub = _elem_to_param(it, d)
        r = ("call", "Iterator::collect", [("call", "Iterator::map", [it, ("closure", d, 1, rewrite(x, sub))])])
        return ("try", r) if hoist else r

    def _join_effects(self, lid, et):
        """a separator loop over a String is one push of the joined pieces:
             for x in it { s.push_str(f(x)); if <not the last one> { s.push(SEP) } }     (peekable `while let` loops arrive in this shape)
             for (i, x) in it.enumerate() { if i > 0 { s.push(SEP) }  s.push_str(f(x)) }
           ==  s.push_str(&it.map(f).collect::<Vec<_>>().join(SEP))
           `if <not last> || C` with a loop-invariant C adds  `if C && !it.is_empty() { s.push(SEP) }`  after the joined text"""
        depth = self.def_ctx.get(lid, (0, ()))[0]
        d = depth + 1
        PUSH = ("String::push", "String::push_str")

        def is_push(e, guards_len):
            return e[0] == "mutcall" and e[1] in PUSH and e[2] == "" and len(e[3]) == 1 and len(e[-1]) == guards_len

        def sep_test(e):
            # the `if <another one follows / this is not the first>` test of a separator
            # (the position handed out by enumerate(), or a look at the next element - not any use of the enumerated element)
            return len(e[-1]) == 2 and any((x[0] == "call" and x[1] == "loop::peek_next")
                                           or (x[0] == "field" and x[2] == "0" and x[1][0] == "elem" and x[1][1][0] == "call" and x[1][1][1] == "Iterator::enumerate")
                                           for x in subterms(e[-1][1][3]))

        # several pushes per element (some of them conditional) are one push of their text
        merged, i = [], 0
        while i < len(et):
            a = et[i]
            if a[0] == "mutcall" and a[1] in PUSH and a[2] == "" and len(a[3]) == 1 and a[-1] and a[-1][0][:2] == ("guard", "for") and len(a[-1]) <= 2 \
                    and not sep_test(a):
                run, j = [a], i + 1
                while j < len(et) and et[j][0] == "mutcall" and et[j][1] in PUSH and et[j][2] == "" and len(et[j][3]) == 1 and et[j][-1] \
                        and et[j][-1][0] == a[-1][0] and len(et[j][-1]) <= 2 and not sep_test(et[j]):
                    run.append(et[j])
                    j += 1
                if len(run) >= 2:
                    text = _string_builder(("mut", "?", ("call", "String::new", []), [tuple(list(e[:-1]) + [list(e[-1][1:])]) for e in run]))
                    if text[0] != "mut":
                        merged.append(("mutcall", "String::push_str", "", [text], [a[-1][0]]))
                        i = j
                        continue
            merged.append(a)
            i += 1
        et = merged

        def alone(a, b):
            # the separator and the piece are all that the loop does to the string: a third effect in the same loop would be torn from the
            # pieces it is emitted between
            return sum(1 for e in et if isinstance(e[-1], (list, tuple)) and len(e[-1]) and e[-1][0] == a[-1][0]) == 2 \
                if isinstance(a[-1], (list, tuple)) and len(a[-1]) else False
        out, i = [], 0
        while i < len(et):
            a = et[i]
            b = et[i + 1] if i + 1 < len(et) else None
            done = False
            if b is not None and not alone(a, b):
                b = None
            if b is not None and is_push(a, 1) and is_push(b, 2) and a[-1][0][:2] == ("guard", "for") and b[-1][0] == a[-1][0] \
                    and b[-1][1][:3] == ("guard", "if", True):
                it = a[-1][0][2]
                piece = a[3][0]
                nls = [_let("v1::Some($)", ("call", "loop::peek_next", [it]))]
                if it[0] == "call" and it[1] == "Iterator::enumerate" and len(it[2]) == 1:
                    # "not the last one" by position:  i + 1 != len,  i + 1 < len,  i != len - 1,  i < len - 1
                    en, it = it, it[2][0]
                    idx, ln = ("field", ("elem", en), "0"), ("call", "slice::len", [it])
                    one = ("lit", "1")
                    nls = [("op", o, [("op", "+", [idx, one]), ln]) for o in ("!=", "<")] + [("op", o, [idx, ("op", "-", [ln, one])]) for o in ("!=", "<")]
                    val = ("field", ("elem", en), "1")
                    piece = rewrite(piece, lambda n: ("elem", it) if n == val else None)
                    if any(x == ("elem", en) for x in subterms(piece)):
                        nls = []
                c = b[-1][1][3]
                extra = None
                if c[0] == "op" and c[1] == "||" and len(c[2]) == 2 and c[2][0] in nls and not any(x[0] == "elem" for x in subterms(c[2][1])):
                    c, extra = c[2][0], c[2][1]
                if c in nls and not any(x[0] == "call" and x[1] == "loop::peek_next" for x in subterms(piece)):
                    out.append(("mutcall", "String::push_str", "", [("call", "slice::join", [self._collected(it, piece, d), b[3][0]])], []))
                    if extra is not None:
                        nonempty = extra[0] == "op" and extra[1] == "==" and extra[2][0][0] == "call" and extra[2][0][1] == "slice::len" \
                            and extra[2][1][0] == "lit" and str(extra[2][1][1]).isdigit() and int(extra[2][1][1]) >= 1
                        cond = extra if nonempty else ("op", "&&", [extra, _not(("call", "slice::is_empty", [it]))])
                        out.append(("mutcall", b[1], "", [b[3][0]], [("guard", "if", True, cond)]))
                    i += 2
                    done = True
            if not done and b is not None and is_push(a, 2) and is_push(b, 1) and b[-1][0][:2] == ("guard", "for") and a[-1][0] == b[-1][0] \
                    and a[-1][1][:3] == ("guard", "if", True):
                en = b[-1][0][2]
                if en[0] == "call" and en[1] == "Iterator::enumerate" and len(en[2]) == 1:
                    it = en[2][0]
                    idx = ("field", ("elem", en), "0")
                    c = a[-1][1][3]
                    first = c in (("op", ">=", [idx, ("lit", "1")]), ("op", "!=", [idx, ("lit", "0")]), ("op", ">", [idx, ("lit", "0")]))
                    val = ("field", ("elem", en), "1")
                    body = rewrite(b[3][0], lambda n: ("elem", it) if n == val else None)
                    if first and not any(x == ("elem", en) for x in subterms(body)):
                        out.append(("mutcall", "String::push_str", "", [("call", "slice::join", [self._collected(it, body, d), a[3][0]])], []))
                        i += 2
                        done = True
            if not done:
                out.append(a)
                i += 1
        return out

    def _effect_tuples(self, lid, effs):
        """the recorded effects on a local as effect tuples (guards relative to its declaration); helper calls taking it by
        `&mut` contribute the helper's own effects when the helper is transparent"""
        et = []
        own = self.def_ctx.get(lid, (0, ()))[1] or ()
        inlined_any = False
        for node, kind, guards in effs:
            if guards[:len(own)] == own:
                guards = guards[len(own):]          # guards are relative to where the local is declared
            gt = self.guard_terms(guards)
            if kind == "assign":
                et.append(("assign", self._lhs_path(node["l"]), self._t(node["r"]), gt))
            elif kind == "assignop":
                et.append(("assignop", node["op"], self._lhs_path(node["l"]), self._t(node["r"]), gt))
            elif kind == "mutcall":
                args = [self._t(a) for a in node["args"]]
                et.append(("mutcall", cshort(node.get("callee", node["name"])), self._lhs_path(node["recv"]), args, gt))
            elif kind.startswith("mutarg"):
                pos = int(kind.split(":")[1])
                if node["k"] == "MethodCall":
                    allargs = [node["recv"]] + node["args"]
                else:
                    allargs = node["args"]
                args = [("sym", "&self") if i == pos else self._t(a) for i, a in enumerate(allargs)]
                inl = self._inline_out_param(node, pos, args, gt)
                if inl is not None:
                    et.extend(inl)
                    inlined_any = True
                else:
                    et.append(("mutarg", cshort(node.get("callee", node.get("name", "?"))), args, gt))
        return et, inlined_any

    def _token_builder(self, init, effs, rel, depth, origin):
        """let mut ts = TokenStream::new(); ts.extend(quote!(a)); for x in IT { x.to_tokens(&mut ts) }; ts   ==   quote!(a #( #xs )*)  with xs = IT:
        every append is a piece of one template; appends in a `for` loop are a repetition over the loop's iterator"""
        if init != ("tpl", "quote", "", []) or origin[0] != "let" or not effs:
            return None
        text, slots = [], []
        last_loop = None

        def piece_of(node, kind):
            if kind == "mutcall" and cshort(node.get("callee", "")) == "Extend::extend" and self._lhs_path(node["recv"]) == "" and len(node["args"]) == 1:
                return self._t(node["args"][0])
            if kind.startswith("mutarg") and node.get("k") == "MethodCall" and int(kind.split(":")[1]) == 1:
                name = cshort(node.get("callee", ""))
                if name == "ToTokens::to_tokens" and len(node["args"]) == 1:
                    return self._t(node["recv"])
            return None
        skip = set()
        sep_after = {}
        for i in range(len(effs) - 1):
            # for (i, x) in it.enumerate() { if i > 0 { ts.extend(quote!(,)) }  ts.extend(P(x)) }   ==   #( P(x) ),*   over it
            (n1, k1, _g1), r1 = effs[i], rel[i]
            (n2, k2, _g2), r2 = effs[i + 1], rel[i + 1]
            if len(r1) == 2 and len(r2) == 1 and r1[0][0] == "for" and r2[0][0] == "for" and r1[0][1] is r2[0][1] and r1[1][0] == "if" and r1[1][2] \
                    and not _has_loop_exit(r1[0][2]) and sum(1 for rr in rel if rr and rr[0][0] == "for" and rr[0][1] is r1[0][1]) == 2:
                en = self._t(r1[0][1])
                if not (en[0] == "call" and en[1] == "Iterator::enumerate" and len(en[2]) == 1):
                    continue
                idx = ("field", ("elem", en), "0")
                c = self._t(r1[1][1])
                first = c in (("op", ">=", [idx, ("lit", "1")]), ("op", "!=", [idx, ("lit", "0")]), ("op", ">", [idx, ("lit", "0")]))
                sp = piece_of(n1, k1)
                if not first or sp is None or sp[0] != "tpl" or sp[3] or len(sp[2].split(" ")) != 1 or not sp[2]:
                    continue
                skip.add(i)
                sep_after[i + 1] = (sp[2], en)
        for ei, ((node, kind, _g), r) in enumerate(zip(effs, rel)):
            if ei in skip:
                continue
            if not r or r[0][0] != "for":
                last_loop = None
            cond_guard = None
            if len(r) == 1 and (r[0][0] == "if" or (r[0][0] == "arm" and r[0][2] in ("v1::Some($)", "Option::Some($)"))):
                cond_guard, r = r[0], ()         # an append made only under a condition: an optional piece
            if len(r) > 1 or (r and (r[0][0] != "for" or _has_loop_exit(r[0][2]))):
                return None
            piece = None
            if kind == "mutcall" and cshort(node.get("callee", "")) == "Extend::extend" and self._lhs_path(node["recv"]) == "" and len(node["args"]) == 1:
                piece = self._t(node["args"][0])
            elif kind.startswith("mutarg") and node.get("k") == "MethodCall" and int(kind.split(":")[1]) == 1:
                name = cshort(node.get("callee", ""))
                if name == "ToTokensWithSettings::to_tokens" and len(node["args"]) == 2 \
                        and cshort(self.body.get("path") or "") != "ToTokensWithSettings::to_token_stream":       # (not inside its own definition)
                    piece = ("call", "ToTokensWithSettings::to_token_stream", [self._t(node["recv"]), self._t(node["args"][1])])
                elif name == "ToTokens::to_tokens" and len(node["args"]) == 1:
                    piece = self._t(node["recv"])
            if piece is None:
                return None
            if cond_guard is not None:
                if piece[0] != "tpl" or piece[1] != "quote":
                    piece = ("tpl", "quote", "#0", [piece])
                c = self._cond_value(self._t(cond_guard[1])) if cond_guard[0] == "if" else None
                if c is not None and not (c[0] == "iflet" and c[1] in ("v1::Some($)", "Option::Some($)") and cond_guard[2]):
                    slots.append(_mk_then(c if cond_guard[2] else _not(c), piece))
                else:
                    # if let Some(m) = o { ts.extend(quote!(.. #m ..)) }:  the optional piece  o.map(|m| quote!(.. #m ..))
                    o = c[2] if c is not None else self._t(cond_guard[1])
                    d = depth + 1
                    pay = _proj_some(o)

                    def sub(n, d=d, pay=pay):
                        if n == pay:
                            return ("cparam", d, 0)
                        if n[0] == "cparam" and n[1] >= d:
                            return ("cparam", n[1] + 1, n[2])
                        if n[0] == "closure" and n[1] >= d:
                            return ("closure", n[1] + 1, n[2], n[3])
                        return None
                    slots.append(("call", "Option::map", [o, ("closure", d, 1, rewrite(piece, sub))]))
                text.append("#%d" % (len(slots) - 1))
            elif r and ei in sep_after:
                sep, en = sep_after[ei]
                it = en[2][0]
                d = depth + 1
                val = ("field", ("elem", en), "1")
                piece = rewrite(piece, lambda n: ("elem", it) if n == val else None)
                if any(x == ("elem", en) for x in subterms(piece)):
                    return None
                body_ = rewrite(piece, _elem_to_param(it, d))
                if body_ == ("tpl", "quote", "#0", [("cparam", d, 0)]) or body_ == ("cparam", d, 0):
                    slots.append(it)             # every element as it is
                else:
                    slots.append(("call", "Iterator::map", [it, ("closure", d, 1, body_)]))
                text += ["#(", "#%d" % (len(slots) - 1), ")" + sep + "*"]
                last_loop = None
                continue
            elif r:
                it = self._t(r[0][1])
                d = depth + 1
                if last_loop is not None and last_loop[0] is r[0][1]:
                    # a second append in the same pass of the same loop: the pieces of one pass stay together (a1 b1 a2 b2, not a1 a2 b1 b2)
                    k = last_loop[1]
                    prev = last_loop[2]
                    both = []
                    for pc in (prev, piece):
                        both.append(pc if pc[0] == "tpl" and pc[1] == "quote" else ("tpl", "quote", "#0", [pc]))
                    base = len(both[0][3])
                    toks = [("#%d" % (base + int(tok[1:]))) if re.fullmatch(r"#\d+", tok) else tok for tok in both[1][2].split(" ")]
                    piece = ("tpl", "quote", " ".join((both[0][2] + " " + " ".join(toks)).split()), list(both[0][3]) + list(both[1][3]))
                    slots[k] = ("call", "Iterator::map", [it, ("closure", d, 1, rewrite(piece, _elem_to_param(it, d)))])
                    last_loop = (r[0][1], k, piece)
                    continue
                slots.append(("call", "Iterator::map", [it, ("closure", d, 1, rewrite(piece, _elem_to_param(it, d)))]))
                text.append("#( #%d )*" % (len(slots) - 1))
                last_loop = (r[0][1], len(slots) - 1, piece)
                continue
            elif piece[0] == "tpl" and piece[1] == "quote":
                base = len(slots)
                for tok in piece[2].split(" "):
                    m = re.fullmatch(r"#(\d+)", tok)
                    text.append("#%d" % (base + int(m.group(1))) if m else tok)
                slots.extend(piece[3])
            else:
                slots.append(piece)
                text.append("#%d" % (len(slots) - 1))
        # a piece appended when c holds followed by a piece appended when it does not: one piece chosen by c
        k = 0
        while k + 1 < len(text):
            m1, m2 = re.fullmatch(r"#(\d+)", text[k]), re.fullmatch(r"#(\d+)", text[k + 1])
            if m1 and m2:
                a, b = slots[int(m1.group(1))], slots[int(m2.group(1))]
                if a[0] == "call" and a[1] == "then" and b[0] == "call" and b[1] == "then" and len(a[2]) == 2 and len(b[2]) == 2 \
                        and (b[2][0] == _not(a[2][0]) or a[2][0] == _not(b[2][0])) and not _has_try(a[2][0]):
                    slots[int(m1.group(1))] = _mk_if(a[2][0], a[2][1], b[2][1])
                    del text[k + 1]
                    continue
            k += 1
        tx, sl = _hoist_single_slot_reps(" ".join(" ".join(text).split()), slots)
        tx, sl = _renumber_slots(tx, sl)
        return ("tpl", "quote", tx, sl)

    def _canon_mut(self, lid, t, effs, origin):
        """canonical forms of simple mutable-local idioms:
           let mut v = Vec::new(); for x in IT { v.push(X) }      ==  IT.map(|x| X).collect()
           let mut x = A; if c { x = B(x) }                       ==  if c { B(A) } else { A }
           let x; match s { p1 => x = a, p2 => x = b }            ==  match s { p1 => a, p2 => b }"""
        depth, lguards = self.def_ctx.get(lid, (0, None))
        if lguards is None:
            return t
        init = t[2]
        kinds = [k for _n, k, _g in effs]
        rel = [g[len(lguards):] if g[:len(lguards)] == lguards else None for _n, _k, g in effs]
        if any(r is None for r in rel):
            return t
        # (t) a token stream assembled by appends: the template of its pieces, in order
        tt = self._token_builder(init, effs, rel, depth, origin)
        if tt is not None:
            return tt
        # (a) a Vec assembled by pushes: the list of its parts, in order
        vt = self._vec_parts(init, effs, rel)
        if vt is not None:
            return vt
        # (b) push in a for loop
        if len(effs) == 1 and kinds[0] == "mutcall" and init[0] == "call" and init[1] in ("Vec::new", "Vec::with_capacity", "vec!", "Default::default") \
                and (init[1] != "vec!" or not init[2]):
            node = effs[0][0]
            if cshort(node.get("callee", "")) == "Vec::push" and len(rel[0]) == 1 and rel[0][0][0] == "for" and self._lhs_path(node["recv"]) == "" \
                    and not _has_loop_exit(rel[0][0][2]):
                it = self._t(rel[0][0][1])
                x = self._t(node["args"][0])
                d = depth + 1
                hoist = False
                if it[0] == "struct" and cshort(it[1]) == "ops::Range" and isinstance(it[3], dict) and it[3].get("start") == ("lit", "0") \
                        and it[3].get("end", ("?",))[0] == "lit" and str(it[3]["end"][1]).isdigit() and int(it[3]["end"][1]) <= 4 \
                        and not any(y == ("elem", it) for y in subterms(x)):
                    return ("call", "vec!", [x] * int(it[3]["end"][1]))        # for _ in 0..2 { v.push(X) }  ==  vec![X, X]
                if it[0] == "call" and it[1] in ("Iterator::filter_map", "Iterator::filter") and len(it[2]) == 2 and it[2][1][0] == "closure":
                    # for y in it.filter_map(f) { v.push(X) }: the list built as  for x in it { if let Some(y) = f(x) { X } }   (the form of the
                    # collected filter_map)
                    return ("call", "vec+", [_mk_for(it, x)])
                if x[0] == "try":
                    x, hoist = x[1], True
                elif _has_try(x):
                    x, hoist = ("call", "Ok", [x]), True
                body = rewrite(x, _elem_to_param(it, d))
                r = ("call", "Iterator::collect", [("call", "Iterator::map", [it, ("closure", d, 1, body)])])
                return ("try", r) if hoist else r
        # (s) result of a search loop:  let mut f = false; for x in it { if c { f = true; break } }    ==   it.any(|x| c)
        #                            let mut f = None;  for x in it { if c { f = Some(v); break } }  ==   it.find(|x| c).map(|x| v)
        if len(effs) == 1 and kinds[0] == "assign" and len(rel[0]) >= 2 and rel[0][0][0] == "for" and all(g[0] in ("if", "arm") for g in rel[0][1:]) \
                and self._lhs_path(effs[0][0]["l"]) == "" and origin[0] == "let" and not _has_other_exit(rel[0][0][2]):
            it = self._t(rel[0][0][1])
            val = self._t(effs[0][0]["r"])
            conds = []
            for g in rel[0][1:]:
                if g[0] == "if":
                    c = self._t(g[1])
                    conds.append(c if g[2] else _not(c))
                else:
                    conds.append(_let(g[2], self._t(g[1])))
            c = conds[0]
            for x in conds[1:]:
                c = ("op", "&&", [c, x])
            d = depth + 1
            el = ("elem", it)

            def to_clo(t):
                def sub(n):
                    if n == el:
                        return ("cparam", d, 0)
                    if n[0] == "cparam" and n[1] >= d:
                        return ("cparam", n[1] + 1, n[2])
                    if n[0] == "closure" and n[1] >= d:
                        return ("closure", n[1] + 1, n[2], n[3])
                    return None
                return ("closure", d, 1, rewrite(t, sub))
            has_break = _breaks_after(rel[0][0][2], effs[0][0])
            if init == ("lit", False) and val == ("lit", True):
                return ("call", "Iterator::any", [it, to_clo(c)])
            if init == ("def", "v1::None") and val[0] == "call" and val[1] == "Some" and len(val[2]) == 1 and has_break:
                found = ("call", "Iterator::find", [it, to_clo(c)])
                if val[2][0] == el:
                    return found
                return ("call", "Option::map", [found, to_clo(val[2][0])])
        # (c) one conditional reassignment (under any chain of `if` / match-arm guards)
        if len(effs) == 1 and kinds[0] == "assign" and len(rel[0]) >= 1 and all(g[0] in ("if", "arm") for g in rel[0]) \
                and self._lhs_path(effs[0][0]["l"]) == "" and origin[0] == "let":
            b = self._t(effs[0][0]["r"])

            def sub2(n):
                if n == ("sym", "<self>"):
                    return init
                return None
            b = rewrite(b, sub2)
            conds = []
            for g in rel[0]:
                if g[0] == "if":
                    c = rewrite(self._t(g[1]), sub2)
                    conds.append(c if g[2] else ("op", "Not", [c]))
                else:
                    conds.append(_let(g[2], self._t(g[1])))
            c = conds[0]
            for x in conds[1:]:
                c = ("op", "&&", [c, x])
            return _mk_if(c, b, init)
        # (c') deferred initialisation: every effect is an assignment in its own match arm / if branch
        if origin[0] == "uninit" and effs and all(k == "assign" for k in kinds) and all(len(r) >= 1 for r in rel):
            first = [r[0] for r in rel]
            if all(g[0] == "arm" for g in first) and len({show(self._t(g[1])) for g in first}) == 1 and all(len(r) == 1 for r in rel):
                arms = [(g[2], None, self._t(n["r"])) for (n, _k, _g), g in zip(effs, first)]
                return self._canon_match(self._t(first[0][1]), arms)
            if len(effs) == 2 and all(g[0] == "if" for g in first) and all(len(r) == 1 for r in rel) and first[0][1] is first[1][1] and first[0][2] != first[1][2]:
                a, b = (effs[0][0]["r"], effs[1][0]["r"]) if first[0][2] else (effs[1][0]["r"], effs[0][0]["r"])
                return _mk_if(self._t(first[0][1]), self._t(a), self._t(b))
        return t

    def _vec_parts(self, init, effs, rel):
        """let mut v = INIT; (v.push(x) under for / if / match-arm guards)*   ==   vec+(parts of INIT.., guarded x..)"""
        PUSH, INS = ("Vec::push", "Punctuated::push", "BTreeSet::insert", "HashSet::insert"), ("Vec::insert", "Punctuated::insert")
        is_set = any(cshort(n.get("callee", "")) in ("BTreeSet::insert", "HashSet::insert") for n, _k, _g in effs)

        def front(n, r):
            # insert(0, x), unconditionally: x becomes the first part
            return cshort(n.get("callee", "")) in INS and not r and len(n["args"]) == 2 and self._t(n["args"][0]) == ("lit", "0")
        if not effs or not all(k == "mutcall" and self._lhs_path(n["recv"]) == "" and (cshort(n.get("callee", "")) in PUSH or front(n, r))
                               for (n, k, _g), r in zip(effs, rel)):
            return None
        parts = []
        if init[0] == "call" and init[1] in ("Vec::new", "Vec::with_capacity", "Default::default", "Punctuated::new", "BTreeSet::new", "HashSet::new"):
            pass
        elif init[0] == "call" and init[1] == "vec!":
            parts += list(init[2])
        elif init[0] == "call" and init[1] == "Iterator::collect" and len(init[2]) == 1 and init[2][0][0] == "call" and init[2][0][1] == "Iterator::map" \
                and init[2][0][2][1][0] == "closure" and init[2][0][2][1][2] == 1:
            it, clo = init[2][0][2]
            el = ("elem", it)
            d = clo[1]
            parts.append(("for", it, _apply(clo, el)))
        else:
            return None
        if not parts and len(effs) == 1 and len(rel[0]) == 1 and rel[0][0][0] == "for":
            return None           # the plain map/collect form, (b) below
        loops = set()
        for (n, _k, _g), r in zip(effs, rel):
            if front(n, r):
                parts.insert(0, self._t(n["args"][1]))
                continue
            inner = self._t(n["args"][0])
            for g in reversed(r):
                if g[0] == "for":
                    if id(g[1]) in loops or _has_loop_exit(g[2]):
                        return None
                    loops.add(id(g[1]))
                    inner = _mk_for(self._t(g[1]), inner)
                elif g[0] == "if":
                    c = self._t(g[1])
                    inner = _mk_if(c if g[2] else _not(c), inner, ("lit", "()"))
                elif g[0] == "arm":
                    inner = _mk_if(_let(g[2], self._t(g[1])), inner, ("lit", "()"))
                else:
                    return None
            parts.append(inner)
        if is_set:
            if any(cshort(n.get("callee", "")) not in ("BTreeSet::insert", "HashSet::insert") for n, _k, _g in effs):
                return None
            return ("call", "Iterator::collect", [("call", "vec+", parts)])       # a set filled by inserts is the collected sequence of what was inserted
        return ("call", "vec+", parts)

    def _group_same_head(self, scr, arms):
        """consecutive arms on the same one-field variant are one arm deciding on the payload:
             H(x) if g => a, H(_) => b        ==  H(x) => if g { a } else { b }
             H(Sub) => a, H(_) => b           ==  H(x) => match x { Sub => a, _ => b }
           (only when the run ends in an irrefutable, unguarded arm, so nothing falls through to later arms)"""
        def head(p):
            m = re.fullmatch(r"([A-Za-z_][\w:]*)\((.*)\)", p)
            if not m or len(_split_top(m.group(2), ",")) != 1 or len(_split_top(p, "|")) != 1:
                return None
            return m.group(1), m.group(2)
        out, i, changed = [], 0, False
        while i < len(arms):
            h = head(arms[i][0])
            j = i + 1
            if h is not None:
                while j < len(arms) and (head(arms[j][0]) or (None,))[0] == h[0]:
                    j += 1
            run = arms[i:j]
            if h is None or len(run) < 2:
                out.extend(run)
                i = j
                continue
            subs = [head(p)[1] for p, _g, _b in run]
            irref = [bool(re.fullmatch(r"[$_(),]*", x)) and x != "" for x in subs]
            last_ok = irref[-1] and run[-1][1] is None
            payload = ("proj", scr, h[0], "0")
            if last_ok and all(irref):
                body = run[-1][2]
                for _p, g, b in reversed(run[:-1]):
                    if g is None:       # an unguarded irrefutable arm shadows what follows
                        body = b
                    else:
                        body = _mk_if(g, b, body)
                out.append((h[0] + "($)", None, body))
                changed = True
            elif last_ok and all(g is None for _p, g, _b in run):
                out.append((h[0] + "($)", None, self._canon_match(payload, [(x, None, b) for x, (_p, _g, b) in zip(subs, run)])))
                changed = True
            else:
                out.extend(run)
            i = j
        return out if changed else None

    def _opt_tuple_tree(self, scr, arms):
        """match (a, b) { (None, None) => x, (None, Some(_)) => y, (Some(_), _) => z }  is the decision tree on `a`, then on `b`
        (first-match order is kept inside each branch; arm bodies name the payloads by projection, never by pattern)"""
        if scr[0] != "tup" or len(scr[1]) < 2 or any(g is not None for _p, g, _b in arms):
            return None
        n = len(scr[1])
        rows = []
        for p, _g, b in arms:
            if p in ("_", "$"):
                comps = ["_"] * n
            else:
                if not (p.startswith("(") and p.endswith(")")):
                    return None
                comps = _split_top(p[1:-1], ",")
                if len(comps) != n:
                    return None
            rows.append((comps, b))
        kinds = []
        for comps, _b in rows:
            c = comps[0]
            if c in ("_", "$"):
                kinds.append("any")
            elif c in ("v1::None", "Option::None"):
                kinds.append("none")
            elif re.fullmatch(r"(v1|Option)::Some\([$_(),]*\)", c):
                kinds.append("some")
            else:
                return None
        if "some" not in kinds and "none" not in kinds:
            return None

        def branch(which):
            sub = [(comps[1:], b) for (comps, b), k in zip(rows, kinds) if k in (which, "any")]
            if not sub:
                return None
            if all(c in ("_", "$") for c in sub[0][0]):
                return sub[0][1]
            rest_scr = scr[1][1] if n == 2 else ("tup", list(scr[1][1:]))
            sub_arms = [(comps[0] if n == 2 else "(" + ",".join(comps) + ")", None, b) for comps, b in sub]
            return self._canon_match(rest_scr, sub_arms)
        then, els = branch("some"), branch("none")
        if then is None or els is None:
            return None
        return _mk_iflet("v1::Some($)", scr[1][0], then, els)

    def _canon_match(self, scr, arms):
        """two-arm option-like matches become if-let; arms without guards are sorted by pattern (catch-all last)"""
        if len(arms) == 1:
            return ("match", scr, arms)
        tree = self._opt_tuple_tree(scr, arms)
        if tree is not None:
            return tree
        if len(arms) >= 2 and all(g is None for _p, g, _b in arms) and arms[-1][0] in ("_", "$") \
                and all(re.fullmatch(r"'\d+'", p) for p, _g, _b in arms[:-1]):
            # match n { 0 => a, 1 => b, _ => c }  ==  if n == 0 { a } else if n == 1 { b } else { c }
            r = arms[-1][2]
            for p, _g, b in reversed(arms[:-1]):
                r = _mk_if(_mk_cmp("==", scr, ("lit", p.strip("'"))), b, r)
            return r
        if len(arms) == 2 and all(g is None for _p, g, _b in arms) and arms[0][0] in ("true", "false") and arms[1][0] in ("true", "false", "_", "$") \
                and arms[0][0] != arms[1][0]:
            # match c { true => a, false => b }  ==  if c { a } else { b }
            a, b = (arms[0][2], arms[1][2]) if arms[0][0] == "true" else (arms[1][2], arms[0][2])
            return _mk_if(scr, a, b)
        if len(arms) == 2 and all(g is None for _p, g, _b in arms) and {arms[0][0], arms[1][0]} == {"Entry::Occupied($)", "Entry::Vacant($)"}:
            # match m.entry(k) { Occupied(e) => e.into_mut(), Vacant(e) => e.insert(V) }  ==  m.entry(k).or_insert_with(|| V)
            ob = next(b for p, _g, b in arms if p == "Entry::Occupied($)")
            vb = next(b for p, _g, b in arms if p == "Entry::Vacant($)")
            oe, ve = ("proj", scr, "Entry::Occupied", "0"), ("proj", scr, "Entry::Vacant", "0")
            if scr[0] == "call" and scr[1] in ("BTreeMap::entry", "HashMap::entry") and len(scr[2]) == 2:
                vb = rewrite(vb, lambda n: scr[2][1] if n == ("call", "VacantEntry::key", [ve]) else None)      # the vacant entry's key is the key asked for
            if ob == ("call", "OccupiedEntry::into_mut", [oe]) and vb[0] == "call" and vb[1] == "VacantEntry::insert" and len(vb[2]) == 2 and vb[2][0] == ve \
                    and not any(x in (oe, ve) for x in subterms(vb[2][1])):
                V = vb[2][1]
                if V == ("call", "Default::default", []):
                    return ("call", "Entry::or_default", [scr])
                return ("call", "Entry::or_insert_with", [scr, ("closure", getattr(self, "_cur_depth", 0) + 1, 0, V)])
        grouped = self._group_same_head(scr, arms)
        if grouped is not None:
            return self._canon_match(scr, grouped)
        if len(arms) == 2 and all(g is None for _p, g, _b in arms) and {arms[0][0], arms[1][0]} == {"v1::Ok($)", "v1::Err($)"}:
            okb = next(b for p, _g, b in arms if p == "v1::Ok($)")
            erb = next(b for p, _g, b in arms if p == "v1::Err($)")
            okp, erp = ("proj", scr, "v1::Ok", "0"), ("proj", scr, "v1::Err", "0")
            if okb == okp and erb[0] == "ret" and erb[1][0] == "call" and erb[1][1] == "Err" and len(erb[1][2]) == 1:
                # match x { Ok(v) => v, Err(e) => return Err(f(e)) }   ==   x.map_err(f)?
                E = erb[1][2][0]
                if E == erp:
                    return ("try", scr)
                if not any(x == erp for x in subterms(E)):
                    return ("try", ("call", "Result::map_err", [scr, ("closure", 1, 1, E)]))
        if len(arms) == 2 and all(g is None for _p, g, _b in arms):
            (p1, _g1, b1), (p2, _g2, b2) = arms
            unitlike = lambda p: re.fullmatch(r"[A-Za-z_][\w:]*", p) is not None and "::" in p
            payload = lambda p: re.fullmatch(r"[A-Za-z_][\w:]*\([$_(),]*\)", p) is not None
            if unitlike(p1) and payload(p2) and p1.rsplit("::", 1)[0] == p2.split("(")[0].rsplit("::", 1)[0]:
                return self._iflet(p2, scr, b2, b1)      # a two-variant enum: the unit variant is "otherwise"
            if unitlike(p2) and payload(p1) and p2.rsplit("::", 1)[0] == p1.split("(")[0].rsplit("::", 1)[0]:
                return self._iflet(p1, scr, b1, b2)
            catch = ("_", "$", "v1::None", "Option::None")
            if p2 in catch and p1 not in catch:
                return self._iflet(p1, scr, b1, b2)
            if p1 in ("v1::None", "Option::None") and p2 not in catch:
                return self._iflet(p2, scr, b2, b1)
        if len(arms) == 2 and arms[0][1] is not None and arms[1][1] is None and arms[1][0] in ("_", "$") and arms[1][2] == ("lit", False) \
                and arms[0][0] not in ("_", "$"):
            # match x { P if g => b, _ => false }  ==  matches!(x, P if g) && b
            c = ("op", "&&", [_let(arms[0][0], scr), arms[0][1]])
            return c if arms[0][2] == ("lit", True) else ("op", "&&", [c, arms[0][2]])
        if len(arms) == 2 and arms[0][1] is not None and arms[1][1] is None and arms[1][0] in ("_", "$") and arms[0][0] not in ("_", "$"):
            # match x { P if g => a, _ => b }  ==  if matches!(x, P if g) { a } else { b }
            return _mk_if(("op", "&&", [_let(arms[0][0], scr), arms[0][1]]), arms[0][2], arms[1][2])
        if len(arms) >= 2 and all(g is None for _p, g, _b in arms) and arms[0][2][0] == "call" and arms[0][2][1] in ("Some", "Ok") and len(arms[0][2][2]) == 1 \
                and all(b[0] == "call" and b[1] == arms[0][2][1] and len(b[2]) == 1 for _p, _g, b in arms):
            # match x { A => Some(a), B => Some(b) }  ==  Some(match x { A => a, B => b })
            return ("call", arms[0][2][1], [self._canon_match(scr, [(p, g, b[2][0]) for p, g, b in arms])])
        order_free = all(g is None for _p, g, _b in arms) and all(a[0] not in ("_", "$") for a in arms[:-1]) \
            and _arms_disjoint([a[0] for a in arms if a[0] not in ("_", "$")])
        NONE = ("def", "v1::None")
        somes = [(p, b[2][0]) for p, _g, b in arms if b[0] == "call" and b[1] == "Some" and len(b[2]) == 1]
        if order_free and any(b == NONE for _p, _g, b in arms) and somes and len(somes) + sum(1 for _p, _g, b in arms if b == NONE) == len(arms) \
                and all(p not in ("_", "$") for p, _v in somes) and all(v == somes[0][1] for _p, v in somes):
            # match x { A => None, B => Some(v), C => Some(v) }  ==  (x is B or C).then(|| v)
            c = None
            for p, _v in sorted(somes, key=lambda a: a[0]):
                c1 = _let(p, scr)
                c = c1 if c is None else ("op", "||", [c, c1])
            return ("call", "then", [c, somes[0][1]])
        if order_free and any(b == ("lit", False) for _p, _g, b in arms) \
                and all(b == ("lit", False) for p, _g, b in arms if p in ("_", "$")):
            # boolean match: the disjunction of its non-false arms
            alts = []
            for p, _g, b in sorted([a for a in arms if a[2] != ("lit", False)], key=lambda a: a[0]):
                alts.append(_let(p, scr) if b == ("lit", True) else ("op", "&&", [_let(p, scr), b]))
            if not alts:
                return ("lit", False)
            r = alts[0]
            for x in alts[1:]:
                r = ("op", "||", [r, x])
            return r
        if order_free and any(b == ("lit", True) for _p, _g, b in arms) and not any(b == ("lit", False) for _p, _g, b in arms) \
                and all(b == ("lit", True) for p, _g, b in arms if p in ("_", "$")):
            # boolean match whose other arms are `true`: the conjunction of (not this arm, or its value)
            r = None
            for p, _g, b in sorted([a for a in arms if a[2] != ("lit", True)], key=lambda a: a[0]):
                x = ("op", "||", [_not(_let(p, scr)), b])
                r = x if r is None else ("op", "&&", [r, x])
            return r if r is not None else ("lit", True)
        if order_free:
            last = [a for a in arms if a[0] in ("_", "$")]
            rest = [a for a in arms if a[0] not in ("_", "$")]
            arms = sorted(rest, key=lambda a: a[0]) + last
        return ("match", scr, arms)

    def _expand_wildcard_arm(self, e, arms):
        """`_ => x` after arms that name variants of a known enum is one arm per remaining variant (so a wildcard and the explicit
        list of the remaining variants are the same match)"""
        if self.program is None or len(arms) < 2 or arms[-1][0] != "_" or arms[-1][1] is not None:
            return arms
        ty = peel_ty(e["scrut"].get("ty", "")).split("<")[0]
        adt = None
        for c in self.program.crates.values():
            for pth, a in getattr(c, "adts", {}).items():
                if a.get("kind") == "enum" and (pth == ty or pth.endswith("::" + ty.split("::", 1)[-1]) and pth.split("::")[0] == ty.split("::")[0]):
                    adt = a
                    break
            if adt:
                break
        if adt is None or not adt.get("variants"):
            return arms
        short = adt["path"].rsplit("::", 1)[-1]
        named = set()
        for p, g, _b in arms[:-1]:
            if g is not None:
                return arms
            for alt in p.split("|"):
                head = alt.split("(")[0].split("{")[0]
                if not head.startswith(short + "::"):
                    return arms
                named.add(head[len(short) + 2:])
        out = list(arms[:-1])
        for v in adt["variants"]:
            if v["name"] in named:
                continue
            ctor = str(v.get("ctor"))
            if "Fn" in ctor:
                pat = "%s::%s(%s)" % (short, v["name"], ",".join("_" for _f in v["fields"]))
            elif "Const" in ctor:
                pat = "%s::%s" % (short, v["name"])
            else:
                pat = "%s::%s{}" % (short, v["name"])
            out.append((pat, None, arms[-1][2]))
        return out

    def _iflet(self, pat, scr, then, els):
        return _mk_iflet(pat, scr, then, els)

    def transparent_fn(self, callee, nargs=None):
        """the body of a repo-local helper that rules look through (private, non-recursive, named by no rule), else None"""
        if self.program is None or self.keep is None:
            return None
        dep = callee in DEP_ACCESSORS
        if not dep and not callee.startswith(LOCAL_CRATES):
            return None
        if cshort(callee) in self.keep and not dep:
            return None
        fn = self.program.body(DEP_ACCESSORS.get(callee, callee))
        if fn is None:
            # generic instantiations print with their substs at call sites: retry modulo generic arguments
            import re as _re
            base = _re.sub(r"::<[^>]*(<[^>]*>[^>]*)*>", "", callee)
            c = self.program.crates.get(callee.split("::", 1)[0])
            if c is not None:
                for pth, b in c.bodies.items():
                    if _re.sub(r"::<[^>]*(<[^>]*>[^>]*)*>", "", pth) == base:
                        fn = b
                        break
        if fn is None or "body" not in fn or fn.get("dk") not in ("Fn", "AssocFn"):
            return None
        if nargs is not None and len(fn.get("params", [])) != nargs:
            return None
        if fn.get("pub") and not dep:
            return None       # public API functions keep their name; only private / nested helpers are transparent
        if any(x.get("k") in ("Call", "MethodCall") and x.get("callee") == fn["path"] for x in walk(fn["body"])):
            return None       # recursive helper
        return fn

    def _inline_out_param(self, node, pos, args, gt):
        """`helper(&mut x, a)` with a transparent helper: the helper's effects on its parameter are effects on x
        (under the guards of the call, then the helper's own)"""
        callee = node.get("callee")
        if not callee or callee in self._stack or len(self._stack) > INLINE_MAX_DEPTH:
            return None
        fn = self.transparent_fn(callee, len(args))
        if fn is None or fn["path"] in self._stack:
            return None
        sub = Norm(fn, program=self.program, keep=self.keep, _stack=self._stack)
        try:
            pid = sub.param_id(pos)
        except (IndexError, KeyError):
            return None
        if pid is None:
            return None
        peffs = sub.effects.get(pid, [])
        if not peffs:
            return []
        pet, _ = sub._effect_tuples(pid, peffs)
        m = ("mut", "?", ("param", pos), pet)
        shift = self.call_depth.get(id(node), self._cur_depth)

        def subst(n):
            if n[0] == "param":
                return args[n[1]] if n[1] < len(args) and n[1] != pos else (("sym", "<self>") if n[1] == pos else None)
            if n[0] == "cparam" and shift:
                return ("cparam", n[1] + shift, n[2])
            if n[0] == "closure" and shift:
                return ("closure", n[1] + shift, n[2], n[3])
            return None
        m2 = rewrite(m, subst)
        out = []
        for eff in m2[3]:
            if eff[0] == "mutarg" and any(a == ("sym", "&self") for a in eff[2]) and False:
                return None
            out.append(tuple(list(eff[:-1]) + [list(gt) + list(eff[-1])]))
        return out

    def _eta(self, path, node):
        """a transparent helper used as a value (`.map(helper)`) is the closure `|a, ..| helper(a, ..)` with the helper inlined"""
        if path in self._stack or len(self._stack) > INLINE_MAX_DEPTH:
            return None
        fn = self.transparent_fn(path)
        if fn is None or fn["path"] in self._stack:
            return None
        sub = Norm(fn, program=self.program, keep=self.keep, _stack=self._stack)
        t = sub.term(fn["body"])
        if len(_show(t)) > INLINE_MAX_SIZE:
            return None
        d = self.call_depth.get(id(node), self._cur_depth) + 1
        n = len(fn.get("params", []))

        def subst(x):
            if x[0] == "param":
                return ("cparam", d, x[1])
            if x[0] == "cparam":
                return ("cparam", x[1] + d, x[2])
            if x[0] == "closure":
                return ("closure", x[1] + d, x[2], x[3])
            return None
        return ("closure", d, n, _unreturn(rewrite(t, subst)))

    def _inline_call(self, callee, arg_nodes, node):
        """term of a call to a repo-local helper that no rule names: the helper's own term with arguments substituted"""
        if callee in self._stack or len(self._stack) > INLINE_MAX_DEPTH:
            return None
        fn = self.transparent_fn(callee, len(arg_nodes))
        if fn is None:
            return self._specialise_recursive(callee, arg_nodes, node)
        if fn["path"] in self._stack:
            return None
        sub = Norm(fn, program=self.program, keep=self.keep, _stack=self._stack)
        global _NO_TAIL_TRY
        saved, _NO_TAIL_TRY = _NO_TAIL_TRY, True        # `?` for "the result is None" is only meaningful while the term stays the result
        try:
            t = sub.term(fn["body"])
        finally:
            _NO_TAIL_TRY = saved
        if len(_show(t)) > INLINE_MAX_SIZE:
            return None
        args = [self._t(a) for a in arg_nodes]
        shift = self.call_depth.get(id(node), self._cur_depth)

        def subst(n):
            if n[0] == "param":
                return args[n[1]] if n[1] < len(args) else None
            if n[0] == "cparam" and shift:
                return ("cparam", n[1] + shift, n[2])
            if n[0] == "closure" and shift:
                return ("closure", n[1] + shift, n[2], n[3])
            return None
        r = _unreturn(_reduce_applied(rewrite(t, subst)))
        if _has_ret(r):
            return None          # a `return` of the helper that is not in tail position would read as a return of the caller
        if peel_ty(fn.get("output", "")).startswith(("std::option::Option<", "core::option::Option<")):
            r = _untry_option(r)  # `x?` of the helper means "the helper's result is None", not a return of the caller
        if "/#" in _show(r):
            # the helper's own generic parameters (`T/#0`) stand for the arguments of THIS call
            g = str(node.get("gen") or "")
            gargs = [x.strip() for x in _split_top(g[1:-1], ",")] if g.startswith("[") and g.endswith("]") else []
            failed = []

            def gsub(m):
                i = int(m.group(1))
                if i >= len(gargs):
                    failed.append(i)
                    return m.group(0)
                return gargs[i]
            r = _map_strings(r, lambda x: _GENERIC_PARAM.sub(gsub, x) if "/#" in x else x)
            if failed:
                return None

            def conv(n):
                # x.into() of the generic helper, now that its type parameter is an integer type: the lossless conversion `x as T`
                if n[0] == "call" and n[1].startswith("Into::into<") and len(n[2]) == 1:
                    m = re.fullmatch(r"Into::into<(\w+)->(\w+)>", n[1])
                    if m and m.group(1) in _INT_TYPES and m.group(2) in _INT_TYPES:
                        return ("cast", m.group(2), n[2][0])
                return None
            r = rewrite(r, conv)
        return r

    def _specialise_recursive(self, callee, arg_nodes, node):
        """f(x, a) { H(x, g(a)) } with a private recursive helper H(x, p) { .. H(e(x), p) .. } that hands `p` on unchanged:
        f is H specialised to p = g(a), i.e. H's body with p := g(a) and the recursive call H(e, p) read as f(e, a)."""
        if len(self._stack) != 1 or self.body.get("dk") not in ("Fn", "AssocFn") or self.program is None or self.keep is None:
            return None
        root = strip(self.body.get("body") or {})
        if root.get("k") == "Block" and "b" in root and not root["b"].get("stmts"):
            root = strip(root["b"].get("expr") or {})
        if root is not strip(node):
            return None            # only when the whole of f is this one call
        if not callee.startswith(LOCAL_CRATES) or cshort(callee) in self.keep:
            return None
        fn = self.program.body(callee)
        if fn is None or "body" not in fn or fn.get("pub") or fn.get("dk") not in ("Fn", "AssocFn") or len(fn.get("params", [])) != len(arg_nodes):
            return None
        hname = cshort(fn["path"])
        sub = Norm(fn, program=self.program, keep=self.keep, _stack=self._stack)
        global _NO_TAIL_TRY
        saved, _NO_TAIL_TRY = _NO_TAIL_TRY, True
        try:
            t = sub.term(fn["body"])
        finally:
            _NO_TAIL_TRY = saved
        if len(_show(t)) > INLINE_MAX_SIZE:
            return None
        recs = [x for x in subterms(t) if x[0] == "call" and (x[1] == hname or x[1].startswith(hname + "<"))]
        if not recs or any(len(x[2]) != len(arg_nodes) for x in recs):
            return None
        n = len(arg_nodes)
        inv = [j for j in range(n) if all(x[2][j] == ("param", j) for x in recs)]
        desc = [j for j in range(n) if j not in inv]
        args = [self._t(a) for a in arg_nodes]
        if any(args[j][0] != "param" for j in desc) or len({args[j][1] for j in desc}) != len(desc):
            return None
        dpar = [args[j] for j in desc]
        if any(x[0] == "param" and x in dpar for j in inv for x in subterms(args[j])):
            return None            # the fixed arguments must not depend on what the recursion descends on
        fname = cshort(self.body["path"])
        nf = len(self.body.get("params", []))
        shift = self.call_depth.get(id(node), self._cur_depth)

        def subst(x):
            if x[0] == "call" and (x[1] == hname or x[1].startswith(hname + "<")) and len(x[2]) == n:
                fargs = [("param", i) for i in range(nf)]
                for j in desc:
                    fargs[args[j][1]] = rewrite(x[2][j], subst)
                return ("call", fname, fargs)
            if x[0] == "param":
                return args[x[1]] if x[1] < len(args) else None
            if x[0] == "cparam" and shift:
                return ("cparam", x[1] + shift, x[2])
            if x[0] == "closure" and shift:
                return ("closure", x[1] + shift, x[2], x[3])
            return None
        r = _unreturn(_reduce_applied(rewrite(t, subst)))
        if _has_ret(r) or "/#" in _show(r):
            return None
        if peel_ty(fn.get("output", "")).startswith(("std::option::Option<", "core::option::Option<")):
            r = _untry_option(r)
        return r

    def _is_mut_local_effect(self, node):
        """statement already represented as an effect inside the term of a `mut` local
        (also an `if` whose branches consist of such statements only)"""
        node = strip(node)
        for lid, effs in self.effects.items():
            if lid in self.mut and lid not in self.syms:
                for n, _k, _g in effs:
                    if n is node:
                        return True
        k = node.get("k")
        if k == "If":
            return self._only_mut_effects(node["then"]) and ("else" not in node or self._only_mut_effects(node["else"]))
        fl = as_for_loop(node)
        if fl is not None:
            return self._only_mut_effects(fl[2], allow_lets=True)
        if k == "Match" and node.get("src") == "Normal" and node.get("arms") and all(a.get("guard") is None for a in node["arms"]):
            # a match whose arms consist of such statements only (an arm may also do nothing)
            def arm_ok(b_):
                b_ = strip(b_)
                if b_.get("k") == "Tup" and not b_.get("es"):
                    return True
                if b_.get("k") == "Block" and not b_["b"].get("stmts") and "expr" not in b_["b"]:
                    return True
                return self._only_mut_effects(b_, allow_lets=True)
            return all(arm_ok(a["body"]) for a in node["arms"]) and any(self._only_mut_effects(a["body"], allow_lets=True) for a in node["arms"])
        return False

    def _only_mut_effects(self, blk, allow_lets=False):
        blk = strip(blk)
        if blk.get("k") != "Block":
            return self._is_mut_local_effect(blk)
        b = blk["b"]
        stmts = [st for st in b["stmts"] if _continue_guard(st) is None]      # plain `continue` filters are guards of the effects after them
        items = [st["e"] for st in stmts if st.get("k") in ("SSemi", "SExpr")]
        if not allow_lets and any(st.get("k") == "SLet" for st in b["stmts"]):
            return False
        if any(st.get("k") == "SLet" and "els" in st for st in stmts):
            return False
        if "expr" in b:
            items.append(b["expr"])
        # a trailing `break` after the effects ends a search loop; it is part of the canonical form of the searched-for local
        core = [x for x in items if not (strip(x).get("k") == "Break" and "label" not in strip(x) and "e" not in strip(x))]
        return bool(core) and all(self._is_mut_local_effect(x) for x in core)

    def param_id(self, i):
        p = self.body["params"][i]
        while p.get("k") in ("PRef",):
            p = p["p"]
        return p.get("id")

    def effects_on(self, lid):
        """ordered effect records on a local: (kind, callee_or_op, lhs_path, [arg terms], guards tuple, node)"""
        out = []
        for node, kind, guards in self.effects.get(lid, []):
            gt = tuple(self.guards_term(guards))
            if kind == "assign":
                out.append(("assign", "=", self._lhs_path(node["l"]), [self._t(node["r"])], gt, node))
            elif kind == "assignop":
                out.append(("assignop", node["op"], self._lhs_path(node["l"]), [self._t(node["r"])], gt, node))
            elif kind == "mutcall":
                out.append(("mutcall", cshort(node.get("callee", node["name"])), self._lhs_path(node["recv"]),
                            [self._t(a) for a in node["args"]], gt, node))
            elif kind.startswith("mutarg"):
                pos = int(kind.split(":")[1])
                allargs = ([node["recv"]] + node["args"]) if node["k"] == "MethodCall" else node["args"]
                args = [("sym", "&self") if i == pos else self._t(a) for i, a in enumerate(allargs)]
                out.append(("mutarg", cshort(node.get("callee", node.get("name", "?"))), "", args, gt, node))
        return out

    def _lhs_path(self, e):
        e = strip(e)
        acc = []
        while isinstance(e, dict):
            e = strip(e)
            if e.get("k") == "Field":
                acc.append(e["name"])
                e = e["base"]
            elif e.get("k") == "Index":
                acc.append("[]")
                e = e["base"]
            elif e.get("k") == "MethodCall" and cshort(e.get("callee", "")) in TRANSPARENT:
                e = e["recv"]
            else:
                break
        acc.reverse()
        pre = getattr(self, "_field_view", None)
        if pre is not None and acc and acc[0] == pre:
            acc = acc[1:]           # looking at one field of a struct local as if it were the local (local_term, per-field terms)
        return ".".join(acc)

    def _project(self, base, path):
        t = base
        for step in path:
            if step[0] == "tuple":
                i = step[1]
                if t[0] == "tup" and isinstance(i, int) and i < len(t[1]):
                    t = t[1][i]
                else:
                    d = _distribute_field(t, i) if isinstance(i, int) else None
                    t = d if d is not None else ("field", t, str(i))
            elif step[0] == "variant":
                v, acc = step[1], step[2]
                # destructuring a struct literal / ctor call of the same variant selects the component
                if t[0] == "struct" and t[3] is not None and acc in t[3] and (v.endswith(t[2]) or v.endswith(cshort(t[1]))):
                    t = t[3][acc]
                elif t[0] == "call" and t[1] == v and acc.isdigit() and int(acc) < len(t[2]):
                    t = t[2][int(acc)]
                elif t[0] == "call" and t[1] in ("Option::map", "Option::and_then") and v in ("v1::Some", "Option::Some") and acc == "0" and len(t[2]) == 2 and t[2][1][0] == "closure":
                    t = _proj_some(t)
                elif v in ("v1::Some", "Option::Some") and acc == "0" and (t[0] == "if" and ("def", "v1::None") in (t[2], t[3])
                                                                           or t[0] == "call" and t[1] in ("then", "Option::zip") and len(t[2]) == 2):
                    t = _proj_some(t)
                elif _ctor_arm(t, v) is not None and acc.isdigit() and int(acc) < len(_ctor_arm(t, v)[2][2]):
                    t = _ctor_arm(t, v)[2][2][int(acc)]       # the payload of `match s { A => V(x), B => W(y) }` seen as V is x
                elif t[0] == "call" and t[1] in ("slice::split_first",) and len(t[2]) == 1 and v in ("v1::Some", "Option::Some") and acc == "0":
                    t = ("tup", [("index", t[2][0], ("lit", "0")), ("index", t[2][0], _RANGE_FROM_1)])     # xs.split_first() = (xs[0], xs[1..])
                elif t[0] == "call" and t[1] in ("slice::first", "Vec::first") and len(t[2]) == 1 and v in ("v1::Some", "Option::Some") and acc == "0":
                    t = ("index", t[2][0], ("lit", "0"))
                else:
                    t = ("proj", t, v, acc)
            elif step[0] == "sfield":
                if t[0] == "struct" and t[3] is not None and step[1] in t[3]:
                    t = t[3][step[1]]
                else:
                    t = ("field", t, step[1])
            elif step[0] == "index":
                t = ("index", t, ("lit", str(step[1])))
            elif step[0] == "rindex":
                t = ("rindex", t, step[1])
            elif step[0] == "rest":
                t = ("rest", t)
        return t

    def _block_term(self, e):
        """term of a block expression (see _t)"""
        if T.is_template_block(e):
            return self._tpl(e, "quote")
        b = e["b"]
        early = []
        effs = []
        let_tries = []
        kept_in_place = []
        for st in b["stmts"]:
            sk = st.get("k")
            if sk == "SLet" and "init" in st and "els" not in st:
                si = strip(st["init"])
                if si.get("k") == "Match" and str(si.get("src", "")).startswith("TryDesugar"):
                    let_tries.append(st["init"])
            if sk in ("SSemi", "SExpr"):
                inner = strip(st["e"])
                handled = False
                if inner.get("k") == "If":
                    tt = self._t(inner["then"])
                    if "else" not in inner and tt[0] == "early" and _is_unit(tt[2]) and tt[1] and all(_diverges(v) for _c, v in tt[1]):
                        # if c1 { if c2 { return v } }   is the guard clause   if c1 && c2 { return v }
                        handled = True
                        c1 = self._t(inner["cond"])
                        for c2, v in tt[1]:
                            early.append((("op", "&&", [c1, c2]), v))
                    elif _diverges(tt):
                        handled = True
                        early.append((self._t(inner["cond"]), tt))
                        if "else" in inner:
                            et = self._t(inner["else"])
                            if _diverges(et):
                                early.append((("op", "Not", [self._t(inner["cond"])]), et))
                            elif et != ("lit", "()"):
                                effs.append(et)
                elif inner.get("k") == "Match" and inner.get("src") == "Normal":
                    mt = self._t(inner)
                    if mt[0] == "match" and any(_diverges(bt) for _p, _g, bt in mt[2]):
                        handled = True
                        early.append((("lit", "match"), mt))
                    elif mt[0] == "if" and _diverges(mt[2]) and _is_unit(mt[3]):
                        handled = True              # a two-arm match that reads as `if c { return .. }`
                        early.append((mt[1], mt[2]))
                    elif mt[0] == "if" and _diverges(mt[3]) and _is_unit(mt[2]):
                        handled = True
                        early.append((_not(mt[1]), mt[3]))
                if not handled and inner.get("k") in ("Call", "MethodCall", "Match", "If", "Loop", "Block") and inner.get("ty") != "!" \
                        and not self._is_mut_local_effect(inner):
                    et = self._t(inner)
                    if et[0] == "early" and et[1] and all(_diverges(v) for _c, v in et[1]) and not any(c == ("lit", "match") for c, _v in et[1]):
                        # a statement that is a guard clause followed by an unused value:  `opt.filter(p)?;`
                        early.extend(et[1])
                        base = et[2]
                        while base[0] in ("field", "proj"):
                            base = base[1]
                        seen = any(x == base for c, _v in et[1] for x in subterms(c))       # already evaluated by the guard itself
                        et = et[2] if not seen and any(x[0] in ("call", "try", "seq", "for", "mut") for x in subterms(et[2])) else ("lit", "()")
                    if not _is_unit(et) and not _diverges(et):
                        if _has_ret(et) and et[0] in ("if", "match", "seq", "iflet"):
                            # a statement that may leave the function keeps its place among the guard clauses (it is not moved behind later ones)
                            early.append((("lit", "match"), et))
                            kept_in_place.append((len(early) - 1, len(effs)))
                        else:
                            effs.append(et)
            elif sk == "SLet" and "init" in st and "els" not in st and _may_diverge(st["init"]):
                # let x = match y { Some(v) => v, None => return d };   is a guard clause of the block, then x = the value
                it = self._t(st["init"])
                if it[0] == "early" and it[1] and all(_diverges(v) for _c, v in it[1]) and not any(c == ("lit", "match") for c, _v in it[1]):
                    early.extend(it[1])
                    self._strip_early.add(id(st["init"]))
            elif sk == "SLet" and "els" in st:
                lc = _let(pat_repr(st["pat"]), self._t(st["init"]))
                if lc[0] == "iflet":
                    lc = ("iflet-not", lc[1], lc[2])
                elif lc[0] == "op" and lc[1] == "Not":
                    lc = lc[2][0]
                else:
                    lc = ("op", "Not", [lc])
                early.append((lc, self._t({"k": "Block", "b": st["els"], "ty": "!x"})))
        while kept_in_place and kept_in_place[-1][0] == len(early) - 1:
            # no guard clause follows it: an ordinary statement of the block, as before
            pos, epos = kept_in_place.pop()
            effs.insert(epos, early.pop(pos)[1])
        if "expr" in b:
            tail = self._t(b["expr"])
        else:
            tail = ("lit", "()")
            if b["stmts"]:
                last = b["stmts"][-1]
                if last.get("k") in ("SSemi", "SExpr"):
                    inner = strip(last["e"])
                    if inner.get("k") in ("Ret", "Break", "Continue"):
                        tail = self._t(inner)
                    elif inner.get("ty") == "!":
                        tail = ("opaque", "diverge")
        if tail == ("lit", "()") and e.get("ty") == "!":
            tail = ("opaque", "diverge")
        if id(e) in self._ret_blocks and tail[0] == "call" and tail[1] == "Option::map" and len(tail[2]) == 2 and tail[2][1][0] == "closure" and tail[2][1][2] == 1:
            clo = tail[2][1]
            if any(x == ("cparam", clo[1], 0) for x in subterms(clo[3])):
                tail = ("call", "Some", [_apply(clo, ("try", tail[2][0]))])      # opt.map(|v| f(v)) as the result of the function  ==  Some(f(opt?))
            else:
                tail = ("call", "then", [_let("v1::Some($)", tail[2][0]), _apply(clo, ("lit", "()"))])      # opt.map(|_| v)  ==  opt.is_some().then(|| v)
        if effs and tail[0] == "if" and (_is_unit(tail[3]) or _is_unit(tail[2])):
            both = _found_flag_loops(effs + [tail])
            if len(both) < len(effs) + 1:
                effs, tail = both, ("lit", "()")
        effs = _merge_extends(_found_flag_loops(effs))
        if not early and len(effs) == 1 and effs[0][0] == "for" and id(e) in self._ret_blocks:
            lp = effs[0]
            if lp[2][0] == "early" and len(lp[2][1]) == 1 and lp[2][1][0][1][0] == "ret" and _is_unit(lp[2][2]):
                # for x in it { if c(x) { return r(x) } } tail   ==   match it.find(c) { Some(x) => r(x), None => tail }
                base, el = _elem_of(lp[1])
                old_el = ("elem", lp[1])
                sub = (lambda n: el if n == old_el else None)
                return ("call", "search", [base, rewrite(lp[2][1][0][0], sub), rewrite(lp[2][1][0][1][1], sub), tail])
        if effs:
            # `{ f(x); }` is `f(x)` in every context that accepts the unit block
            tail = effs[0] if len(effs) == 1 and tail == ("lit", "()") and effs[0][0] in ("call", "for", "if", "match", "seq") else ("seq", effs, tail)
        if not early and id(e) in self._ret_blocks:
            tail = _opt_chain(tail)
        if early:
            early2 = []
            for c, v in early:
                for c2 in _split_or(c):
                    early2.append((c2, v))
            # if set.contains(x) { return }  set.insert(x); ..   ==   if !set.insert(x) { return } ..
            lc = early2[-1][0]
            first = tail[1][0] if tail[0] == "seq" and tail[1] else tail if tail[0] == "call" else None
            if lc[0] == "call" and lc[1] in ("HashSet::contains", "BTreeSet::contains") and first is not None and first[0] == "call" \
                    and first[1] == lc[1].replace("contains", "insert") and first[2] == lc[2]:
                early2[-1] = (("op", "Not", [first]), early2[-1][1])
                if tail[0] == "seq":
                    rest = tail[1][1:]
                    tail = ("seq", rest, tail[2]) if len(rest) > 1 or (rest and tail[2] != ("lit", "()")) else rest[0] if rest else tail[2]
                else:
                    tail = ("lit", "()")
            if id(e) in self._ret_blocks:
                return _ret_chain(early2, tail)      # guard clauses of the function body are an if / else chain
            early2, tail = _guards_to_try(early2, tail)      # `else { return Err(e) }` / `else { return None }` is `?` at any depth
            if not early2:
                return tail
            if id(e) in self._loop_blocks and all(v == ("continue",) and c != ("lit", "match") for c, v in early2):
                # `if c { continue }` filters of a loop body are an if / else chain around the rest of the body
                return _unreturn(("early", [(c, ("ret", ("lit", "()"))) for c, _v in early2], tail))
            return ("early", early2, tail)
        return tail

    def _t(self, e):
        if not isinstance(e, dict):
            return ("opaque", "none")
        k = e.get("k")
        if k in ("AddrOf", "DropTemps", "Use", "TypeAscr"):
            return self._t(e["e"])
        if e.get("ty") == "!" and k in ("Call", "MethodCall"):
            return ("opaque", "diverge")
        if k == "Unary":
            if e["op"] == "Deref":
                return self._t(e["e"])
            if e["op"] == "Not":
                return _not(self._t(e["e"]))
            return ("op", e["op"], [self._t(e["e"])])
        if k == "Path":
            if e.get("r") == "local":
                return self.local_term(e["id"], at=e)
            if e.get("dk") in ("Fn", "AssocFn") and e.get("path"):
                eta = self._eta(e["path"], e)
                if eta is not None:
                    return eta
            if str(e.get("dk", "")).startswith("Const") and self.program is not None and str(e.get("path", "")).startswith(LOCAL_CRATES):
                # a repo-local constant is its value (naming a literal does not change a term)
                cb = self.program.body(e["path"])
                if cb is not None and "body" in cb and e["path"] not in self._stack:
                    ct = Norm(cb, program=self.program, keep=self.keep, _stack=self._stack).term(cb["body"])
                    if len(_show(ct)) <= 400 and not any(x[0] in ("param", "cparam") for x in subterms(ct)):
                        return ct
            return ("def", cshort(e.get("path", "?")))
        if k == "Lit":
            return ("lit", e.get("v"))
        if k == "Field":
            b = self._t(e["base"])
            name = e["name"]
            if b[0] == "struct" and b[3] is not None and name in b[3]:
                return b[3][name]
            if b[0] == "tup" and name.isdigit() and int(name) < len(b[1]):
                return b[1][int(name)]
            if name.isdigit():
                d = _distribute_field(b, int(name))
                if d is not None:
                    return d
            return ("field", b, name)
        if k == "Call":
            c = e.get("callee")
            if c is None:
                f = self._t(e["f"])
                args = [self._t(a) for a in e["args"]]
                fl = strip(e["f"])
                once = fl.get("k") == "Path" and fl.get("r") == "local" and sum(
                    1 for x in walk(self.body["body"]) if x.get("k") == "Call" and "callee" not in x and strip(x.get("f", {})).get("id") == fl.get("id")) == 1
                if f[0] == "closure" and f[2] == len(args) and (once or len(_show(f[3])) < 400):
                    # calling a closure bound to a local is its body with the arguments in place (like a nested fn that captures)
                    d = f[1]

                    def beta(n):
                        if n[0] == "cparam":
                            if n[1] == d:
                                return args[n[2]] if n[2] < len(args) else None
                            if n[1] > d:
                                return ("cparam", n[1] - 1, n[2])
                        if n[0] == "closure" and n[1] > d:
                            return ("closure", n[1] - 1, n[2], n[3])
                        return None
                    return rewrite(f[3], beta)
                return ("call", "@call", [f] + args)
            if e.get("x") is not None and c.startswith("syn::__private::parse") and T.is_template_block(T.strip_keep_block(e["args"][0])) or \
               (c.startswith("syn::__private::parse") and e["args"] and T.is_empty_template(e["args"][0])):
                return self._tpl(e["args"][0], "parse_quote:" + e.get("ty", ""))
            if c == "quote::__private::mk_ident":
                f = T.parse_format_args(e["args"][0])
                if f is not None:
                    return ("call", "format_ident", [self._fmt(f)])
            if c in ("std::fmt::format", "alloc::fmt::format"):
                f = T.parse_format_args(e)
                if f is not None:
                    return self._fmt(f)
            if T.is_empty_template(e) and e.get("x") is not None:
                return ("tpl", "quote", "", [])
            name = cshort(c)
            if name == "__private::format_err" and c.startswith("anyhow::"):
                return ("call", "anyhow!", [])      # message text is not part of the term
            if c == "proc_macro2::TokenStream::new" and not e["args"]:
                return ("tpl", "quote", "", [])      # an empty token stream, however it is spelled
            inl = self._inline_call(c, e["args"], e)
            if inl is not None:
                return inl
            if name in GENERIC_SENSITIVE and e.get("gen"):
                name = name + "<" + _last_generic(e["gen"]) + ">"
            args = [self._t(a) for a in e["args"]]
            if name in _TO_STRING and len(args) == 1 and _is_string_conv(e, e["args"][0]):
                return args[0]       # &str / String -> String, however it is spelled, is the same text
            if name in ("From::from", "Into::into") and len(args) == 1 and _is_int_widening(e, e["args"][0]):
                return ("cast", peel_ty(e.get("ty", "")), args[0])
            if name == "ToTokens::to_tokens" and len(args) == 2:
                x = args[0] if args[0][0] == "tpl" and args[0][1] == "quote" else ("tpl", "quote", "#0", [args[0]])
                return _extend_over_match(args[1], x)     # x.to_tokens(ts)  ==  ts.extend(quote!(#x))
            if name in ("ToTokens::to_token_stream", "ToTokens::into_token_stream") and len(args) == 1:
                return ("tpl", "quote", "#0", [args[0]])       # ToTokens::to_token_stream(x)  ==  quote!(#x)
            if name == "FromIterator::from_iter" and len(args) == 1:
                return ("call", "Iterator::collect", args)          # T::from_iter(it)  ==  it.collect::<T>()
            if name == "__private::must_use" and len(args) == 1:
                return args[0]
            if name in TRANSPARENT and len(args) == 1:
                return args[0]
            if name == "boxed::box_assume_init_into_vec_unsafe" or name == "slice::into_vec":
                # vec![a, b] lowering: find the array literal
                for st in subterms(("tup", args)):
                    if st[0] == "array":
                        return ("call", "vec!", list(st[1]))
                return ("call", "vec!", args)
            if name == "Try::branch":
                return ("try", args[0])
            if name in ("Option::ok_or",) and len(args) == 2:
                return ("call", "ok_or", args)
            if e.get("dk", "").startswith("Ctor") and name in ("v1::Some", "Option::Some"):
                return ("call", "Some", args)
            if e.get("dk", "").startswith("Ctor") and name in ("v1::Ok", "Result::Ok"):
                if len(args) == 1:
                    return _mk_ok(args[0])
                return ("call", "Ok", args)
            if e.get("dk", "").startswith("Ctor") and name in ("v1::Err", "Result::Err"):
                return ("call", "Err", args)
            if c.startswith(LOCAL_CRATES) and not str(e.get("dk", "")).startswith("Ctor"):
                # a sequence handed to a function of this repository: collected into a Vec first or passed as the iterator, the callee sees
                # the same elements in the same order
                args = [a[2][0] if a[0] == "call" and a[1] == "Iterator::collect" and len(a[2]) == 1 else a for a in args]
            return ("call", name, args)
        if k == "MethodCall":
            name = cshort(e.get("callee", "?::" + e["name"]))
            if name in GENERIC_SENSITIVE and e.get("gen"):
                name = name + "<" + _last_generic(e["gen"]) + ">"
            if e.get("callee"):
                inl = self._inline_call(e["callee"], [e["recv"]] + e["args"], e)
                if inl is not None:
                    return inl
            recv = self._t(e["recv"])
            args = [self._t(a) for a in e["args"]]
            if name in _ETA_ADAPTORS and len(args) == 1 and args[0][0] == "def":
                # o.map(Ok)  ==  o.map(|v| Ok(v)): a constructor / function passed by name is the closure that calls it
                clo = _eta(args[0], getattr(self, "_cur_depth", 0) + 1)
                if clo is not None:
                    args = [clo]
            if name == "Option::map" and len(args) == 1 and args[0][0] == "closure" and args[0][2] == 1:
                if recv[0] == "call" and recv[1] == "Some" and len(recv[2]) == 1:
                    return ("call", "Some", [_apply(args[0], recv[2][0])])            # Some(x).map(f)  ==  Some(f(x))
                if recv == ("def", "v1::None"):
                    return recv
                if recv[0] == "call" and recv[1] == "then" and len(recv[2]) == 2:
                    return _mk_then(recv[2][0], _apply(args[0], recv[2][1]))          # c.then(|| v).map(f)  ==  c.then(|| f(v))
            if name == "Iterator::take" and len(args) == 1 and recv[0] == "call" and recv[1] == "iter::repeat" and len(recv[2]) == 1:
                # repeat(x).take(n)  ==  (0..n).map(|_| x): n times the same value
                d = getattr(self, "_cur_depth", 0) + 1

                def shift(n_):
                    if n_[0] == "cparam" and n_[1] >= d:
                        return ("cparam", n_[1] + 1, n_[2])
                    if n_[0] == "closure" and n_[1] >= d:
                        return ("closure", n_[1] + 1, n_[2], n_[3])
                    return None
                return ("call", "Iterator::map", [("struct", "ops::Range", "", {"start": ("lit", "0"), "end": args[0]}), ("closure", d, 1, rewrite(recv[2][0], shift))])
            if name == "ToTokens::to_tokens" and len(args) == 1:
                x = recv if recv[0] == "tpl" and recv[1] == "quote" else ("tpl", "quote", "#0", [recv])
                return _extend_over_match(args[0], x)     # x.to_tokens(ts)  ==  ts.extend(quote!(#x))
            if name == "Extend::extend" and len(args) == 1 and args[0][0] == "match":
                return _extend_over_match(recv, args[0])
            if name in ("ToTokens::to_token_stream", "ToTokens::into_token_stream") and not args:
                return ("tpl", "quote", "#0", [recv])       # x.to_token_stream()  ==  quote!(#x)
            if name in _TO_STRING and not args and _is_string_conv(e, e["recv"]):
                return recv
            if name in ("From::from", "Into::into") and not args and _is_int_widening(e, e["recv"]):
                return ("cast", peel_ty(e.get("ty", "")), recv)
            if name == "Into::into" and not args and peel_ty(e.get("ty", "")) in _INT_TYPES and "/#" in str(strip(e["recv"]).get("ty", "")):
                # inside a generic helper: which conversion this is is known once the helper's type parameter is (see _inline_call)
                return ("call", "Into::into<%s->%s>" % (peel_ty(strip(e["recv"]).get("ty", "")), peel_ty(e.get("ty", ""))), [recv])
            name = {"Vec::is_empty": "slice::is_empty", "Vec::len": "slice::len", "Vec::first": "slice::first", "Vec::last": "slice::last",
                    "ExactSizeIterator::len": "slice::len", "ExactSizeIterator::is_empty": "slice::is_empty"}.get(name, name)
            if not args and name in ("slice::len", "slice::is_empty"):
                # length-preserving adaptors: xs.iter().map(f).collect::<Vec<_>>() has as many elements as xs
                base = recv
                while True:
                    if base[0] == "try" and base[1][0] == "call" and base[1][1] == "Iterator::collect":
                        base = base[1]
                    elif base[0] == "call" and base[1] in ("Iterator::collect", "Iterator::cloned", "Iterator::copied", "Iterator::rev", "Iterator::enumerate") and len(base[2]) == 1:
                        base = base[2][0]
                    elif base[0] == "call" and base[1] == "Iterator::map" and len(base[2]) == 2:
                        base = base[2][0]
                    else:
                        break
                recv = base
            if not args and name in ("Option::is_some", "Option::is_none", "Result::is_ok", "Result::is_err"):
                c = _let({"Option::is_some": "v1::Some($)", "Option::is_none": "v1::Some($)", "Result::is_ok": "v1::Ok($)", "Result::is_err": "v1::Err($)"}[name], recv)
                return _not(c) if name == "Option::is_none" else c
            if name == "Entry::or_insert_with" and len(args) == 1 and (args[0] == ("def", "Default::default") or (
                    args[0][0] == "closure" and args[0][2] == 0 and args[0][3] == ("call", "Default::default", []))):
                return ("call", "Entry::or_default", [recv])
            if name == "Entry::or_insert" and len(args) == 1 and args[0] == ("call", "Default::default", []):
                return ("call", "Entry::or_default", [recv])
            if name == "Option::filter" and len(args) == 1 and args[0][0] == "closure" and args[0][2] == 1:
                # o.filter(p)  ==  (o is Some && p(payload)).then(|| payload)
                if not any(x[0] == "cparam" and x[1] == args[0][1] for x in subterms(args[0][3])):
                    return _mk_if(args[0][3], recv, ("def", "v1::None"))        # a predicate that ignores the payload: if p { o } else { None }
                cond, payload = _opt_body(recv)
                if cond is not None:
                    return ("call", "then", [("op", "&&", [cond, _apply(args[0], payload)]), payload])
            if name == "Option::or_else" and len(args) == 1 and args[0][0] == "closure" and args[0][2] == 0:
                # o.or_else(|| y)  ==  if o is Some { Some(payload of o) } else { y }
                cond, payload = _opt_body(recv)
                if cond is not None:
                    return _mk_if(cond, ("call", "Some", [payload]), _apply(args[0], None))
            if name == "Option::and_then" and len(args) == 1 and args[0][0] == "closure" and args[0][2] == 1:
                # o.and_then(|v| g(v))  ==  if o is Some { g(payload of o) } else { None }
                cond, payload = _opt_body(recv)
                if cond is not None:
                    return _mk_if(cond, _apply(args[0], payload), ("def", "v1::None"))
            if name == "Option::unwrap_or" and len(args) == 1:
                return _mk_iflet("v1::Some($)", recv, _proj_some(recv), args[0])
            if name == "Option::unwrap_or_else" and len(args) == 1 and args[0][0] == "closure" and args[0][2] == 0:
                return _mk_iflet("v1::Some($)", recv, _proj_some(recv), _apply(args[0], None))
            if name == "Option::unwrap_or_default" and not args and not (recv[0] == "call" and recv[1] == "then"):
                ty = peel_ty(e.get("ty", ""))
                dflt = ("lit", False) if ty == "bool" else ("tpl", "quote", "", []) if ty.endswith("TokenStream") \
                    else ("call", "String::new", []) if ty.endswith("string::String") else ("call", "Vec::new", []) if ty.startswith(("std::vec::Vec<", "alloc::vec::Vec<")) else None
                if dflt is not None:
                    return _mk_iflet("v1::Some($)", recv, _proj_some(recv), dflt)
            if name == "Option::map_or" and len(args) == 2 and args[1][0] == "closure" and args[1][2] == 1:
                return _mk_iflet("v1::Some($)", recv, _apply(args[1], _proj_some(recv)), args[0])
            if name == "Option::is_some_and" and len(args) == 1 and args[0][0] == "closure" and args[0][2] == 1:
                return _mk_iflet("v1::Some($)", recv, _apply(args[0], _proj_some(recv)), ("lit", False))
            if name == "Option::is_none_or" and len(args) == 1 and args[0][0] == "closure" and args[0][2] == 1:
                return _mk_iflet("v1::Some($)", recv, _apply(args[0], _proj_some(recv)), ("lit", True))
            if name in ("Option::unwrap", "Option::expect") and len(args) <= 1:
                return _proj_some(recv)                      # the payload; whether the unwrap can fail is K10's business, not the term's
            if name in ("Result::unwrap", "Result::expect") and len(args) <= 1:
                return ("proj", recv, "v1::Ok", "0")
            if name == "Option::ok_or" and len(args) == 1:
                return ("call", "ok_or", [recv, args[0]])
            if name == "Option::ok_or_else" and len(args) == 1 and args[0][0] == "closure" and args[0][2] == 0:
                return ("call", "ok_or", [recv, _apply(args[0], None)])
            if name == "Option::unwrap_or_default" and not args and recv[0] == "call" and recv[1] == "then" and e.get("ty", "").endswith("TokenStream"):
                return _mk_if(recv[2][0], recv[2][1], ("tpl", "quote", "", []))
            if name in TRANSPARENT and not args:
                return recv
            if name == "Iterator::map" and len(args) == 1 and args[0][0] == "closure" and args[0][2] == 1 and recv[0] == "call" and recv[1] == "Iterator::map" \
                    and len(recv[2]) == 2 and recv[2][1][0] == "closure" and recv[2][1][2] == 1 and recv[2][1][1] == args[0][1]:
                return ("call", "Iterator::map", [recv[2][0], _compose(args[0], recv[2][1])])        # it.map(f).map(g)  ==  it.map(|x| g(f(x)))
            if name == "Iterator::map" and len(args) == 1 and args[0][0] == "closure" and args[0][2] == 1 and recv[0] == "call" and recv[1] == "Iterator::filter_map" \
                    and len(recv[2]) == 2 and recv[2][1][0] == "closure" and recv[2][1][2] == 1:
                # it.filter_map(f).map(g)  ==  it.filter_map(|x| f(x).map(g))
                f = recv[2][1]
                g = args[0]
                inner = ("closure", g[1] + 1, g[2], rewrite(g[3], lambda n: ("cparam", n[1] + 1, n[2]) if n[0] == "cparam" and n[1] >= g[1]
                                                               else ("closure", n[1] + 1, n[2], n[3]) if n[0] == "closure" and n[1] >= g[1] else None))
                return ("call", "Iterator::filter_map", [recv[2][0], ("closure", f[1], 1, ("call", "Option::map", [f[3], inner]))])
            if name == "Iterator::collect" and not args and any(x[0] == "call" and x[1] in ("Iterator::chain", "iter::once") for x in subterms(recv, closures=False)):
                # once(a).chain(xs.map(f)).collect()  ==  the list built as: a, then f(x) for x in xs
                parts = _seq_parts(recv)
                if parts is not None:
                    return ("call", "vec+", parts)
            if name == "Iterator::collect" and not args and recv[0] == "call" and recv[1] == "Iterator::filter_map" and len(recv[2]) == 2 \
                    and recv[2][1][0] == "closure" and recv[2][1][2] == 1 and peel_ty(e.get("ty", "")).startswith(("std::result::Result<std::vec::Vec<", "core::result::Result<alloc::vec::Vec<")):
                # it.filter_map(|x| O.map(|y| R)).collect::<Result<Vec<_>, _>>()  ==  Ok of { for x in it { if let Some(y) = O { push R? } } }
                it, clo = recv[2]
                ob = _opt_body(_apply(clo, ("elem", it)), strict=True)
                if ob is not None:
                    c, v = ob
                    v = ("try", v)
                    return ("call", "Ok", [("call", "vec+", [("for", it, v if c is None else _mk_if(c, v, ("lit", "()")))])])
            if name == "Iterator::collect" and not args and recv[0] == "call" and recv[1] == "Iterator::filter_map" and len(recv[2]) == 2 \
                    and recv[2][1][0] == "closure" and recv[2][1][2] == 1 and peel_ty(e.get("ty", "")).startswith(("std::vec::Vec<", "alloc::vec::Vec<")):
                # it.filter_map(|x| O.map(|y| V)).collect::<Vec<_>>()  ==  for x in it { if let Some(y) = O { push V } }
                it, clo = recv[2]
                d = clo[1]
                el = ("elem", it)
                body = _apply(clo, el)
                ob = _opt_body(body, strict=True)
                if ob is not None:
                    c, v = ob
                    return ("call", "vec+", [("for", it, v if c is None else _mk_if(c, v, ("lit", "()")))])
            if name == "Result::and_then" and len(args) == 1 and args[0][0] == "closure" and args[0][2] == 1 and args[0][3][0] == "call" \
                    and args[0][3][1] == "Ok" and len(args[0][3][2]) == 1:
                # r.and_then(|v| Ok(X))  ==  r.map(|v| X)    (a `?` inside X leaves the closure with the error that the caller's `?` then passes on)
                name, args = "Result::map", [("closure", args[0][1], 1, args[0][3][2][0])]
            if name == "Result::map" and len(args) == 1 and args[0][0] == "closure" and args[0][2] == 1:
                # r.map(|v| X)  ==  match r { Ok(v) => Ok(X), Err(e) => Err(e) }
                d = args[0][1]
                okv = ("proj", recv, "v1::Ok", "0")
                X = _apply(args[0], okv)
                def once_per_path(x):
                    # the payload is used exactly once on every path through x (the branches of a conditional are different paths)
                    if x[0] == "if" and not any(y == okv for y in subterms(x[1])):
                        return once_per_path(x[2]) and once_per_path(x[3])
                    return sum(1 for y in subterms(x) if y == okv) == 1
                if id(e) in self._ret_blocks and once_per_path(X):
                    # as the result of the fn / closure (same error type by construction):  r.map(|v| X)  ==  Ok(X[r?])
                    return _mk_ok(rewrite(X, lambda n: ("try", recv) if n == okv else None))
                return self._canon_match(recv, [("v1::Ok($)", None, ("call", "Ok", [X])), ("v1::Err($)", None, ("call", "Err", [("proj", recv, "v1::Err", "0")]))])
            if name in ("Iterator::map", "Iterator::filter", "Iterator::filter_map") and len(args) == 1 and args[0][0] == "closure" and args[0][2] == 1 \
                    and recv[0] == "call" and recv[1] in ("Iterator::map", "Iterator::filter") and len(recv[2]) == 2 and recv[2][1][0] == "closure" \
                    and recv[2][1][2] == 1 and recv[2][1][1] == args[0][1]:
                return self._adaptor(name, recv, args[0])
            if name == "Iterator::filter_map" and len(args) == 1 and args[0][0] == "closure" and args[0][2] == 1 and args[0][3][0] == "call" and args[0][3][1] == "then" \
                    and len(args[0][3][2]) == 2:
                # it.filter_map(|x| c.then(|| v))  ==  it.filter(|x| c).map(|x| v)
                d = args[0][1]
                return ("call", "Iterator::map", [("call", "Iterator::filter", [recv, ("closure", d, 1, args[0][3][2][0])]), ("closure", d, 1, args[0][3][2][1])])
            if name == "Iterator::try_for_each" and len(args) == 1 and args[0][0] == "closure" and args[0][2] == 1:
                # it.try_for_each(|x| { body; Ok(()) })  ==  { for x in it { body } Ok(()) }   (`?` in the body leaves either form with the error)
                body = _apply(args[0], ("elem", recv))
                if body[0] == "seq" and body[2] in (("call", "Ok", [("lit", "()")]), ("call", "Ok", [("tup", [])])):
                    inner = body[1][0] if len(body[1]) == 1 else ("seq", body[1], ("lit", "()"))
                    return ("seq", [_mk_for(recv, inner)], body[2])
            if name == "Extend::extend" and len(args) == 1 and args[0][0] == "call" and args[0][1] in ("Iterator::map", "Iterator::filter", "Iterator::filter_map") \
                    and peel_ty(e["recv"].get("adj") or e["recv"].get("ty", "")).startswith(("std::vec::Vec<", "alloc::vec::Vec<")):
                # v.extend(it.filter(..).map(..))  ==  for x in it.filter(..).map(..) { v.push(x) }
                return _mk_for(args[0], ("call", "Vec::push", [recv, ("elem", args[0])]))
            if name == "Iterator::for_each" and len(args) == 1 and args[0][0] == "closure" and args[0][2] == 1:
                # it.for_each(|x| f(x))  ==  for x in it { f(x) }
                return _mk_for(recv, _apply(args[0], ("elem", recv)))
            if name == "bool::then" and len(args) == 1 and args[0][0] == "closure" and args[0][2] == 0:
                return _mk_then(recv, _apply(args[0], None))      # c.then(|| x)  ==  if c {Some(x)} else {None}
            if name == "bool::then_some" and len(args) == 1:
                return _mk_then(recv, args[0])
            if name.endswith("::expect") and len(args) == 1 and args[0][0] == "lit":
                args = []   # the message text is not part of the term
            return ("call", name, [recv] + args)
        if k == "Block":
            del _TRY_SUBS[:]
            r = self._block_term(e)
            subs = list(_TRY_SUBS)
            # `let x = f()?;` leaves the block when f() fails even if x is never used afterwards (or only in an erased position)
            pend = []
            for st in e["b"]["stmts"]:
                if st.get("k") == "SLet" and "init" in st and "els" not in st:
                    si = strip(st["init"])
                    if si.get("k") == "Match" and str(si.get("src", "")).startswith("TryDesugar"):
                        pt = self._t(st["init"])
                        for src, dst in subs:
                            pt = rewrite(pt, lambda n, src=src, dst=dst: dst if n == src else None)
                        if pt[0] == "try" and not any(x == pt or x == pt[1] for x in subterms(r)) and pt not in pend:
                            # a value that flows into an in-place update of something declared outside the block is kept by that update's
                            # term (with its `?`): it is not a statement of its own as well
                            bound = {x["id"] for x in walk(st["pat"]) if x.get("k") == "Bind"}
                            in_block = {id(x) for x in walk(e)}
                            flows = False
                            both = {}
                            for effs_ in self.effects.values():
                                for node_, kind_, _g in effs_:
                                    if id(node_) in in_block and (kind_ == "mutcall" or kind_.startswith("mutarg")):
                                        uses = lambda nd: any(x.get("k") == "Path" and x.get("r") == "local" and x.get("id") in bound for x in walk(nd))
                                        lg = next((self.def_ctx[b_][1] for b_ in bound if b_ in self.def_ctx), None)
                                        if lg is None:
                                            continue
                                        extra_g = _g[len(lg):] if _g[:len(lg)] == lg else None
                                        if extra_g is None:
                                            continue
                                        # (the update happens whenever the value exists, or the value is asked about before the update)
                                        if (not extra_g and uses(node_)) or any(g_[0] == "if" and uses(g_[1]) for g_ in extra_g[:1]):
                                            flows = True
                                        elif len(extra_g) == 1 and extra_g[0][0] == "if" and uses(node_):
                                            # .. or on either side of one test
                                            both.setdefault(id(extra_g[0][1]), set()).add(bool(extra_g[0][2]))
                                            if both[id(extra_g[0][1])] == {True, False}:
                                                flows = True
                            if not flows:
                                pend.append(pt)
            if pend:
                r = ("seq", pend + (list(r[1]) if r[0] == "seq" else []), r[2] if r[0] == "seq" else r)
            return r
        if k == "Match":
            src = e["src"]
            if src.startswith("TryDesugar"):
                sc = self._t(e["scrut"])
                if sc[0] == "try" and sc[1][0] == "call" and sc[1][1] in ("Ok", "Some") and len(sc[1][2]) == 1:
                    return sc[1][2][0]           # Ok(x)? is x (an inlined helper that cannot fail on this path)
                inner = sc[1] if sc[0] == "try" else sc
                if inner[0] == "call" and inner[1] == "ok_or" and len(inner[2]) == 2 and inner[2][0][0] == "call" and inner[2][0][1] == "Option::map" \
                        and len(inner[2][0][2]) == 2 and inner[2][0][2][1][0] == "closure" and inner[2][0][2][1][2] == 1:
                    # o.map(f).ok_or(e)?  ==  f(o.ok_or(e)?)
                    return _apply(inner[2][0][2][1], ("try", ("call", "ok_or", [inner[2][0][2][0], inner[2][1]])))
                if inner[0] == "call" and inner[1] == "Option::map" and len(inner[2]) == 2 and inner[2][1][0] == "closure" and inner[2][1][2] == 1:
                    return _apply(inner[2][1], ("try", inner[2][0]))          # o.map(f)?  ==  f(o?)
                if inner[0] == "call" and inner[1] == "then" and len(inner[2]) == 2:
                    return ("early", [(_not(inner[2][0]), ("ret", _NONE))], inner[2][1])      # c.then(|| v)?  ==  if !c { return None }  v
                return _mk_try(sc[1] if sc[0] == "try" else sc)
            fl = as_for_loop(e)
            if fl is not None:
                return _mk_for(self._t(fl[1]), self._t(fl[2]))
            if src.startswith("AwaitDesugar"):
                return ("opaque", "await")
            scr = self._t(e["scrut"])
            arms = []
            for a in e["arms"]:
                g = self._t(a["guard"]) if "guard" in a else None
                bt = self._t(a["body"])
                alts = _or_alternatives(a["pat"])
                if len(alts) > 1 and all(_ctor_of(q) for q in alts):
                    # `A{x} | B{x} => body` is two arms with the same body (bindings projected from their own variant)
                    ctors = {_ctor_of(q) for q in alts}
                    # all alternatives share the binding ids; each alternative takes them from its own places
                    for q in alts:
                        mine = _ctor_of(q)
                        saved, self.defs = self.defs, {}
                        try:
                            self._bind_pat(q, ("let", e["scrut"]), ())
                            mine_defs = self.defs
                        finally:
                            self.defs = saved
                        pairs = []
                        for bid, (origin, pth, _pat) in mine_defs.items():
                            if bid in self.defs and self.defs[bid][0][0] == "let" and self.defs[bid][1] != pth:
                                src = self._project(scr, self.defs[bid][1])
                                dst = self._project(scr, pth)
                                pairs.append((src, dst))

                        def ren(n, mine=mine, pairs=pairs):
                            for src, dst in pairs:
                                if n == src:
                                    return dst
                            if not pairs and n[0] == "proj" and n[2] in ctors and n[2] != mine:
                                return ("proj", n[1], mine, n[3])
                            return None
                        arms.append((pat_repr(q), rewrite(g, ren) if g else g, rewrite(bt, ren)))
                    continue
                arms.append((pat_repr(a["pat"]), g, bt))
            arms = self._expand_wildcard_arm(e, arms)
            arms = _expand_bool_tuple_arms(scr, arms)
            if scr[0] == "tup" and 2 <= len(scr[1]) <= 3 and len(arms) == 2 ** len(scr[1]) and all(g is None for _p, g, _b in arms) \
                    and all(re.fullmatch(r"\((true|false)(,(true|false))*\)", p) for p, _g, _b in arms) \
                    and not any(x[0] in ("try", "seq", "early", "ret", "mut", "for") for a in scr[1] for x in subterms(a)):
                # match (a, b) { (true, true) => .., .. }: the decision table over the components
                comps = {_show(a): a for a in scr[1]}
                if len(comps) == len(scr[1]) and all(_atoms_of(a) == [a] for a in scr[1]):
                    by_pat = {p: b for p, _g, b in arms}
                    order = [_show(a) for a in scr[1]]

                    def leaf_of(asg, order=order, by_pat=by_pat):
                        return by_pat["(" + ",".join("true" if asg[k] else "false" for k in order) + ")"]
                    return _decide_table(sorted(comps), comps, leaf_of)
            # `match x { v => body }` single irrefutable binding arm (format_ident! etc.)
            if len(arms) == 1 and e["arms"][0]["pat"].get("k") == "Bind":
                return arms[0][2]
            return self._canon_match(scr, arms)
        if k == "If":
            c = self._t(e["cond"])
            t = self._t(e["then"])
            el = self._t(e["else"]) if "else" in e else ("lit", "()")
            if _diverges(t) and _is_unit(el):
                return ("early", [(c, t)], ("lit", "()"))
            if t[0] == "call" and t[1] == "Some" and len(t[2]) == 1 and el == ("def", "v1::None"):
                return ("call", "then", [c, t[2][0]])
            if c[0] == "iflet":
                return self._iflet(c[1], c[2], t, el)
            return _mk_if(c, t, el)
        if k == "Let":
            return _let(pat_repr(e["pat"]), self._t(e["init"]))
        if k == "Closure":
            d = self.closure_depth.get(e["def"], 1)
            old = self._cur_depth
            self._cur_depth = d
            try:
                return ("closure", d, len(e["params"]), self._t(e["body"]))
            finally:
                self._cur_depth = old
        if k == "Struct":
            fields = {f["name"]: self._t(f["e"]) for f in e["fields"]}
            if "base" in e:
                # S { f: v, ..base }  is  base with f set to v  (the same value as `let mut b = base; b.f = v; b`)
                return ("mut", "?", self._t(e["base"]), [("assign", name, fields[name], []) for name in sorted(fields)])
            return ("struct", e.get("adt", e.get("path", "?")), e.get("variant", ""), fields)
        if k == "Tup":
            return ("tup", [self._t(x) for x in e["es"]])
        if k == "Array":
            return ("array", [self._t(x) for x in e["es"]])
        if k == "Repeat":
            return ("repeat", self._t(e["e"]))
        if k == "Binary":
            return _mk_cmp(e["op"], self._t(e["l"]), self._t(e["r"]))
        if k == "Cast":
            return ("cast", e.get("ty", "?"), self._t(e["e"]))
        if k == "Index":
            return ("index", self._t(e["base"]), self._t(e["idx"]))
        if k == "Ret":
            return ("ret", self._t(e["e"]) if "e" in e else ("lit", "()"))
        if k == "Break":
            return ("break", self._t(e["e"]) if "e" in e else ("lit", "()"))
        if k == "Continue":
            return ("continue",)
        if k == "Loop":
            return ("loop",)
        if k in ("Assign", "AssignOp"):
            return ("lit", "()")
        return ("opaque", str(k))

    def _tpl(self, n, kind):
        items = T.parse_template(n)
        slots = []

        def interp(expr, info):
            st = self._t(expr)
            if (info or {}).get("rep") and st[0] == "call" and st[1] == "Iterator::collect" and len(st[2]) == 1:
                st = st[2][0]       # `#( #xs )*` walks what it is given: a collected Vec and the iterator it was collected from give the same tokens
            if (info or {}).get("rep") and st[0] == "call" and st[1] == "Iterator::chain":
                parts = _seq_parts(st)
                if parts is not None:
                    st = ("call", "vec+", parts)
            if not (info or {}).get("rep") and st[0] == "if":
                # `#x` with x = if c { ts } else { quote!() }  is  `#x` with x = c.then(|| ts): nothing is emitted for None as for the empty stream
                EMPTY = ("tpl", "quote", "", [])
                if st[3] == EMPTY and st[2] != EMPTY:
                    st = _mk_then(st[1], st[2])
                elif st[2] == EMPTY and st[3] != EMPTY:
                    st = _mk_then(_not(st[1]), st[3])
            if st[0] == "tpl" and st[1] == "quote" and not (info or {}).get("rep"):
                # a token stream built by another quote! and interpolated as a whole: its tokens stand in its place
                base = len(slots)
                toks = []
                for tok in st[2].split(" "):
                    m = re.fullmatch(r"#(\d+)", tok)
                    toks.append("#%d" % (base + int(m.group(1))) if m else tok)
                slots.extend(st[3])
                return " ".join(toks)
            slots.append(st)
            return "#%d" % (len(slots) - 1)
        text = " ".join(T.render(items, interp).split())
        text, slots = _unroll_rep_literals(text, slots)
        text, slots = _fold_rep_groups(text, slots)
        text, slots = _hoist_single_slot_reps(text, slots)
        text, slots = _split_rep_parts(text, slots, getattr(self, "_cur_depth", 0) + 1)
        return _tpl_over_match(("tpl", kind, text, slots))

    def _fmt(self, parts):
        out = []
        for p in parts:
            if p[0] == "lit":
                out.append(("lit", p[1]))
            else:
                at = self._t(p[1])
                if at[0] == "fmt" and str(p[2]).strip(" {}:") in ("", "new_display"):
                    out.extend(at[1])              # the text of a nested format! stands in its place
                else:
                    out.append(("arg", p[2], at))
        merged = []
        for p in out:
            if p[0] == "lit" and merged and merged[-1][0] == "lit":
                merged[-1] = ("lit", merged[-1][1] + p[1])
            else:
                merged.append(p)
        return ("fmt", merged)


def _has_try(t):
    """a `?` in t outside nested closures (wherever it sits: call arguments, format arguments, conditions, operands, ..)"""
    return any(x[0] == "try" for x in subterms(t, closures=False))


def _split_or(c):
    if c[0] == "op" and c[1] == "||" and len(c[2]) == 2:
        return _split_or(c[2][0]) + _split_or(c[2][1])
    return [c]


def _mk_iflet(pat, scr, then, els):
    if scr[0] == "call" and scr[1] == "Iterator::find" and len(scr[2]) == 2 and scr[2][1][0] == "closure" and scr[2][1][2] == 1 \
            and pat.startswith(("v1::Some(", "Option::Some(")):
        base, el = _elem_of(scr[2][0])
        d = scr[2][1][1]
        pred = _apply(scr[2][1], el)
        hit = ("proj", scr, pat.split("(")[0], "0")
        return ("call", "search", [base, pred, rewrite(then, lambda n: el if n == hit else None), els])
    if scr[0] == "call" and scr[1] == "Iterator::position" and len(scr[2]) == 2 and scr[2][1][0] == "closure" and scr[2][1][2] == 1 \
            and pat.startswith(("v1::Some(", "Option::Some(")):
        # if let Some(i) = xs.iter().position(p) { ..xs[i].. } else { m }   ==   the same search by `find`: the hit is the element
        base, el = _elem_of(scr[2][0])
        if el == ("elem", base):
            pred = _apply(scr[2][1], el)
            pos = ("proj", scr, pat.split("(")[0], "0")
            at = ("index", base, pos)
            hit = rewrite(then, lambda n: el if n == at else None)
            if not any(x == pos for x in subterms(hit)):
                return ("call", "search", [base, pred, hit, els])
    # if let Some(x) = X { Ok(x) } else { Err(e) }   ==   X.ok_or(e)
    if pat in ("v1::Some($)", "Option::Some($)") and then[0] == "call" and then[1] == "Ok" and len(then[2]) == 1 \
            and _show(then[2][0]) == _show(("proj", scr, pat.split("(")[0], "0")) and els[0] == "call" and els[1] == "Err" and len(els[2]) == 1:
        return ("call", "ok_or", [scr, els[2][0]])
    if pat in ("v1::Some($)", "Option::Some($)") and els[0] == "ret" and not _diverges(then):
        # if let Some(v) = X { f(v) } else { return Err(e) }   ==   f(X.ok_or(e)?)        (likewise `else { return None }` and `X?`)
        payload = ("proj", scr, pat.split("(")[0], "0")
        tr = None
        if els[1][0] == "call" and els[1][1] == "Err" and len(els[1][2]) == 1:
            tr = ("try", ("call", "ok_or", [scr, els[1][2][0]]))
        elif els[1] == ("def", "v1::None"):
            tr = ("try", scr)
        if tr is not None and any(x == payload for x in subterms(then)):
            return rewrite(then, lambda n: tr if n == payload else None)
    if _diverges(then) and _is_unit(els):
        return ("early", [(_let(pat, scr), then)], ("lit", "()"))
    if pat in ("v1::Some($)", "Option::Some($)") and scr[0] == "match" and all(g is None for _p, g, _b in scr[2]) \
            and all(b == ("def", "v1::None") or (b[0] == "call" and b[1] == "Some" and len(b[2]) == 1) or (b[0] == "call" and b[1] == "then" and len(b[2]) == 2)
                    for _p, _g, b in scr[2]):
        # if let Some(v) = match x { A => Some(a), B => c.then(|| b), _ => None } { f(v) } else { e }
        #    ==   match x { A => f(a), B => if c { f(b) } else { e }, _ => e }
        payload = ("proj", scr, pat.split("(")[0], "0")

        def arm(b):
            if b == ("def", "v1::None"):
                return els
            if b[1] == "then":
                return _mk_if(b[2][0], rewrite(then, lambda n: b[2][1] if n == payload else None), els)
            return rewrite(then, lambda n: b[2][0] if n == payload else None)
        return _canon_match_free(scr[1], [(p, g, arm(b)) for p, g, b in scr[2]])
    return _mk_if(_let(pat, scr), then, els)        # matches!(x, PAT) == let PAT = x



def _rets(b):
    return b[0] == "ret" or (b[0] == "seq" and b[2][0] == "ret")


def _ret_chain(early, tail):
    """the trailing run of `if c { return v }` guard clauses of a return block becomes an if / else chain over what follows; a
    match statement whose arms either return or fall through (`=> {}`) becomes the match whose falling-through arms carry what
    follows. Clauses before an entry that cannot be converted stay guard clauses"""
    def convertible(c, v):
        if c == ("lit", "match"):
            return v[0] == "match" and all(g is None and (_rets(b) or _is_unit(b)) for _p, g, b in v[2])
        return _rets(v)
    k = len(early)
    while k > 0 and convertible(*early[k - 1]):
        k -= 1
    pre, suf = list(early[:k]), list(early[k:])

    def finish(run, rest):
        if run:
            run, rest = _guards_to_try(run, rest)
            rest = _unreturn(("early", run, rest)) if run else rest
        return rest
    run = []
    for c, v in reversed(suf):
        if c == ("lit", "match"):
            tail = finish(run, tail)
            run = []
            tail = ("match", v[1], [(p, g, _unreturn(b) if _rets(b) else tail) for p, g, b in v[2]])
        else:
            run.insert(0, (c, v))
    tail = finish(run, tail)
    tail = _opt_chain(tail)
    return ("early", pre, tail) if pre else tail


def _opt_chain(t):
    """as the result of a fn / closure:  if let Some(v) = X { f(v) } else { None }   ==   f(X?)     (likewise inside else branches)"""
    if t[0] == "if":
        els = _opt_chain(t[3])
        c = t[1]
        if c[0] == "iflet" and re.fullmatch(r"(v1|Option)::Some\(\$\)", c[1]) and els == ("def", "v1::None"):
            payload = ("proj", c[2], c[1].split("(")[0], "0")
            tr = ("try", c[2])
            return _opt_chain(rewrite(t[2], lambda n: tr if n == payload else None))
        if els is not t[3]:
            return ("if", c, t[2], els)
    return t


def _guards_to_try(early, tail):
    """let Some(x) = X else { return Err(E) };  ..x..   ==   ..X.ok_or(E)?..      (and `else { return None }` is `X?`)"""
    out = []
    subs = []

    def sub_all(t):
        for src, dst in subs:
            t = rewrite(t, lambda n, src=src, dst=dst: dst if n == src else None)
        return t
    for c, v in early:
        c, v = (c[0], c[1], sub_all(c[2])) if c[0] in ("iflet", "iflet-not") else sub_all(c), sub_all(v)
        if c[0] == "iflet-not" and re.fullmatch(r"(v1|Option)::Some\([$_(){}:,\w]*\)", c[1]) and "::" not in c[1][c[1].index("(") :]:
            X = c[2]
            payload = ("proj", X, c[1].split("(")[0], "0")
            if v[0] == "ret" and v[1][0] == "call" and v[1][1] == "Err" and len(v[1][2]) == 1:
                subs.append((payload, ("try", ("call", "ok_or", [X, v[1][2][0]]))))
                continue
            if v[0] == "ret" and v[1] == ("def", "v1::None"):
                subs.append((payload, ("try", X)))
                continue
        out.append((c, v))
    _TRY_SUBS.extend(subs)
    return out, sub_all(tail)


_TRY_SUBS = []      # the let-else rewrites of the block being normalised (read by the unused `let x = f()?` rule of the same block)


def _unreturn(t):
    """value of an inlined function body: `return v` becomes the value v"""
    if t[0] == "ret":
        return _unreturn(t[1])
    if t[0] == "early":
        res = _unreturn(t[2])
        for c, v in reversed(t[1]):
            if _rets(v):
                val = _unreturn(v)           # `return x`, or `{ effects; return x }`
                if val[0] == "seq" and _is_unit(val[2]) and len(val[1]) == 1:
                    val = val[1][0]
                if c[0] == "iflet-not":
                    res = _mk_iflet(c[1], c[2], res, val)
                elif c[0] == "iflet":
                    res = _mk_iflet(c[1], c[2], val, res)
                elif c[0] == "op" and c[1] == "Not" and len(c[2]) == 1:
                    res = _mk_if(c[2][0], res, val)
                else:
                    res = _mk_if(c, val, res)
            else:
                return t
        return res
    if t[0] == "seq":
        return ("seq", t[1], _unreturn(t[2]))
    if t[0] == "if" and (_has_ret(t[2]) or _has_ret(t[3])):
        a, b = _unreturn(t[2]), _unreturn(t[3])           # the branches of a conditional in result position are in result position
        if a is not t[2] or b is not t[3]:
            return _mk_if(t[1], a, b)
    if t[0] == "match" and any(_has_ret(b) for _p, _g, b in t[2]):
        return ("match", t[1], [(p, g, _unreturn(b)) for p, g, b in t[2]])
    return t


def _is_unit(t):
    if t == ("lit", "()"):
        return True
    if t[0] == "if":
        return _is_unit(t[2]) and _is_unit(t[3])
    if t[0] == "seq":
        return not t[1] and _is_unit(t[2])
    if t[0] == "for":
        return _is_unit(t[2])
    return False


def _diverges(t):
    if t[0] in ("ret", "break", "continue"):
        return True
    if t[0] == "opaque" and t[1] == "diverge":
        return True
    if t[0] == "early":
        return _diverges(t[2])
    return False


def _root_local(e):
    """the local at the root of a place expression x.f.g[i] / *x / x.method-transparent()"""
    while isinstance(e, dict):
        e = strip(e)
        k = e.get("k")
        if k == "Path":
            return e["id"] if e.get("r") == "local" else None
        if k == "Field":
            e = e["base"]
        elif k == "Index":
            e = e["base"]
        else:
            return None
    return None


def as_for_loop(n):
    """Match[ForLoopDesugar] IntoIterator::into_iter(it) { mut iter => loop { match next(&mut iter) { None => break, Some(pat) => body } } }
    -> (pat, it_expr, body_expr) or None"""
    if not (isinstance(n, dict) and n.get("k") == "Match" and n.get("src") == "ForLoopDesugar"):
        return None
    sc = strip(n["scrut"])
    if sc.get("k") != "Call" or not sc.get("callee", "").endswith("IntoIterator::into_iter"):
        return None
    it = sc["args"][0]
    loop = strip(n["arms"][0]["body"])
    if loop.get("k") != "Loop":
        return None
    b = loop["body"]
    inner = b.get("expr") or (b["stmts"][0]["e"] if b["stmts"] else None)
    inner = strip(inner)
    if not (isinstance(inner, dict) and inner.get("k") == "Match"):
        return None
    for a in inner["arms"]:
        p = a["pat"]
        if p.get("k") in ("PStruct", "PTupleStruct") and p.get("path", "").endswith("Some"):
            sub = p["fields"][0]["p"] if p["k"] == "PStruct" else p["ps"][0]
            return sub, it, a["body"]
    return None


def _is_struct_pat(p):
    """the pattern destructures a plain struct (irrefutable at this level), not an enum variant"""
    dk = str(p.get("dk", ""))
    return dk == "Struct" or dk.startswith("Ctor(Struct") or dk.startswith("SelfTy") or dk.startswith("SelfCtor") or p.get("r") in ("selfty", "selfctor")


def pat_repr(p):
    k = p.get("k")
    if k == "Wild":
        return "_"
    if k == "Bind":
        return "$" + (("@" + pat_repr(p["sub"])) if "sub" in p else "")
    if k in ("PRef", "PBox", "PDeref"):
        return pat_repr(p["p"])
    if k == "PTuple":
        return "(" + ",".join(pat_repr(q) for q in p["ps"]) + ")"
    if k in ("PTupleStruct", "PStruct") and _is_struct_pat(p):
        subs = [pat_repr(q) for q in p["ps"]] if k == "PTupleStruct" else [pat_repr(f["p"]) for f in p["fields"]]
        if all(x in ("$", "_") for x in subs):
            # destructuring a struct into binders cannot fail: the same as binding (or ignoring) the whole value
            return "$" if "$" in subs else "_"
    if k == "PTupleStruct":
        return ("" if _is_struct_pat(p) else cshort(p.get("path", "?"))) + "(" + ",".join(pat_repr(q) for q in p["ps"]) + ")"
    if k == "PStruct":
        return ("" if _is_struct_pat(p) else cshort(p.get("path", "?"))) + "{" + ",".join(f["name"] + ":" + pat_repr(f["p"]) for f in p["fields"]) + "}"
    if k == "Or":
        return "|".join(sorted(pat_repr(q) for q in p["ps"]))
    if k == "PExpr":
        e = p["e"]
        if e["k"] == "PLit":
            v = e.get("v")
            return ("true" if v else "false") if isinstance(v, bool) else repr(v)
        return cshort(e.get("path", "?"))
    if k == "PSlice":
        parts = [pat_repr(q) for q in p["before"]]
        if "mid" in p:
            parts.append("..")
        parts += [pat_repr(q) for q in p["after"]]
        return "[" + ",".join(parts) + "]"
    if k == "PGuard":
        return pat_repr(p["p"]) + " if .."
    return str(k)


def _merge_extends(effs):
    """tokens.extend(quote!(a)); tokens.extend(quote!(b));   ==   tokens.extend(quote!(a b));"""
    out = []
    for x in effs:
        p = out[-1] if out else None
        if p is not None and x[0] == "call" and p[0] == "call" and x[1] == p[1] == "Extend::extend" and len(x[2]) == len(p[2]) == 2 and x[2][0] == p[2][0] \
                and x[2][1][0] == "tpl" and p[2][1][0] == "tpl" and x[2][1][1] == p[2][1][1] == "quote":
            a, b = p[2][1], x[2][1]
            base = len(a[3])
            toks = []
            for tok in b[2].split(" "):
                m = re.fullmatch(r"#(\d+)", tok)
                toks.append("#%d" % (base + int(m.group(1))) if m else tok)
            out[-1] = ("call", "Extend::extend", [x[2][0], ("tpl", "quote", " ".join((a[2] + " " + " ".join(toks)).split()), list(a[3]) + list(b[3]))])
        else:
            out.append(x)
    return out


def _found_flag_loops(effs):
    """let mut found = false; for x in it { if c { A; found = true; break } } if !found { B }   ==   search(it, c, A, B)"""
    out = []
    i = 0
    while i < len(effs):
        a = effs[i]
        b = effs[i + 1] if i + 1 < len(effs) else None
        done = False
        if b is not None and a[0] == "for" and a[2][0] == "if" and _is_unit(a[2][3]) and b[0] == "if" and _is_unit(b[2]) \
                and b[1][0] == "call" and b[1][1] == "Iterator::any" and len(b[1][2]) == 2 and b[1][2][1][0] == "closure":
            # (`if !found { B }` is kept as `if found {} else { B }`; the flag itself reads `it.any(|x| c)`)
            it, c, hit = a[1], a[2][1], a[2][2]
            acts = None
            if hit[0] == "seq" and hit[2][0] == "break":
                acts = hit[1]
            elif hit[0] == "break":
                acts = []
            if acts is not None and b[1][2][0] == it and _apply(b[1][2][1], ("elem", it)) == c:
                A = ("lit", "()") if not acts else acts[0] if len(acts) == 1 else ("seq", acts[:-1], acts[-1])
                out.append(("call", "search", [it, c, A, b[3]]))
                i += 2
                done = True
        if not done:
            out.append(a)
            i += 1
    return out


def _proj_some(O):
    """payload of `O` known to be Some: `opt.map(|v| X)` carries X of opt's payload"""
    if O[0] == "call" and O[1] == "Option::map" and len(O[2]) == 2 and O[2][1][0] == "closure" and O[2][1][2] == 1:
        d = O[2][1][1]
        inner = _proj_some(O[2][0])
        return _apply(O[2][1], inner)
    if O[0] == "call" and O[1] == "Option::and_then" and len(O[2]) == 2 and O[2][1][0] == "closure" and O[2][1][2] == 1:
        return _proj_some(_apply(O[2][1], _proj_some(O[2][0])))
    if O[0] == "call" and O[1] == "Option::zip" and len(O[2]) == 2:
        return ("tup", [_proj_some(O[2][0]), _proj_some(O[2][1])])
    if O[0] == "if" and O[3] == ("def", "v1::None"):
        return _proj_some(O[2])          # the payload of `if c { a } else { None }`, known to be Some, is a's
    if O[0] == "if" and O[2] == ("def", "v1::None"):
        return _proj_some(O[3])
    if O[0] == "call" and O[1] == "then" and len(O[2]) == 2:
        return O[2][1]
    if O[0] == "call" and O[1] == "Some" and len(O[2]) == 1:
        return O[2][0]
    return ("proj", O, "v1::Some", "0")


def _opt_body(f, strict=False):
    """an Option-valued term as (condition under which it is Some, payload): `c.then(|| v)`, `Some(v)` with `o?` inside,
    `o.map(|y| v)`, or any other option `o` (Some iff o is, payload of o)"""
    if f[0] == "call" and f[1] == "then" and len(f[2]) == 2:
        return f[2][0], f[2][1]
    if f[0] == "call" and f[1] == "Some" and len(f[2]) == 1:
        tries = []
        for st in subterms(f[2][0]):
            if st[0] == "try" and st not in tries:
                tries.append(st)
        tries = [t for t in tries if not any(t is not u and any(x == t for x in subterms(u[1])) for u in tries)] or tries
        v = f[2][0]
        cond = None
        for t in tries:
            payload = _proj_some(t[1])
            v = rewrite(v, lambda n, t=t, payload=payload: payload if n == t else None)
            c1 = _let("v1::Some($)", t[1])
            cond = c1 if cond is None else ("op", "&&", [cond, c1])
        return cond, v
    if f[0] == "call" and f[1] == "Option::map" and len(f[2]) == 2 and f[2][1][0] == "closure" and f[2][1][2] == 1:
        return _let("v1::Some($)", f[2][0]), _apply(f[2][1], _proj_some(f[2][0]))
    if strict:
        return None
    return _let("v1::Some($)", f), _proj_some(f)


def _mk_for(it, body):
    """for x in ADAPTOR(it) { body }: map / filter / filter_map adaptors fused into the loop body"""
    b0 = body
    while b0[0] == "seq" and all(x == ("tup", []) or _is_unit(x) for x in b0[1]):
        b0 = b0[2]
    if (b0 == ("tup", []) or _is_unit(b0)) and not _has_try(it) and not any(x[0] in ("mut", "ret") for x in subterms(it)):
        return ("lit", "()")          # a loop that does nothing for every element (what it did was read as updates of what it updates)
    if it[0] == "call" and it[1] in ("Iterator::map", "Iterator::filter", "Iterator::filter_map") and len(it[2]) == 2 \
            and it[2][1][0] == "closure" and it[2][1][2] == 1:
        base, clo = it[2]
        d = clo[1]
        old = ("elem", it)
        el = ("elem", base)
        f = _apply(clo, el)
        if it[1] == "Iterator::map":
            return _mk_for(base, rewrite(body, lambda n: f if n == old else None))
        if it[1] == "Iterator::filter":
            return _mk_for(base, _mk_if(f, rewrite(body, lambda n: el if n == old else None), ("lit", "()")))
        c, v = _opt_body(f)
        inner = rewrite(body, lambda n: v if n == old else None)
        return _mk_for(base, inner if c is None else _mk_if(c, inner, ("lit", "()")))
    if it[0] == "call" and it[1] == "Iterator::flat_map" and len(it[2]) == 2 and it[2][1][0] == "closure" and it[2][1][2] == 1:
        # for y in xs.flat_map(|x| ys(x)) { body }  ==  for x in xs { for y in ys(x) { body } }
        base, clo = it[2]
        inner_it = _apply(clo, ("elem", base))
        old = ("elem", it)
        el = ("elem", inner_it)
        return _mk_for(base, _mk_for(inner_it, rewrite(body, lambda n: el if n == old else None)))
    old = ("elem", it)
    if it[0] == "call" and it[1] == "iter::once" and len(it[2]) == 1:
        return rewrite(body, lambda n: it[2][0] if n == old else None)          # for x in once(a) { body }  ==  body[a]
    if it[0] == "call" and it[1] == "iter::empty" and not it[2]:
        return ("tup", [])
    if it[0] == "call" and it[1] == "Iterator::chain" and len(it[2]) == 2 and not _loop_control(body):
        # for x in a.chain(b) { body }  ==  for x in a { body }  for x in b { body }
        parts = [_mk_for(src, rewrite(body, (lambda src: (lambda n: ("elem", src) if n == old else None))(src))) for src in it[2]]
        parts = [x for x in parts if x not in (("lit", "()"), ("tup", []))]
        if not parts:
            return ("tup", [])
        flat = []
        for x in parts:
            if x[0] == "seq" and x[2] != ("lit", "()") and all(True for _ in x[1]):
                flat.extend(list(x[1]) + [x[2]])
            else:
                flat.append(x)
        return flat[0] if len(flat) == 1 else ("seq", flat[:-1], flat[-1])
    if body[0] == "call" and body[1] == "Extend::extend" and len(body[2]) == 2 and body[2][1] == ("tpl", "quote", "#0", [old]) \
            and not any(x == old for x in subterms(body[2][0])):
        # for x in xs { x.to_tokens(ts) }  ==  ts.extend(quote!( #( #xs )* ))
        return ("call", "Extend::extend", [body[2][0], ("tpl", "quote", "#( #0 )*", [it])])
    if it[0] == "call" and it[1] == "Iterator::collect" and len(it[2]) == 1 and it[2][0][0] != "try":
        # for x in it.collect::<Vec<_>>() { body }  ==  for x in it { body }   (the elements and their order are the same)
        base = it[2][0]
        el = ("elem", base)
        return _mk_for(base, rewrite(body, lambda n: el if n == old else None))
    if it[0] == "call" and it[1] in ("vec!", "Vec::new") and len(it[2]) <= 4 and not _loop_control(body):
        # for x in vec![a, b] { body }  ==  body[a]; body[b]
        runs = [rewrite(body, (lambda a: (lambda n: a if n == old else None))(a)) for a in it[2]]
        if not runs:
            return ("tup", [])
        return runs[0] if len(runs) == 1 else ("seq", runs[:-1], runs[-1])
    if it[0] == "match" and all(a[1] is None for a in it[2]) and not _diverges(it):
        # for x in match s { p => xs, q => ys } { body }  ==  match s { p => for x in xs { body }, q => for x in ys { body } }
        arms = []
        for a in it[2]:
            ai = a[2]
            el = ("elem", ai)
            arms.append((a[0], a[1], _mk_for(ai, rewrite(body, (lambda el: (lambda n: el if n == old else None))(el)))))
        return _canon_match_free(it[1], arms)
    return ("for", it, body)


_ETA_ADAPTORS = ("Option::map", "Result::map", "Iterator::map", "Option::and_then", "Iterator::filter_map", "Iterator::for_each", "Iterator::flat_map",
                 "Result::map_err", "Result::and_then")


def _eta(f, d):
    """the closure |x| f(x) of a function / constructor passed by name (only where the call has a canonical spelling of its own)"""
    x = ("cparam", d, 0)
    n = f[1]
    if n in ("v1::Ok", "Result::Ok", "Ok"):
        return ("closure", d, 1, ("call", "Ok", [x]))
    if n in ("v1::Some", "Option::Some", "Some"):
        return ("closure", d, 1, ("call", "Some", [x]))
    if n in ("v1::Err", "Result::Err", "Err"):
        return ("closure", d, 1, ("call", "Err", [x]))
    if n in ("Box::new",) or n in TRANSPARENT:
        return ("closure", d, 1, x)
    return None



def _elem_to_param(it, d):
    """the rewrite that turns a loop body into the body of the closure |x| .. at depth d: the loop element becomes the closure parameter and the
    closures of the body end up one level deeper (rewrite works bottom-up: by the time an `elem(it)` node is seen the closures inside `it` have
    been moved already, so both spellings are the element)"""
    def shift(n):
        if n[0] == "cparam" and n[1] >= d:
            return ("cparam", n[1] + 1, n[2])
        if n[0] == "closure" and n[1] >= d:
            return ("closure", n[1] + 1, n[2], n[3])
        return None
    keys = {_show(("elem", it)), _show(("elem", rewrite(it, shift)))}

    def sub(n):
        if n[0] == "elem" and _show(n) in keys:
            return ("cparam", d, 0)
        return shift(n)
    return sub


def _loop_control(t):
    return any(x[0] in ("break", "continue") for x in subterms(t))


def _elem_of(it):
    """(underlying iterator, term of one element) with `map` adaptors fused into the element"""
    if it[0] == "call" and it[1] == "Iterator::map" and len(it[2]) == 2 and it[2][1][0] == "closure" and it[2][1][2] == 1:
        base, el = _elem_of(it[2][0])
        d = it[2][1][1]
        return base, _apply(it[2][1], el)
    return it, ("elem", it)


def _only_continue(blk):
    blk = strip(blk)
    if blk.get("k") == "Continue":
        return True
    if blk.get("k") == "Block":
        blk = blk["b"]
    if "stmts" not in blk:
        return False
    items = [st["e"] for st in blk["stmts"] if st.get("k") in ("SSemi", "SExpr")]
    if len(items) != len(blk["stmts"]):
        return False
    if "expr" in blk:
        items.append(blk["expr"])
    return len(items) == 1 and strip(items[0]).get("k") == "Continue" and "label" not in strip(items[0])


def _exit_guard(st):
    """the condition under which the statements after `st` run, when `st` is a guard clause: `if c { return / continue / break }`
    (no else) or `let PAT = X else { .. }`"""
    sk = st.get("k")
    if sk in ("SSemi", "SExpr"):
        inner = strip(st["e"])
        if inner.get("k") == "If" and "else" not in inner and (strip(inner["then"]).get("ty") == "!" or _only_continue(inner["then"])):
            return ("if", inner["cond"], False)
    elif sk == "SLet" and "els" in st:
        return ("arm", st["init"], pat_repr(st["pat"]))
    return None


def _continue_guard(st):
    """the guard a loop-body statement imposes on the statements after it, if it is a plain `continue` filter"""
    sk = st.get("k")
    if sk in ("SSemi", "SExpr"):
        inner = strip(st["e"])
        if inner.get("k") == "If" and "else" not in inner and _only_continue(inner["then"]):
            return ("if", inner["cond"], False)
    elif sk == "SLet" and "els" in st and _only_continue(st["els"]):
        return ("arm", st["init"], pat_repr(st["pat"]))
    return None


def _mark_tail(node, acc):
    """blocks in tail position of a fn / closure body (through block tails, if / else branches and match arms)"""
    n = node
    while isinstance(n, dict) and n.get("k") in ("DropTemps", "Use"):
        n = n["e"]
    if not isinstance(n, dict):
        return
    k = n.get("k")
    if k == "Block":
        acc.add(id(n))
        if "expr" in n["b"]:
            _mark_tail(n["b"]["expr"], acc)
    elif k == "If":
        _mark_tail(n["then"], acc)
        if "else" in n:
            _mark_tail(n["else"], acc)
    elif k == "Match" and n.get("src") == "Normal":
        for a in n["arms"]:
            _mark_tail(a["body"], acc)
    else:
        acc.add(id(n))          # an expression whose value is the value of the fn / closure


def _may_diverge(node):
    """the expression contains a return / break / continue outside closures"""
    for n in walk(node, False):
        if n.get("k") in ("Ret", "Break", "Continue"):
            if not any(True for _ in ()):
                return True
    return False


def _has_other_exit(body):
    """return / continue / labelled break inside a loop body (a plain `break` is allowed: it ends a search)"""
    stack = [body]
    while stack:
        n = stack.pop()
        if not isinstance(n, dict):
            continue
        k = n.get("k")
        if k in ("Continue", "Ret") or (k == "Break" and ("label" in n or "e" in n)):
            return True
        if k == "Closure":
            continue
        if k == "Match" and str(n.get("src", "")).startswith("TryDesugar"):
            return True
        if k == "Match" and as_for_loop(n) is not None:
            fl = as_for_loop(n)
            stack.append(fl[1])
            stack.append(fl[2])
            continue
        stack.extend(children(n))
    return False


def _breaks_after(body, assign_node):
    """the block that contains the assignment ends with `break` right after it (first match wins)"""
    for n in walk(body, False):
        if n.get("k") is None and "stmts" in n:
            items = [st["e"] for st in n["stmts"] if st.get("k") in ("SSemi", "SExpr")]
            if "expr" in n:
                items.append(n["expr"])
            for i, x in enumerate(items):
                if strip(x) is assign_node or x is assign_node:
                    return i + 1 < len(items) and strip(items[i + 1]).get("k") == "Break"
    return False


def _has_loop_exit(body):
    """continue / break / return / `?` directly in a loop body (closures excluded): the loop is not a plain map over its iterator"""
    stack = [body]
    b0 = strip(body)
    if b0.get("k") == "Block":
        # top-level `continue` filters are accounted for as guards of the statements after them
        stack = []
        for st in b0["b"]["stmts"]:
            if _continue_guard(st) is not None:
                stack.append(st["e"]["cond"] if st.get("k") in ("SSemi", "SExpr") else st["init"])
            else:
                stack.append(st)
        if "expr" in b0["b"]:
            stack.append(b0["b"]["expr"])
    while stack:
        n = stack.pop()
        if not isinstance(n, dict):
            continue
        k = n.get("k")
        if k in ("Continue", "Break", "Ret"):
            return True
        if k == "Closure":
            continue
        if k == "Match" and str(n.get("src", "")).startswith("TryDesugar"):
            stack.append(n["scrut"])       # `?` is handled by the callers (hoisted)
            continue
        if k == "Match" and as_for_loop(n) is not None:
            fl = as_for_loop(n)
            stack.append(fl[1])
            stack.append(fl[2])            # the desugared `break` of an inner loop is not an exit of this one
            continue
        stack.extend(children(n))
    return False


def _split_top(t, sep):
    parts, depth, cur = [], 0, []
    i = 0
    while i < len(t):
        ch = t[i]
        if ch == "'":
            j = t.find("'", i + 1)
            j = len(t) - 1 if j < 0 else j
            cur.append(t[i:j + 1])
            i = j + 1
            continue
        if ch in "([{":
            depth += 1
        elif ch in ")]}":
            depth -= 1
        if ch == sep and depth == 0:
            parts.append("".join(cur))
            cur = []
        else:
            cur.append(ch)
        i += 1
    parts.append("".join(cur))
    return parts


def _pat_parse(s):
    """pattern string (pat_repr) -> tree: ('wild',) | ('alt', [trees]) | ('node', head, [children]) ; None when not understood"""
    s = s.strip()
    alts = _split_top(s, "|")
    if len(alts) > 1:
        ts = [_pat_parse(a) for a in alts]
        return None if any(t is None for t in ts) else ("alt", ts)
    if s in ("_", "$", ".."):
        return ("wild",)
    if s.startswith("$@"):
        return _pat_parse(s[2:])
    if " if .." in s:
        return None
    for o, c in (("(", ")"), ("{", "}"), ("[", "]")):
        i = s.find(o)
        if i >= 0 and s.endswith(c) and not any(x in s[:i] for x in "([{"):
            head = s[:i] + o
            inner = s[i + 1:-1]
            kids = []
            if inner:
                for part in _split_top(inner, ","):
                    if o == "{" and ":" in part:
                        fname, _sep, sub = part.partition(":")
                        t = _pat_parse(sub)
                        kids.append(None if t is None else ("node", "." + fname, [t]))
                    else:
                        kids.append(_pat_parse(part))
            if any(k is None for k in kids):
                return None
            if o == "[" and any(k == ("wild",) and p.strip() == ".." for k, p in zip(kids, _split_top(inner, ","))):
                return None          # slice patterns with a rest: not analysed
            return ("node", head, kids)
    return ("node", s, [])


def _pat_overlap(a, b):
    """may some value match both patterns? (conservative: True when unsure)"""
    if a is None or b is None:
        return True
    if a[0] == "wild" or b[0] == "wild":
        return True
    if a[0] == "alt":
        return any(_pat_overlap(x, b) for x in a[1])
    if b[0] == "alt":
        return any(_pat_overlap(a, x) for x in b[1])
    if a[1] != b[1]:
        return False
    if a[1].endswith("{"):
        fa = {k[1]: k[2][0] for k in a[2]}
        fb = {k[1]: k[2][0] for k in b[2]}
        return all(_pat_overlap(fa[f], fb[f]) for f in fa if f in fb)
    if len(a[2]) != len(b[2]):
        return not a[1].endswith("[")       # different arity: only slices of different length are certainly disjoint
    return all(_pat_overlap(x, y) for x, y in zip(a[2], b[2]))


def _arms_disjoint(pats):
    """the given arm patterns (catch-all excluded by the caller) are pairwise disjoint: their order does not matter"""
    trees = [_pat_parse(p) for p in pats]
    for i in range(len(trees)):
        for j in range(i + 1, len(trees)):
            if _pat_overlap(trees[i], trees[j]):
                return False
    return True


def _expand_bool_tuple_arms(scr, arms):
    """match on a tuple of booleans: every arm spelled out per combination (first match wins), so `_`, or-patterns and
    explicit listings of the same combinations give the same arms"""
    if scr[0] != "tup" or not (1 <= len(scr[1]) <= 4) or any(g is not None for _p, g, _b in arms):
        return arms
    n = len(scr[1])
    import itertools
    combos = ["(" + ",".join(c) + ")" for c in itertools.product(("false", "true"), repeat=n)]
    taken = {}
    for p, _g, b in arms:
        alts = []
        for alt in p.split("|"):
            if alt in ("_", "$"):
                alts.append(["_"] * n)
            elif alt.startswith("(") and alt.endswith(")"):
                comps = alt[1:-1].split(",")
                if len(comps) != n or any(c not in ("true", "false", "_") for c in comps):
                    return arms
                alts.append(comps)
            else:
                return arms
        for comps in alts:
            for c in combos:
                cc = c[1:-1].split(",")
                if all(x == "_" or x == y for x, y in zip(comps, cc)) and c not in taken:
                    taken[c] = b
    if len(taken) != len(combos):
        return arms
    return [(c, None, taken[c]) for c in combos]


def _or_alternatives(p):
    while p.get("k") in ("PRef", "PBox", "PDeref"):
        p = p["p"]
    return list(p["ps"]) if p.get("k") == "Or" else [p]


def _ctor_of(p):
    while p.get("k") in ("PRef", "PBox", "PDeref"):
        p = p["p"]
    if p.get("k") in ("PTupleStruct", "PStruct"):
        return cshort(p.get("path", "?"))
    if p.get("k") == "PExpr" and p["e"].get("k") != "PLit":
        return cshort(p["e"].get("path", "?"))
    return None


def pat_variants(p):
    """set of constructor names matched at the top of a pattern ('_' for catch-all)"""
    k = p.get("k")
    if k in ("Wild", "Bind") and "sub" not in p:
        return {"_"}
    if k == "Bind":
        return pat_variants(p["sub"])
    if k in ("PRef", "PBox", "PDeref", "PGuard"):
        return pat_variants(p["p"])
    if k in ("PTupleStruct", "PStruct"):
        return {cshort(p.get("path", "?"))}
    if k == "Or":
        s = set()
        for q in p["ps"]:
            s |= pat_variants(q)
        return s
    if k == "PExpr":
        e = p["e"]
        if e["k"] == "PLit":
            return {"lit:" + str(e.get("v"))}
        return {cshort(e.get("path", "?"))}
    return {"?" + str(k)}


# --------------------------------------------------------------------- show ----
def show(t, maxlen=4000):
    s = _show(t)
    return s if len(s) <= maxlen else s[:maxlen] + "…"


def _show(t):
    k = t[0]
    if k == "param":
        return "P%d" % t[1]
    if k == "cparam":
        return "C%d_%d" % (t[1], t[2])
    if k == "sym":
        return t[1]
    if k == "lit":
        if isinstance(t[1], bool):
            return "true" if t[1] else "false"
        return repr(t[1]) if isinstance(t[1], str) else str(t[1])
    if k == "def":
        return t[1]
    if k == "field":
        return _show(t[1]) + "." + t[2]
    if k == "proj":
        return _show(t[1]) + "@" + t[2] + "." + t[3]
    if k == "elem":
        return "elem(" + _show(t[1]) + ")"
    if k == "try":
        return _show(t[1]) + "?"
    if k == "call":
        if t[1] == "@call" and t[2]:
            return "(" + _show(t[2][0]) + ")(" + ",".join(_show(a) for a in t[2][1:]) + ")"
        return t[1] + "(" + ",".join(_show(a) for a in t[2]) + ")"
    if k == "closure":
        return "|%d|{" % t[2] + _show(t[3]) + "}"
    if k == "struct":
        return cshort(t[1]) + ("::" + t[2] if t[2] and not cshort(t[1]).endswith(t[2]) else "") + "{" + ",".join(f + ":" + _show(v) for f, v in sorted(t[3].items())) + "}"
    if k == "tup":
        return "(" + ",".join(_show(a) for a in t[1]) + ")"
    if k == "array":
        return "[" + ",".join(_show(a) for a in t[1]) + "]"
    if k == "repeat":
        return "[" + _show(t[1]) + ";N]"
    if k == "mut":
        effs = []
        for e in t[3]:
            g = e[-1]
            gs = (" if " + "&&".join(x if isinstance(x, str) else _show(x) for x in g)) if g else ""
            if e[0] == "assign":
                effs.append((e[1] + "=" if e[1] else "=") + _show(e[2]) + gs)
            elif e[0] == "assignop":
                effs.append(e[2] + e[1] + _show(e[3]) + gs)
            elif e[0] == "mutcall":
                effs.append((e[2] + "." if e[2] else ".") + e[1] + "(" + ",".join(_show(a) for a in e[3]) + ")" + gs)
            elif e[0] == "mutarg":
                effs.append(e[1] + "(" + ",".join(_show(a) for a in e[2]) + ")" + gs)
        return "mut[" + _show(t[2]) + ";" + ";".join(effs) + "]"
    if k == "guard":
        if t[1] == "if":
            return ("" if t[2] else "!") + _show(t[3])
        if t[1] == "arm":
            return _show(t[2]) + "~" + t[3]
        if t[1] == "for":
            return "for(" + _show(t[2]) + ")"
        return "closure"
    if k == "match":
        return "match(" + _show(t[1]) + "){" + ";".join(p + (" if " + _show(g) if g else "") + "=>" + _show(b) for p, g, b in t[2]) + "}"
    if k == "if":
        return "if(" + _show(t[1]) + "){" + _show(t[2]) + "}else{" + _show(t[3]) + "}"
    if k == "iflet":
        return "let " + t[1] + "=" + _show(t[2])
    if k == "iflet-not":
        return "!let " + t[1] + "=" + _show(t[2])
    if k == "early":
        return "early{" + ";".join(_show(c) + "=>" + _show(v) for c, v in t[1]) + "}" + _show(t[2])
    if k == "tpl":
        return "T[" + t[2] + "](" + ",".join(_show(a) for a in t[3]) + ")"
    if k == "fmt":
        return "F[" + "".join(p[1] if p[0] == "lit" else "{" + _show(p[2]) + "}" for p in t[1]) + "]"
    if k == "op":
        if len(t[2]) == 1:
            return t[1] + "(" + _show(t[2][0]) + ")"
        return "(" + _show(t[2][0]) + t[1] + _show(t[2][1]) + ")"
    if k == "cast":
        return "(" + _show(t[2]) + " as " + t[1] + ")"
    if k == "index":
        return _show(t[1]) + "[" + _show(t[2]) + "]"
    if k == "rindex":
        return _show(t[1]) + "[-" + str(t[2]) + "]"
    if k == "rest":
        return _show(t[1]) + "[..]"
    if k == "ret":
        return "return " + _show(t[1])
    if k == "break":
        return "break " + _show(t[1])
    if k == "for":
        return "for(" + _show(t[1]) + "){" + _show(t[2]) + "}"
    if k == "seq":
        return "{" + ";".join(_show(x) for x in t[1]) + ("" if t[2] == ("lit", "()") else ";" + _show(t[2])) + "}"
    if k in ("continue", "loop"):
        return k
    if k == "opaque":
        return "<" + t[1] + ">"
    return "<?" + str(k) + ">"


def subterms(t, closures=True):
    """pre-order generator over all sub-terms (closures=False: closure bodies are not entered)"""
    if not closures:
        yield from _subterms_outside_closures(t)
        return
    yield t
    k = t[0]
    if k in ("field", "proj", "elem", "try", "rest", "ret", "break", "repeat"):
        yield from subterms(t[1])
    elif k == "for":
        yield from subterms(t[1])
        yield from subterms(t[2])
    elif k == "seq":
        for x in t[1]:
            yield from subterms(x)
        yield from subterms(t[2])
    elif k == "call":
        for a in t[2]:
            yield from subterms(a)
    elif k == "closure":
        yield from subterms(t[3])
    elif k == "struct":
        for v in t[3].values():
            yield from subterms(v)
    elif k in ("tup", "array"):
        for a in t[1]:
            yield from subterms(a)
    elif k == "mut":
        yield from subterms(t[2])
        for e in t[3]:
            for x in e[:-1]:
                if isinstance(x, tuple) and x and isinstance(x[0], str) and x[0] in _KINDS:
                    yield from subterms(x)
                elif isinstance(x, list):
                    for y in x:
                        yield from subterms(y)
    elif k == "match":
        yield from subterms(t[1])
        for p, g, b in t[2]:
            if g:
                yield from subterms(g)
            yield from subterms(b)
    elif k == "if":
        yield from subterms(t[1])
        yield from subterms(t[2])
        yield from subterms(t[3])
    elif k in ("iflet", "iflet-not"):
        yield from subterms(t[2])
    elif k == "early":
        for c, v in t[1]:
            yield from subterms(c)
            yield from subterms(v)
        yield from subterms(t[2])
    elif k == "tpl":
        for a in t[3]:
            yield from subterms(a)
    elif k == "fmt":
        for p in t[1]:
            if p[0] == "arg":
                yield from subterms(p[2])
    elif k == "op":
        for a in t[2]:
            yield from subterms(a)
    elif k == "cast":
        yield from subterms(t[2])
    elif k == "index":
        yield from subterms(t[1])
        yield from subterms(t[2])
    elif k == "rindex":
        yield from subterms(t[1])


_KINDS = {"guard", "seq", "early", "iflet-not", "param", "cparam", "sym", "lit", "def", "field", "proj", "elem", "try", "call", "closure", "struct", "tup",
          "array", "mut", "match", "if", "iflet", "tpl", "fmt", "op", "cast", "index", "rindex", "rest", "ret", "break",
          "continue", "loop", "opaque", "repeat", "for"}


def calls_in(t, name=None):
    for s in subterms(t):
        if s[0] == "call" and (name is None or s[1] == name or s[1].endswith("::" + name)):
            yield s


def contains(t, sub):
    ss = show(sub) if not isinstance(sub, str) else sub
    return ss in show(t, 10 ** 7)


_FREE = object.__new__(Norm)        # canonical forms that need no function context (module-level helpers call Norm._canon_match through it)
