"""Token-template reconstruction from expanded `quote!` / `parse_quote!` / `format!` code.

A quote template is the block  { let mut _s = TokenStream::new(); <pushes>; _s }.
It is rebuilt as a list of items:
    ("lit", text)                      identifier / punctuation / literal token
    ("interp", expr_node, info)        #var   (info: {"rep": bool, "src": expr or None})
    ("group", delim, [items])          ( ) [ ] { }
    ("rep", [items], sep|None, vars)   #( ... ) sep *   vars = [(loop_local_id, source_expr)]
Format templates (format!/format_ident!/write!/panic! …) are decoded from the byte
template of `core::fmt::Arguments::new` into  ("lit", s) / ("arg", expr_node, kind).
Reconstruction failures raise TemplateError (engine error, never a silent pass).
"""
from .ir import strip, local_id, walk, children

PUNCT = {
    "push_add": "+", "push_add_eq": "+=", "push_and": "&", "push_and_and": "&&", "push_and_eq": "&=",
    "push_at": "@", "push_bang": "!", "push_caret": "^", "push_caret_eq": "^=", "push_colon": ":",
    "push_colon2": "::", "push_comma": ",", "push_div": "/", "push_div_eq": "/=", "push_dot": ".",
    "push_dot2": "..", "push_dot3": "...", "push_dot_dot_eq": "..=", "push_eq": "=", "push_eq_eq": "==",
    "push_ge": ">=", "push_gt": ">", "push_le": "<=", "push_lt": "<", "push_mul_eq": "*=", "push_ne": "!=",
    "push_or": "|", "push_or_eq": "|=", "push_or_or": "||", "push_pound": "#", "push_question": "?",
    "push_rarrow": "->", "push_larrow": "<-", "push_rem": "%", "push_rem_eq": "%=", "push_fat_arrow": "=>",
    "push_semi": ";", "push_shl": "<<", "push_shl_eq": "<<=", "push_shr": ">>", "push_shr_eq": ">>=",
    "push_star": "*", "push_sub": "-", "push_sub_eq": "-=", "push_underscore": "_",
}
DELIM = {"Parenthesis": ("(", ")"), "Bracket": ("[", "]"), "Brace": ("{", "}"), "None": ("", "")}


class TemplateError(Exception):
    pass


def is_template_block(n):
    """n: expr node. True iff it is the quote! block form."""
    n = strip_keep_block(n)
    if not isinstance(n, dict) or n.get("k") != "Block":
        return False
    b = n["b"]
    if not b["stmts"]:
        return False
    s0 = b["stmts"][0]
    if s0.get("k") != "SLet" or "init" not in s0:
        return False
    init = s0["init"]
    if init.get("k") != "Call" or init.get("callee") != "proc_macro2::TokenStream::new":
        return False
    if s0["pat"].get("k") != "Bind" or s0["pat"].get("name") != "_s":
        return False
    tail = b.get("expr")
    return tail is not None and local_id(tail) == s0["pat"]["id"]


def strip_keep_block(n):
    while isinstance(n, dict) and n.get("k") in ("DropTemps", "Use", "TypeAscr"):
        n = n["e"]
    return n


def is_empty_template(n):
    """quote!() expands to a bare TokenStream::new() call"""
    return (isinstance(n, dict) and n.get("k") == "Call" and n.get("callee") == "proc_macro2::TokenStream::new"
            and n.get("x") is not None)


def parse_template(n, repvars=None):
    n = strip_keep_block(n)
    if is_empty_template(n):
        return []
    if not is_template_block(n):
        raise TemplateError("not a template block at " + str(n.get("sp")))
    b = n["b"]
    sid = b["stmts"][0]["pat"]["id"]
    return _parse_stmts(b["stmts"][1:], sid, dict(repvars or {}))


def _parse_stmts(stmts, sid, repvars):
    items = []
    for s in stmts:
        k = s.get("k")
        if k in ("SSemi", "SExpr"):
            e = s["e"]
            items.extend(_parse_push(e, sid, repvars))
        elif k == "SLet":
            raise TemplateError("unexpected let in template at " + str(s.get("sp")))
        else:
            raise TemplateError("unexpected stmt kind " + str(k))
    return items


def _is_s(arg, sid):
    return local_id(arg) == sid


def _parse_push(e, sid, repvars):
    e = strip_keep_block(e)
    k = e.get("k")
    if k == "Call":
        c = e.get("callee", "")
        if c.startswith("quote::__private::push_"):
            name = c.rsplit("::", 1)[1]
            if not _is_s(e["args"][0], sid):
                raise TemplateError("push into a different stream at " + e["sp"])
            if name == "push_ident" or name == "push_lifetime":
                lit = strip(e["args"][1])
                if lit.get("k") != "Lit":
                    raise TemplateError("push_ident with non-literal at " + e["sp"])
                return [("lit", lit["v"])]
            if name.startswith("push_ident_spanned") or name.endswith("_spanned"):
                raise TemplateError("quote_spanned! forms are not modelled: " + e["sp"])
            if name == "push_group":
                d = strip(e["args"][1])
                delim = d.get("path", "?").rsplit("::", 1)[1]
                inner = parse_template(e["args"][2], repvars)
                return [("group", delim, inner)]
            if name in PUNCT:
                return [("lit", PUNCT[name])]
            raise TemplateError("unknown quote push fn " + c)
        if c == "quote::__private::parse":
            lit = strip(e["args"][1])
            if not _is_s(e["args"][0], sid) or lit.get("k") != "Lit":
                raise TemplateError("unmodelled quote::__private::parse at " + e["sp"])
            return [("lit", lit["v"])]
        if c == "quote::ToTokens::to_tokens":
            if not _is_s(e["args"][1], sid):
                raise TemplateError("to_tokens into a different stream at " + e["sp"])
            src = strip(e["args"][0])
            lid = local_id(src)
            if lid is not None and lid in repvars:
                return [("interp", repvars[lid], {"rep": True, "loopvar": lid})]
            return [("interp", src, {"rep": False})]
        raise TemplateError("unexpected call in template: " + c + " at " + e["sp"])
    if k == "Block":
        return [_parse_rep(e["b"], sid, repvars)]
    raise TemplateError("unexpected node in template: " + str(k) + " at " + str(e.get("sp")))


def _parse_rep(b, sid, outer_repvars):
    """the `#( ... ) sep *` expansion block"""
    stmts = b["stmts"]
    has_counter = False
    iters = {}   # iterator local id -> source expr
    loop = None
    for s in stmts:
        if s.get("k") == "SLet":
            pat = s["pat"]
            if pat.get("k") == "Bind" and pat["name"] == "_i":
                has_counter = True
            elif pat.get("k") == "PTuple" and "init" in s:
                init = strip(s["init"])
                if init.get("k") == "MethodCall" and init["name"] == "quote_into_iter":
                    iters[pat["ps"][0]["id"]] = init["recv"]
                else:
                    raise TemplateError("unexpected tuple let in repetition at " + str(s.get("sp")))
        elif s.get("k") in ("SExpr", "SSemi") and strip_keep_block(s["e"]).get("k") == "Loop":
            loop = strip_keep_block(s["e"])
    if loop is None and "expr" in b and strip_keep_block(b["expr"]).get("k") == "Loop":
        loop = strip_keep_block(b["expr"])
    if loop is None:
        raise TemplateError("repetition without loop")
    body = loop["body"]
    # while true { ... }  ==  loop { if true { BODY } else { break } }
    inner = body.get("expr") or (body["stmts"][0]["e"] if body["stmts"] else None)
    inner = strip_keep_block(inner)
    if inner.get("k") != "If":
        raise TemplateError("repetition loop shape")
    blk = strip_keep_block(inner["then"])["b"]
    repvars = dict(outer_repvars)
    vars_ = []
    items = []
    sep = None
    for s in blk["stmts"]:
        k = s.get("k")
        if k == "SLet":
            # let v = match it.next() { Some(_x) => RepInterp(_x), None => break };
            init = strip(s.get("init"))
            if init.get("k") == "Match":
                sc = strip(init["scrut"])
                itid = local_id(sc.get("recv")) if sc.get("k") == "MethodCall" else None
                if itid in iters:
                    repvars[s["pat"]["id"]] = iters[itid]
                    vars_.append((s["pat"]["id"], iters[itid]))
                    continue
            raise TemplateError("unexpected let in repetition body at " + str(s.get("sp")))
        e = strip_keep_block(s["e"])
        if e.get("k") == "If" and has_counter and sep is None and _is_counter_test(e["cond"]):
            sb = strip_keep_block(e["then"])["b"]
            sepitems = _parse_stmts(sb["stmts"], sid, repvars)
            sep = "".join(t[1] for t in sepitems if t[0] == "lit")
            continue
        if e.get("k") == "AssignOp":
            continue  # _i += 1
        items.extend(_parse_push(e, sid, repvars))
    if "expr" in blk:
        items.extend(_parse_push(blk["expr"], sid, repvars))
    return ("rep", items, sep, vars_)


def _is_counter_test(c):
    c = strip(c)
    return c.get("k") == "Binary" and c.get("op") == ">" and strip(c["l"]).get("name") == "_i"


# ------------------------------------------------------------------ rendering ----
def render(items, interp=lambda e, info: "#" + _interp_name(e)):
    out = []
    for it in items:
        if it[0] == "lit":
            out.append(it[1])
        elif it[0] == "interp":
            out.append(interp(it[1], it[2]))
        elif it[0] == "group":
            o, c = DELIM[it[1]]
            out.append(o + " " + render(it[2], interp) + " " + c if it[2] else o + c)
        elif it[0] == "rep":
            out.append("#( " + render(it[1], interp) + " )" + (it[2] or "") + "*")
    return " ".join(out)


def flatten(items, N, _depth=0):
    """items with every interpolated local that is itself `let x = quote!(..)` replaced by that template's items
    (a token stream interpolated as a whole stands for its tokens)"""
    out = []
    for it in items:
        if it[0] == "interp" and not (it[2] or {}).get("rep") and _depth < 4:
            e = strip(it[1])
            inner = None
            if e.get("k") == "Path" and e.get("r") == "local" and e.get("id") in N.defs:
                origin, path, _pat = N.defs[e["id"]]
                if origin[0] == "let" and not path and e["id"] not in N.mut:
                    init = strip_keep_block(origin[1])
                    if is_template_block(init):
                        inner = parse_template(init)
            if inner is not None:
                out.extend(flatten(inner, N, _depth + 1))
            else:
                out.append(it)
        elif it[0] == "group":
            out.append(("group", it[1], flatten(it[2], N, _depth)))
        elif it[0] == "rep":
            out.append(("rep", flatten(it[1], N, _depth), it[2], it[3]) if len(it) > 3 else ("rep", flatten(it[1], N, _depth), it[2]))
        else:
            out.append(it)
    return out


def render_pos(items):
    """render with interpolations numbered by first occurrence (#0, #1, ..): independent of local variable names"""
    seen = {}

    def interp(e, info):
        e2 = strip(e)
        k = ("local", e2.get("id")) if e2.get("k") == "Path" and e2.get("r") == "local" else ("expr", id(e2))
        if k not in seen:
            seen[k] = len(seen)
        return "#%d" % seen[k]
    return render(items, interp)


def _interp_name(e):
    e = strip(e)
    if e.get("k") == "Path" and e.get("r") == "local":
        return e["name"]
    return "<expr>"


def flat_lits(items):
    """all literal tokens, depth-first"""
    for it in items:
        if it[0] == "lit":
            yield it[1]
        elif it[0] == "group":
            o, c = DELIM[it[1]]
            yield o
            yield from flat_lits(it[2])
            yield c
        elif it[0] == "rep":
            yield from flat_lits(it[1])


def interps(items, in_rep=False):
    """all interpolations: (expr, info, inside_repetition)"""
    for it in items:
        if it[0] == "interp":
            yield it[1], it[2], in_rep
        elif it[0] == "group":
            yield from interps(it[2], in_rep)
        elif it[0] == "rep":
            yield from interps(it[1], True)


def find_templates(root):
    """all outermost quote templates below root: yields (node, items, kind, parent_call)
    kind: 'quote' | 'parse_quote'"""
    out = []

    def rec(n, parent):
        if not isinstance(n, dict):
            return
        if n.get("k") in ("Block", "Call") and (is_template_block(n) or (is_empty_template(n) and _from_quote(n))):
            kind = "quote"
            if parent is not None and parent.get("k") == "Call" and parent.get("callee", "").startswith("syn::__private::parse"):
                kind = "parse_quote"
            items = parse_template(n)
            out.append((n, items, kind, parent))
            # nested templates inside interpolated expressions do not occur (interps are locals),
            # but closures inside are impossible too; stop here.
            return
        for c in children(n):
            rec(c, n)
    rec(root, None)
    return out


def _from_quote(n):
    return True


# ------------------------------------------------------------ format templates ----
def decode_fmt_bytes(bs):
    """decode core::fmt template bytes into [("lit", s) | ("arg", index|None, flags)]"""
    parts = []
    i = 0
    nxt = 0
    n = len(bs)
    while i < n:
        b = bs[i]
        i += 1
        if b == 0:
            if i != n:
                raise TemplateError("fmt template: trailing bytes")
            return parts
        if b < 0x80:
            parts.append(("lit", bytes(bs[i:i + b]).decode("utf-8")))
            i += b
        elif b == 0x80:
            ln = bs[i] | (bs[i + 1] << 8)
            i += 2
            parts.append(("lit", bytes(bs[i:i + ln]).decode("utf-8")))
            i += ln
        else:
            flags = None
            idx = None
            if b & 1:
                flags = int.from_bytes(bytes(bs[i:i + 4]), "little")
                i += 4
            if b & 2:
                i += 2
            if b & 4:
                i += 2
            if b & 8:
                idx = bs[i] | (bs[i + 1] << 8)
                i += 2
            if idx is None:
                idx = nxt
            nxt = idx + 1
            parts.append(("arg", idx, flags))
    raise TemplateError("fmt template: missing terminator")


def parse_format_args(n):
    """n: a node containing exactly one `Arguments::new(bytes, &args)` / `from_str` lowering.
    Returns list of ("lit", s) | ("arg", expr_node, kind) or None if n has no format lowering."""
    target = None
    for x in walk(n, into_closures=False):
        if x.get("k") == "Call" and x.get("callee", "") in ("std::fmt::Arguments::<'a>::new", "std::fmt::Arguments::new",
                                                             "core::fmt::Arguments::<'a>::new", "core::fmt::Arguments::new"):
            target = x
            break
        if x.get("k") == "Call" and x.get("callee", "").endswith("fmt::Arguments::<'a>::from_str") or \
           x.get("k") == "Call" and x.get("callee", "").endswith("fmt::Arguments::from_str"):
            lit = strip(x["args"][0])
            return [("lit", lit.get("v", ""))]
    if target is None:
        return None
    lit = strip(target["args"][0])
    if lit.get("k") != "Lit" or lit.get("lk") != "bytestr":
        raise TemplateError("fmt template is not a byte literal at " + target["sp"])
    bs = [int(t) for t in lit["v"].strip("[]").split(",") if t.strip()]
    parts = decode_fmt_bytes(bs)
    # args array: let args = (&a, &b); let args = [Argument::new_display(args.0), ...];
    arr = None
    tup = None
    for x in walk(n, into_closures=False):
        if x.get("k") == "SLet" and x["pat"].get("name") == "args" and "init" in x:
            init = strip(x["init"])
            if init.get("k") == "Tup":
                tup = init
            elif init.get("k") == "Array":
                arr = init
    out = []
    for p in parts:
        if p[0] == "lit":
            out.append(p)
            continue
        if arr is None:
            raise TemplateError("fmt args array not found at " + target["sp"])
        a = strip(arr["es"][p[1]])
        kind = a.get("callee", "?").rsplit("::", 1)[-1]  # new_display / new_debug
        src = strip(a["args"][0])
        if src.get("k") == "Field" and tup is not None and strip(src["base"]).get("name") == "args":
            src = strip(tup["es"][int(src["name"])])
        out.append(("arg", src, kind))
    return out
