"""Role-based anchors and small structural queries shared by the property rule tables."""
import re
from .ir import walk, children, strip, local_id, PAT_KINDS
from .norm import Norm, show, cshort, pat_variants, pat_repr, subterms, as_for_loop
from . import templates as T

LIB = ("scale_typegen", "scale_typegen_description")


def peel(ty):
    ty = ty or ""
    while ty.startswith("&"):
        ty = ty[1:]
        if ty.startswith("mut "):
            ty = ty[4:]
        if ty.startswith("'"):
            ty = ty.split(" ", 1)[1] if " " in ty else ty
    return ty


def adt_by_name(P, name, crate=None):
    for c in P.crates.values():
        if crate and c.name != crate:
            continue
        for p, a in c.adts.items():
            if p.rsplit("::", 1)[-1] == name:
                return a
    return None


def variants_of(P, name, crate=None):
    a = adt_by_name(P, name, crate)
    return [v["name"] for v in a["variants"]] if a else None


def fn_by_suffix(P, suffix, crate=None):
    out = []
    for c, b in P.all_bodies(LIB if crate is None else (crate,)):
        if b["path"].endswith(suffix) and (b["path"] == suffix or b["path"][-len(suffix) - 1] == ":" or True):
            # require segment boundary
            pre = b["path"][:-len(suffix)]
            if pre == "" or pre[-1] in ": <" or suffix.startswith("::"):
                out.append(b)
    return out


def fn1(P, suffix, crate=None):
    fs = fn_by_suffix(P, suffix, crate)
    return fs[0] if len(fs) == 1 else None


def matches_on(body_expr, ty_pred, into_closures=True):
    """Match nodes (src Normal) whose scrutinee type satisfies ty_pred(peeled type string)"""
    out = []
    for n in walk(body_expr, into_closures):
        if n.get("k") == "Match" and n.get("src") == "Normal":
            st = peel(n["scrut"].get("ty", ""))
            if ty_pred(st):
                out.append(n)
    return out


def fns_with_match_on(P, ty_pred, crates=LIB, ret_pred=None):
    out = []
    for c, b in P.all_bodies(crates):
        if "body" not in b or b["dk"] not in ("Fn", "AssocFn"):
            continue
        if derived(b):
            continue
        if ret_pred and not ret_pred(b.get("output", "")):
            continue
        ms = matches_on(b["body"], ty_pred)
        if ms:
            out.append((b, ms))
    return out


def derived(b):
    """body produced by a derive macro (Debug/Clone/thiserror ...)"""
    body = b.get("body")
    return isinstance(body, dict) and body.get("x") is not None and not b["path"].endswith("}")


def arm_syms(pat, prefix="A"):
    """symbol names for the bindings of an arm pattern, by position / field name"""
    out = {}

    def rec(p, path):
        k = p.get("k")
        if k == "Bind":
            out[p["id"]] = prefix + path
            if "sub" in p:
                rec(p["sub"], path)
        elif k in ("PRef", "PBox", "PDeref", "PGuard"):
            rec(p["p"], path)
        elif k == "PTupleStruct":
            for i, q in enumerate(p["ps"]):
                rec(q, path + (str(i) if len(p["ps"]) > 1 or path else ""))
        elif k == "PTuple":
            for i, q in enumerate(p["ps"]):
                rec(q, path + "_" + str(i))
        elif k == "PStruct":
            for f in p["fields"]:
                rec(f["p"], path + "." + f["name"])
        elif k == "Or":
            for q in p["ps"]:
                rec(q, path)
        elif k == "PSlice":
            for i, q in enumerate(p["before"]):
                rec(q, path + "[%d]" % i)
            if "mid" in p:
                rec(p["mid"], path + "[..]")
    rec(pat, "")
    return out


def arms_by_variant(m):
    """{variant_name: arm} for a match; or-patterns map several names to one arm; '_' for catch-all"""
    out = {}
    for a in m["arms"]:
        for v in pat_variants(a["pat"]):
            out.setdefault(v.rsplit("::", 1)[-1], a)
    return out


def struct_lits(root, adt_suffix=None, variant=None):
    for n in walk(root):
        if n.get("k") == "Struct":
            if adt_suffix and not n.get("adt", "").endswith(adt_suffix):
                continue
            if variant and n.get("variant") != variant:
                continue
            yield n


def closures(root, param_ty_pred=None):
    for n in walk(root):
        if n.get("k") == "Closure":
            if param_ty_pred is None or (n["params"] and param_ty_pred(peel(n["params"][0].get("ty", "")))):
                yield n


def calls_to(root, suffix, into_closures=True):
    for n in walk(root, into_closures):
        if n.get("k") in ("Call", "MethodCall") and n.get("callee", "").endswith(suffix):
            yield n


def callers_of(P, suffix, crates=LIB):
    out = []
    for c, b in P.all_bodies(crates):
        if "body" not in b:
            continue
        for n in calls_to(b["body"], suffix):
            out.append((b, n))
    return out


def closure_local_defs(body):
    """defs of closures that are bound to a local (`let f = |..| ..;`) - such closures are applied at their call sites by the normaliser"""
    out = set()
    for n in walk(body):
        if n.get("k") == "SLet" and n["pat"].get("k") == "Bind":
            init = strip(n.get("init", {}))
            if isinstance(init, dict) and init.get("k") == "Closure":
                out.add(init.get("def"))
    return out


def in_closure_local(body, node):
    """is `node` inside a closure that is bound to a local of this function?"""
    defs = closure_local_defs(body)
    if not defs:
        return False
    from .ir import walk_with_parents
    for x, parents in walk_with_parents(body):
        if x is node:
            return any(p.get("k") == "Closure" and p.get("def") in defs for p in parents)
    return False


def call_terms(ctx, callee_path, crates=LIB, _depth=0):
    """every call of `callee_path`, seen through transparent helpers: [(outer fn body, outer call node, call term)].
    A private non-recursive helper that forwards to the callee is not a caller of its own: its call sites are."""
    from .norm import subterms
    out = []
    name = cshort(callee_path)
    for b, n in callers_of(ctx.P, callee_path, crates):
        N = norm_of(ctx, b)
        if b["path"] != callee_path and _depth < 4 and N.transparent_fn(b["path"]) is not None:
            found = 0
            for b2, n2, _t in call_terms(ctx, b["path"], crates, _depth + 1):
                t2 = norm_of(ctx, b2).term(n2)
                seen = set()
                for st in subterms(t2):
                    if st[0] == "call" and st[1] == name and show(st) not in seen:
                        seen.add(show(st))
                        out.append((b2, n2, st))
                        found += 1
            if found:
                continue      # otherwise (helper not inlined after all / never called) the helper itself is the caller
        if in_closure_local(b["body"], n):
            # the call is made by a local closure: its call sites (with the closure applied) are the calls of this function
            for st in subterms(N.term(b["body"])):
                if st[0] == "call" and st[1] == name:
                    out.append((b, n, st))
            continue
        out.append((b, n, N.term(n)))
    # one entry per (outer fn, rendered call): a let-bound helper result substituted at several uses is one call
    uniq, seen = [], set()
    for b, n, t in out:
        k = (b["path"], id(n), show(t))
        if k not in seen:
            seen.add(k)
            uniq.append((b, n, t))
    return uniq


def effects(N, syms=None):
    """the recorded effects (assignments, &mut method calls, &mut arguments) of a function, each with the guards under which it
    runs, rendered with the given symbols: [{"lid", "name", "kind", "node", "guards": [str]}]"""
    old, memo = N.syms, N._memo
    if syms:
        N.syms = dict(old)
        N.syms.update(syms)
        N._memo = {}
    try:
        out = []
        for lid, effs in N.effects.items():
            own = N.def_ctx.get(lid, (0, ()))[1] or ()
            for node, kind, guards in effs:
                if guards[:len(own)] == own:
                    guards = guards[len(own):]      # relative to where the local is declared
                out.append({"lid": lid, "name": N.defs.get(lid, (None, None, {}))[2].get("name"), "kind": kind, "node": node,
                            "guards": list(N.guards_term(guards)), "gterms": list(N.guard_terms(guards))})
        return out
    finally:
        N.syms, N._memo = old, memo


def guard_condition(gterms):
    """the conjunction of `if` / match-arm guards as one normalised condition term (None for the empty list, i.e. `true`)"""
    from .norm import _let, _not
    c = None
    for g in gterms:
        if g[1] == "if":
            x = g[3] if g[2] else _not(g[3])
        elif g[1] == "arm":
            pat = g[3]
            if pat in ("v1::None", "Option::None"):
                x = _not(_let("v1::Some($)", g[2]))
            else:
                x = _let(pat, g[2])
        else:
            return ("opaque", "loop-guard")
        c = x if c is None else ("op", "&&", [c, x])
    return c


def owners(ctx, path, crates=LIB, _depth=0):
    """the functions a piece of code belongs to for who-may rules: a transparent helper (private, non-recursive, named by no
    rule) belongs to the functions that call it; every other function to itself. Returns a sorted list of fn paths."""
    b = ctx.P.body(path)
    if b is None or "body" not in b or _depth > 4:
        return [path]
    if norm_of(ctx, b).transparent_fn(path) is None:
        return [path]
    out = set()
    for cb, _n in callers_of(ctx.P, path, crates):
        if cb["path"] != path:
            out.update(owners(ctx, cb["path"], crates, _depth + 1))
    return sorted(out) or [path]


def norm_of(ctx, b):
    cache = ctx.__dict__.setdefault("_norm_cache", {})
    if b["path"] not in cache:
        cache[b["path"]] = Norm(b)
    return cache[b["path"]]


def field_reads(root, owner_suffix, name=None):
    for n in walk(root):
        if n.get("k") == "Field" and peel(n.get("owner", "")).split("<")[0].endswith(owner_suffix):
            if name is None or n["name"] == name:
                yield n


def templates_in(root):
    return T.find_templates(root)


def tpl_text(t):
    """text of a ("tpl", kind, text, slots) term"""
    return t[2] if t and t[0] == "tpl" else None


def fmt_text(t):
    if t[0] != "fmt":
        return None
    return "".join(p[1] if p[0] == "lit" else "{}" for p in t[1])


def site(n):
    return n.get("sp", "?") if isinstance(n, dict) else "?"


def unwrap_try(t):
    while t[0] == "try":
        t = t[1]
    return t


def strip_ok(t):
    """Ok(x) -> x ; x? -> x"""
    while True:
        if t[0] == "try":
            t = t[1]
        elif t[0] == "call" and t[1] in ("Ok", "Some") and len(t[2]) == 1:
            t = t[2][0]
        else:
            return t


ORDER_PRESERVING = {"Iterator::map", "Iterator::filter_map", "Iterator::filter", "Iterator::enumerate", "Iterator::zip",
                    "Iterator::collect", "Iterator::cloned", "Iterator::copied", "slice::iter", "Iterator::chain",
                    "Iterator::peekable", "Iterator::take_while", "Iterator::inspect", "BTreeMap::values", "BTreeMap::iter",
                    "Iterator::flat_map", "Iterator::flatten"}
ORDER_BREAKING = {"Iterator::rev", "slice::sort", "slice::sort_by", "slice::sort_by_key", "slice::sort_unstable",
                  "slice::reverse", "Vec::dedup", "Iterator::skip", "Iterator::step_by", "Iterator::take", "slice::sort_unstable_by",
                  "Vec::swap_remove", "Vec::retain", "Vec::dedup_by_key", "Iterator::last", "Iterator::nth", "DoubleEndedIterator::rev"}


def pipeline(t):
    """decompose an iterator-chain term into (source_term, [(adaptor, closure_or_None)])"""
    chain = []
    t = unwrap_try(t)
    while t[0] == "call" and (t[1].startswith("Iterator::") or t[1] in ORDER_PRESERVING or t[1] in ORDER_BREAKING) and t[2]:
        chain.append((t[1], t[2][1] if len(t[2]) > 1 else None))
        t = unwrap_try(t[2][0])
    chain.reverse()
    return t, chain


def order_ok(chain):
    return all(a not in ORDER_BREAKING and (a in ORDER_PRESERVING) for a, _ in chain)


# ------------------------------------------------------------ expectation helpers ----
import re as _re

ANY = "⟪*⟫"     # wildcard marker usable inside expected strings


def _scan_close(s, i, open_ch, close_ch):
    """index of the bracket closing the one at s[i] (quotes skipped)"""
    depth = 0
    j = i
    n = len(s)
    while j < n:
        ch = s[j]
        if ch == "'":
            j += 1
            while j < n and s[j] != "'":
                if s[j] == "\\":
                    j += 1
                j += 1
        elif ch == open_ch:
            depth += 1
        elif ch == close_ch:
            depth -= 1
            if depth == 0:
                return j
        j += 1
    return -1


def _split_top(s, sep):
    parts = []
    depth = 0
    cur = []
    j = 0
    n = len(s)
    while j < n:
        ch = s[j]
        if ch == "'":
            k = j + 1
            while k < n and s[k] != "'":
                if s[k] == "\\":
                    k += 1
                k += 1
            cur.append(s[j:k + 1])
            j = k + 1
            continue
        if ch in "([{":
            depth += 1
        elif ch in ")]}":
            depth -= 1
        if ch == sep and depth == 0:
            parts.append("".join(cur))
            cur = []
        else:
            cur.append(ch)
        j += 1
    parts.append("".join(cur))
    return parts


def sort_match_arms(s):
    """string-level canonicalisation of expected terms: arms of guard-free matches sorted by pattern, catch-all last
    (the normaliser orders arms the same way, so expectations may list arms in any order)"""
    out = []
    i = 0
    while True:
        j = s.find("match(", i)
        if j < 0:
            out.append(s[i:])
            break
        c1 = _scan_close(s, j + 5, "(", ")")
        if c1 < 0 or c1 + 1 >= len(s) or s[c1 + 1] != "{":
            out.append(s[i:j + 6])
            i = j + 6
            continue
        c2 = _scan_close(s, c1 + 1, "{", "}")
        if c2 < 0:
            out.append(s[i:j + 6])
            i = j + 6
            continue
        scrut = sort_match_arms(s[j + 6:c1])
        arms = _split_top(s[c1 + 2:c2], ";")
        parsed = []
        ok = True
        for a in arms:
            k = a.find("=>")
            if k < 0:
                ok = False
                break
            parsed.append((a[:k], sort_match_arms(a[k + 2:])))
        if ok and not any(" if " in p for p, _b in parsed):
            last = [a for a in parsed if a[0] in ("_", "$")]
            rest = sorted([a for a in parsed if a[0] not in ("_", "$")], key=lambda a: a[0])
            if len(last) <= 1:
                parsed = rest + last
        out.append(s[i:j] + "match(" + scrut + "){" + (";".join(p + "=>" + b for p, b in parsed) if ok else s[c1 + 2:c2]) + "}")
        i = c2 + 1
    return "".join(out)


_UNWRAPS = (("Option::expect(", "@v1::Some.0"), ("Option::unwrap(", "@v1::Some.0"), ("Result::expect(", "@v1::Ok.0"), ("Result::unwrap(", "@v1::Ok.0"),
            ("BTreeSet::iter(", ""), ("HashSet::iter(", ""), ("HashMap::iter(", ""), ("BTreeMap::iter(", ""))        # c.iter() is the container as a sequence
_TESTS = (("Option::is_some(", "let v1::Some($)=", False), ("Option::is_none(", "let v1::Some($)=", True),
          ("Result::is_ok(", "let v1::Ok($)=", False), ("Result::is_err(", "let v1::Err($)=", False))


def canon_expected(s):
    """string-level counterpart of the normaliser's Option / Result forms, so that expectations may be written either way:
    X.unwrap() / X.expect(..) is the payload `X@v1::Some.0`; X.is_some() is `let v1::Some($)=X`; X.is_none() its negation;
    `if(Not(c)){a}else{b}` is `if(c){b}else{a}`"""
    s = re.sub(r"let ([A-Za-z_][\w:]*)\(_\)=", r"let \1($)=", s)       # bound or ignored payload: the same test
    changed = True
    while changed:
        changed = False
        for head, suffix in _UNWRAPS:
            i = s.find(head)
            if i >= 0:
                c = _scan_close(s, i + len(head) - 1, "(", ")")
                if c > 0:
                    s = s[:i] + s[i + len(head):c] + suffix + s[c + 1:]
                    changed = True
        for head, repl, neg in _TESTS:
            i = s.find(head)
            if i >= 0:
                c = _scan_close(s, i + len(head) - 1, "(", ")")
                if c > 0:
                    inner = repl + s[i + len(head):c]
                    s = s[:i] + (("Not(" + inner + ")") if neg else inner) + s[c + 1:]
                    changed = True
        i = s.find("Not(let ")
        if i >= 0:
            c = _scan_close(s, i + 3, "(", ")")
            if c > 0:
                s = s[:i] + "!" + s[i + 4:c] + s[c + 1:]
                changed = True
        i = s.find("if(!let ")
        if i >= 0:
            c0 = _scan_close(s, i + 2, "(", ")")
            if c0 > 0 and s[c0 + 1:c0 + 2] == "{":
                t1 = _scan_close(s, c0 + 1, "{", "}")
                if t1 > 0 and s[t1 + 1:t1 + 6] == "else{":
                    e1 = _scan_close(s, t1 + 5, "{", "}")
                    if e1 > 0:
                        s = s[:i] + "if(" + s[i + 4:c0] + "){" + s[t1 + 6:e1] + "}else{" + s[c0 + 2:t1] + "}" + s[e1 + 1:]
                        changed = True
        i = s.find("Not(Not(")
        if i >= 0:
            c = _scan_close(s, i + 3, "(", ")")
            if c > 0 and s[c - 1] == ")":
                s = s[:i] + s[i + 8:c - 1] + s[c + 1:]
                changed = True
        i = s.find("if(Not(")
        while i >= 0:
            c0 = _scan_close(s, i + 2, "(", ")")
            c1 = _scan_close(s, i + 6, "(", ")")
            if c0 > 0 and c1 == c0 - 1 and s[c0 + 1:c0 + 2] == "{":
                t1 = _scan_close(s, c0 + 1, "{", "}")
                if t1 > 0 and s[t1 + 1:t1 + 6] == "else{":
                    e1 = _scan_close(s, t1 + 5, "{", "}")
                    if e1 > 0:
                        s = s[:i] + "if(" + s[i + 7:c1] + "){" + s[t1 + 6:e1] + "}else{" + s[c0 + 2:t1] + "}" + s[e1 + 1:]
                        changed = True
                        break
            i = s.find("if(Not(", i + 1)
    return s


def term_matches(got, expected):
    """exact comparison of a rendered term with an expected string; ⟪*⟫ in `expected` matches anything"""
    expected = canon_expected(expected)
    if "match(" in expected:
        expected = sort_match_arms(expected)
    # the unit value reads `()` whether it was written or is the value of a block without a tail (no position can hold both the unit and
    # a string, so the string literal "()" is not confused with anything by this)
    got, expected = got.replace("'()'", "()"), expected.replace("'()'", "()")
    if ANY not in expected:
        return got == expected
    rx = ".*".join(_re.escape(p) for p in expected.split(ANY))
    return _re.fullmatch(rx, got, _re.S) is not None


def expect_term(ctx, rule, key, node, got_term, expected, why=""):
    """expected: string or list of accepted strings"""
    got = show(got_term, 10 ** 6) if not isinstance(got_term, str) else got_term
    exps = [expected] if isinstance(expected, str) else list(expected)
    if ctx._filter is None or ctx._filter(key):
        ctx.mention(*exps)
    ok = any(term_matches(got, e) for e in exps)
    detail = why
    if not ok:
        detail = (why + "\n" if why else "") + "found:    " + got[:2500] + "\nexpected: " + "\n      or: ".join(e[:2500] for e in exps)
    return ctx.expect(ok, rule, key, site(node) if isinstance(node, dict) else node, why, detail)


def param_index(fn, ty_pred):
    """index of the unique parameter whose (peeled) type satisfies ty_pred, else None"""
    hits = [i for i, t in enumerate(fn.get("inputs", [])) if ty_pred(t)]
    return hits[0] if len(hits) == 1 else None


def anchor_fn(ctx, rule, role, fns):
    """fail closed when a role does not resolve to exactly one function"""
    if len(fns) == 1:
        return fns[0]
    ctx.bad(rule, "missing-anchor/" + role, "", "role `%s` resolved to %d constructs (expected exactly 1): %s" % (
        role, len(fns), [f["path"] if isinstance(f, dict) else f[0]["path"] for f in fns][:6]))
    return None


def syms_by_type(N, table):
    """{local id: symbol} for `let` locals whose (peeled) type starts with a key of `table` ({type prefix: symbol})"""
    out = {}
    for lid, (origin, path, pat) in N.defs.items():
        if origin[0] != "let" or path:
            continue
        ty = peel(pat.get("ty", ""))
        for pref, sym in table.items():
            if ty.startswith(pref):
                out[lid] = sym
    return out


def expect_fn(ctx, rule, key, suffix, expected, why, crate=None, syms_table=None):
    fn = fn1(ctx.P, suffix, crate)
    if fn is None:
        ctx.bad(rule, "missing-anchor/" + suffix, "", "function `%s` not found (or ambiguous)" % suffix)
        return None
    N = Norm(fn)
    syms = syms_by_type(N, syms_table) if syms_table else None
    t = N.term(fn["body"], syms)
    expect_term(ctx, rule, key, fn["sp"], t, expected, why)
    return fn, N


def mk_match(scrut, arms):
    """expected-term builder: match with arms sorted as the normaliser sorts them (catch-all last)"""
    last = [(p, b) for p, b in arms if p in ("_", "$")]
    rest = sorted([(p, b) for p, b in arms if p not in ("_", "$")], key=lambda a: a[0])
    return "match(" + scrut + "){" + ";".join(p + "=>" + b for p, b in rest + last) + "}"
