"""Typed-HIR fact loader and query helpers (engine E2, core service `ir`).

The fact files are produced by the tgfacts driver (driver/src/main.rs): one JSON
per crate with `bodies` (typed HIR trees + MIR facts), `adts`, `impls`,
`expns` (macro expansion records) and an interned string table `strs`.
Nothing here runs any code of the analysed program.
"""
import json, os, re

EXPR_CHILD_KEYS = ("f", "recv", "e", "l", "r", "cond", "then", "else", "scrut",
                   "body", "base", "idx", "init", "guard")
LIST_KEYS = ("args", "es")


_NAMES = None


def _baseline_names():
    global _NAMES
    if _NAMES is None:
        p = os.path.join(os.path.dirname(os.path.dirname(os.path.abspath(__file__))), "names.json")
        try:
            with open(p) as fh:
                _NAMES = json.load(fh)
        except OSError:
            _NAMES = {}
    return _NAMES


def apply_renames(d):
    """A private function that was only RENAMED is read under its reviewed name. rules/names.json lists the functions of the reviewed tree; a private
    function of that list that no longer exists and a private function that is new, in the same module / impl, are the same function when their
    signatures are identical (unique match), or - for one missing and one new function - when a reviewed caller of the old one calls the new one.
    Every occurrence of the new path in the facts (definitions, callees, closure names, types) is rewritten to the reviewed path, so that rules that
    name a private helper do not depend on what it is called. Returns {new path: reviewed path}."""
    both = _baseline_names().get(d.get("crate"), {})
    base = both.get("fns", {})
    if not base:
        return {}
    renamed = _apply_module_renames(d, base, both.get("adts", {}))
    renamed.update(_apply_fn_renames(d, base))
    renamed.update(_apply_adt_renames(d, both.get("adts", {})))
    return renamed


def _apply_module_renames(d, base_fns, base_adts):
    """a module / impl block / outer function whose items all moved, with their own names unchanged, to a prefix that is new: the prefix was renamed"""
    crate = d["crate"]
    cur_items = {b["path"] for b in d["bodies"] if b.get("dk") in ("Fn", "AssocFn")} | {a["path"] for a in d["adts"]}
    base_items = set(base_fns) | set(base_adts)

    def by_parent(items):
        out = {}
        for p in items:
            if "::" in p:
                par, leaf = p.rsplit("::", 1)
                out.setdefault(par, set()).add(leaf)
        return out
    bp, cp = by_parent(base_items), by_parent(cur_items)
    pairs = {}
    for pm, leaves in bp.items():
        if pm in cp or not leaves or pm in cur_items:
            continue            # (an outer function that is still there did not get a new name: its nested items moved somewhere else)
        hits = [pn for pn, l2 in cp.items() if pn not in bp and pn not in base_items and l2 == leaves and pn.rsplit("::", 1)[0] == pm.rsplit("::", 1)[0]]
        rivals = [p2 for p2, l2 in bp.items() if p2 != pm and p2 not in cp and l2 == leaves and p2.rsplit("::", 1)[0] == pm.rsplit("::", 1)[0]]
        if len(hits) == 1 and not rivals:
            pairs[hits[0]] = pm
    if not pairs:
        return {}
    sp = dict(pairs)
    sp.update({n.split("::", 1)[1]: m.split("::", 1)[1] for n, m in pairs.items() if n.startswith(crate + "::") and m.startswith(crate + "::")})
    _rewrite_strings(d, sp)
    return pairs


def _rewrite_strings(d, pairs):
    """every occurrence of a key of `pairs` (a `::`-path, not preceded / followed by further path or identifier characters) in any string of d
    is replaced by its value"""
    import re as _re
    rx = _re.compile(r"(?<![A-Za-z0-9_:])(" + "|".join(_re.escape(n) for n in sorted(pairs, key=len, reverse=True)) + r")(?![A-Za-z0-9_])")

    def fix(x):
        if isinstance(x, str):
            return rx.sub(lambda mm: pairs[mm.group(1)], x) if "::" in x else x
        if isinstance(x, list):
            for i, v in enumerate(x):
                if isinstance(v, (str, list, dict)):
                    x[i] = fix(v)
            return x
        if isinstance(x, dict):
            for k, v in x.items():
                if isinstance(v, (str, list, dict)):
                    x[k] = fix(v)
            return x
        return x
    fix(d)


def _apply_adt_renames(d, base):
    """the same for private types, their variants and their private fields: a missing private type and a new private type of the same module with
    the same shape are one type; in a type that is still there, a variant / private field whose position and field types are unchanged but
    whose name is new is that variant / field."""
    if not base:
        return {}
    crate = d["crate"]
    out = {}

    def rel(p):
        return p.split("::", 1)[1] if p.startswith(crate + "::") else p

    def parent(p):
        return p.rsplit("::", 1)[0]

    import re as _re3
    _gp3 = _re3.compile(r"(?:impl [\w:<>, ']+?|[A-Za-z_]\w*)/#(\d+)")

    def gty(t):
        return _gp3.sub(r"G#\1", t)          # a renamed generic parameter of the type is the same parameter

    def shape(path, a):
        r = rel(path)
        return (a.get("kind"), [[gty(f["ty"].replace(r, "Self")) for f in v["fields"]] for v in a["variants"]])
    cur = {a["path"]: a for a in d["adts"]}
    missing = [p for p, a in base.items() if p not in cur and not a["pub"]]
    new = [p for p, a in cur.items() if p not in base and not a.get("pub")]
    pairs = {}
    for m in missing:
        hits = [n for n in new if parent(n) == parent(m) and shape(n, cur[n]) == shape(m, base[m])]
        rivals = [m2 for m2 in missing if m2 != m and parent(m2) == parent(m) and shape(m2, base[m2]) == shape(m, base[m])]
        if len(hits) == 1 and not rivals:
            pairs[hits[0]] = m
    if pairs:
        sp = dict(pairs)
        sp.update({rel(n): rel(m) for n, m in pairs.items()})
        _rewrite_strings(d, sp)
        for a in d["adts"]:
            if a["kind"] == "struct" and a["path"] in pairs.values() and len(a["variants"]) == 1:
                a["variants"][0]["name"] = a["path"].rsplit("::", 1)[1]
        out.update(pairs)
        cur = {a["path"]: a for a in d["adts"]}
        structs = {m for m in pairs.values() if cur.get(m, {}).get("kind") == "struct"}

        def fix_variant(n):
            if isinstance(n, dict):
                if n.get("k") == "Struct" and n.get("adt") in structs:
                    n["variant"] = n["adt"].rsplit("::", 1)[1]
                for v in n.values():
                    if isinstance(v, (dict, list)):
                        fix_variant(v)
            elif isinstance(n, list):
                for v in n:
                    fix_variant(v)
        if structs:
            fix_variant(d["bodies"])
    vpairs, fren = {}, []
    for p, a in cur.items():
        b = base.get(p)
        if b is None or len(b["variants"]) != len(a["variants"]):
            continue
        bnames, cnames = [v["name"] for v in b["variants"]], [v["name"] for v in a["variants"]]
        for va, vb in zip(a["variants"], b["variants"]):
            if [gty(f["ty"]) for f in va["fields"]] != [gty(f["ty"]) for f in vb["fields"]]:
                continue
            if va["name"] != vb["name"] and a.get("kind") == "enum" and not a.get("pub") and va["name"] not in bnames and vb["name"] not in cnames:
                vpairs[p + "::" + va["name"]] = p + "::" + vb["name"]
                fren.append(("variant", p, va["name"], vb["name"]))
                va["name"] = vb["name"]
            bf, cf = [f["name"] for f in vb["fields"]], [f["name"] for f in va["fields"]]
            for fa, fb in zip(va["fields"], vb["fields"]):
                if fa["name"] != fb["name"] and not fa.get("pub") and not fb.get("pub") and fa["name"] not in bf and fb["name"] not in cf:
                    fren.append(("field", p, vb["name"], fa["name"], fb["name"]))
                    fa["name"] = fb["name"]
    if vpairs:
        sp = dict(vpairs)
        sp.update({rel(n): rel(m) for n, m in vpairs.items()})
        _rewrite_strings(d, sp)
        out.update(vpairs)
    if fren:
        strs = d["strs"]

        def owner_is(n, adt):
            o = n.get("owner")
            o = strs[o] if isinstance(o, int) else (o or "")
            o = o.lstrip("&").replace("mut ", "").strip()
            return o.split("<", 1)[0] == rel(adt)

        def walk_fix(n):
            if isinstance(n, dict):
                k = n.get("k")
                for r in fren:
                    if r[0] == "variant":
                        if k == "Struct" and n.get("adt") == r[1] and n.get("variant") == r[2]:
                            n["variant"] = r[3]
                        continue
                    _t, adt, var, newn, oldn = r
                    if k == "Field" and n.get("name") == newn and owner_is(n, adt):
                        n["name"] = oldn
                    elif k == "Struct" and n.get("adt") == adt and n.get("variant") in (var, adt.rsplit("::", 1)[1]):
                        for f in n.get("fields", []):
                            if f.get("name") == newn:
                                f["name"] = oldn
                    elif k == "PStruct" and n.get("path") in (adt, adt + "::" + var):
                        for f in n.get("fields", []):
                            if f.get("name") == newn:
                                f["name"] = oldn
                for v in n.values():
                    if isinstance(v, (dict, list)):
                        walk_fix(v)
            elif isinstance(n, list):
                for v in n:
                    walk_fix(v)
        walk_fix(d["bodies"])
        for r in fren:
            if r[0] == "field":
                out["%s.%s" % (r[1], r[3])] = "%s.%s" % (r[1], r[4])
    return out


def _apply_fn_renames(d, base):
    strs = d["strs"]

    import re as _re2
    _gp = _re2.compile(r"(?:impl [\w:<>, ']+?|[A-Za-z_]\w*)/#(\d+)")

    def gnorm(t):
        return _gp.sub(r"G#\1", t) if isinstance(t, str) else t          # `impl Trait/#0` and `T/#0` are the same generic parameter

    def sig(b):
        ins = [gnorm(strs[i] if isinstance(i, int) else i) for i in b.get("inputs", [])]
        out = b.get("output")
        return ins, gnorm(strs[out] if isinstance(out, int) else out)
    base = {p_: dict(r_, inputs=[gnorm(x) for x in r_["inputs"]], output=gnorm(r_["output"])) for p_, r_ in base.items()}
    cur = {b["path"]: b for b in d["bodies"] if b.get("dk") in ("Fn", "AssocFn")}
    missing = [p for p, r in base.items() if p not in cur and not r["pub"]]
    new = [p for p, b in cur.items() if p not in base and not b.get("pub")]
    if not missing or not new:
        return {}

    def parent(p):
        return p.rsplit("::", 1)[0]
    pairs = {}
    for par in sorted({parent(m) for m in missing}):
        ms = [m for m in missing if parent(m) == par]
        ns = [n for n in new if parent(n) == par]
        for m in list(ms):
            want = (base[m]["inputs"], base[m]["output"])
            hits = [n for n in ns if list(sig(cur[n])) == [want[0], want[1]] or sig(cur[n]) == want]
            others = [m2 for m2 in ms if m2 != m and (base[m2]["inputs"], base[m2]["output"]) == want]
            if len(hits) == 1 and not others:
                pairs[hits[0]] = m
                ms.remove(m)
                ns.remove(hits[0])
        if len(ms) == 1 and len(ns) == 1:
            m, n = ms[0], ns[0]
            callers = set()
            for b in d["bodies"]:
                if "body" in b and _mentions_callee(b["body"], n):
                    callers.add(b["path"])
            if any(c == r or c.startswith(r + "::") for c in callers for r in base[m]["callers"]):
                pairs[n] = m
    # a private function that was MOVED (nested fn <-> module level, into another private module): same own name and signature somewhere else
    left_m = [m for m in missing if m not in pairs.values()]
    left_n = [n for n in new if n not in pairs]
    for m in left_m:
        leaf = m.rsplit("::", 1)[1]
        want = (base[m]["inputs"], base[m]["output"])
        hits = [n for n in left_n if n.rsplit("::", 1)[1] == leaf and sig(cur[n]) == want]
        rivals = [m2 for m2 in left_m if m2 != m and m2.rsplit("::", 1)[1] == leaf]
        if len(hits) == 1 and not rivals:
            pairs[hits[0]] = m
    # .. moved AND renamed: the one missing and the one new private function of the crate that have this very signature
    left_m = [m for m in missing if m not in pairs.values()]
    left_n = [n for n in new if n not in pairs]
    for m in left_m:
        want = (base[m]["inputs"], base[m]["output"])
        hits = [n for n in left_n if sig(cur[n]) == want]
        rivals = [m2 for m2 in left_m if m2 != m and (base[m2]["inputs"], base[m2]["output"]) == want]
        if len(hits) == 1 and not rivals and want[0]:
            callers = set()
            for b in d["bodies"]:
                if "body" in b and _mentions_callee(b["body"], hits[0]):
                    callers.add(b["path"])
            if any(c == r or c.startswith(r + "::") or r.startswith(c + "::") for c in callers for r in base[m]["callers"]):
                pairs[hits[0]] = m
    if not pairs:
        return {}
    _rewrite_strings(d, pairs)
    return pairs


def _mentions_callee(n, path):
    if isinstance(n, dict):
        if n.get("callee") == path:
            return True
        return any(_mentions_callee(v, path) for v in n.values() if isinstance(v, (dict, list)))
    if isinstance(n, list):
        return any(_mentions_callee(v, path) for v in n)
    return False


def inline_extracted_helpers(crate):
    """EXTRACT FUNCTION undone: a private function that the reviewed tree does not have (rules/names.json; not a renamed one either), that is called
    from exactly one place, never calls itself and never leaves early (`return`, `?` outside closures) is put back where it is called: the call
    becomes the block `{ let <param> = <argument>; ..; <body> }` (the helper's locals renumbered), its MIR facts (calls, asserts, casts) go to the
    caller and the helper is dropped. Every rule - also those that walk the typed tree of a public function looking for its loops, writes and
    panic sites - then sees the code where it was before the extraction. Returns the list of inlined paths."""
    base = _baseline_names().get(crate.name, {}).get("fns", {})
    if not base:
        return []
    done = []
    for _round in range(4):
        fns = {p: b for p, b in crate.bodies.items() if b.get("dk") in ("Fn", "AssocFn") and "body" in b}
        cands = [p for p, b in fns.items() if not b.get("pub") and not b.get("impl_trait")
                 and (p not in base or (b.get("inputs", []), b.get("output", "")) != (base[p]["inputs"], base[p]["output"]))]
        # (new helpers, and private helpers whose signature is no longer the reviewed one: what moved across their boundary is seen in place)
        progress = False
        for h in cands:
            H = fns[h]
            sites = []
            for fp, F in crate.bodies.items():
                if "body" not in F:
                    continue
                for n in _all_nodes(F["body"]):
                    if n.get("k") in ("Call", "MethodCall") and n.get("callee") == h:
                        sites.append((F, n))
                    elif n.get("k") == "Path" and n.get("r") == "def" and n.get("path") == h:
                        sites.append((F, None))          # used as a value (fn pointer): not a plain call
            if len(sites) != 1 or sites[0][1] is None or sites[0][0] is H:
                continue
            F, call = sites[0]
            params = H.get("params", [])
            args = ([call["recv"]] + call["args"]) if call["k"] == "MethodCall" else call["args"]
            if len(params) != len(args) or any(p_.get("k") != "Bind" for p_ in params):
                continue
            leaves_early = uses_try = False
            try_rets = set()
            for n in walk(H["body"], into_closures=False):
                if n.get("k") == "Match" and str(n.get("src", "")).startswith("TryDesugar"):
                    uses_try = True
                    for a_ in n.get("arms", []):
                        for x_ in walk(a_["body"], into_closures=False):
                            if x_.get("k") == "Ret":
                                try_rets.add(id(x_))           # the `return` that `?` itself stands for
            for n in walk(H["body"], into_closures=False):
                if n.get("k") == "Ret" and id(n) not in try_rets:
                    leaves_early = True
            if leaves_early:
                continue
            if uses_try and not _tried_at_call_site(F, H, call) and not _is_result_of(F, H, call):
                continue        # a `?` inside the helper is the caller's `?` only if the call itself is `?`-ed at once (same error type), or if the
                                # helper's result IS the caller's result (the call in return position, same type)
            off = 1000000 * (len(done) + 1)
            for n in _all_nodes(H["body"]) + _all_nodes(params):
                if (n.get("k") == "Bind" or (n.get("k") == "Path" and n.get("r") == "local")) and isinstance(n.get("id"), int):
                    n["id"] += off
            stmts = []
            import copy as _copy
            for p_, a in zip(params, args):
                a2 = a
                while isinstance(a2, dict) and a2.get("k") in ("DropTemps", "Use"):
                    a2 = a2["e"]
                if isinstance(a2, dict) and a2.get("k") == "AddrOf" and str(p_.get("ty", "")).startswith("&") and _is_plain_place(a2["e"]) and not p_.get("mut"):
                    # `p: &mut T` bound to `&mut place`: the helper works on the place itself (no alias is introduced)
                    pid = p_["id"]
                    place = a2["e"]
                    for n in _all_nodes(H["body"]):
                        if n.get("k") == "Unary" and n.get("op") == "Deref":
                            inner = n.get("e")
                            while isinstance(inner, dict) and inner.get("k") in ("DropTemps", "Use"):
                                inner = inner["e"]
                            if isinstance(inner, dict) and inner.get("k") == "Path" and inner.get("r") == "local" and inner.get("id") == pid:
                                n.clear()
                                n.update(_copy.deepcopy(place))
                    for n in _all_nodes(H["body"]):
                        if n.get("k") == "Path" and n.get("r") == "local" and n.get("id") == pid:
                            ty = n.get("ty", "")
                            n.clear()
                            n.update(_copy.deepcopy(place))
                            n["adj"] = ty
                    continue
                stmts.append({"k": "SLet", "pat": p_, "init": a, "sp": call.get("sp", "")})
            hb = strip(H["body"])
            where = _statement_evaluating_first(F["body"], call)
            if where is not None and hb.get("k") == "Block" and "expr" in hb["b"]:
                # the call is the first thing its statement evaluates (`let x = h(..);`, `for y in h(..) {`, `h(..);`): the helper's statements
                # go in front of that statement and its value takes the place of the call - the shape before the extraction
                blk, i = where
                tail = hb["b"]["expr"]
                pre = stmts + list(hb["b"]["stmts"])
                st = blk["stmts"][i]
                if st.get("k") == "SLet" or strip(st.get("e", {})) is call:
                    blk["stmts"][i:i] = pre
                    call.clear()
                    call.update(tail)
                else:
                    # `for y in h(..)`: the value is bound first, `let v = <value>; for y in v`
                    fid = off + 999999
                    ty = call.get("ty", H.get("output", ""))
                    pre.append({"k": "SLet", "pat": {"k": "Bind", "id": fid, "name": "__value_of_" + h.rsplit("::", 1)[1], "mode": "BindingMode(No, Not)", "mut": False,
                                                       "byref": False, "ty": ty}, "init": tail, "sp": call.get("sp", "")})
                    blk["stmts"][i:i] = pre
                    sp = call.get("sp", "")
                    call.clear()
                    call.update({"k": "Path", "r": "local", "id": fid, "name": "__value_of_" + h.rsplit("::", 1)[1], "ty": ty, "sp": sp})
            else:
                block = {"k": "Block", "b": {"stmts": stmts, "expr": H["body"]}, "ty": call.get("ty", H.get("output", "")), "sp": call.get("sp", "")}
                call.clear()
                call.update(block)
            hm, fm = H.get("mir") or {}, F.setdefault("mir", {})
            owner = F
            if F.get("dk") == "Closure":
                pass
            for key in ("calls", "asserts", "casts"):
                if hm.get(key):
                    fm.setdefault(key, [])
                    fm[key] = list(fm[key]) + list(hm[key])
            # the caller no longer calls the helper: its compiled call sites go with it (the helper's own were just merged)
            for b_ in list(crate.bodies.values()) + list(getattr(crate, "closures_mir", {}).values()):
                m_ = b_.get("mir") or {}
                if m_.get("calls"):
                    m_["calls"] = [c_ for c_ in m_["calls"] if h not in (c_.get("callee"), c_.get("inst"))]
            del crate.bodies[h]
            done.append(h)
            progress = True
        if not progress:
            break
    return done


def _is_plain_place(e):
    """a local or a field path of one: evaluating it twice or later makes no difference"""
    while isinstance(e, dict):
        while e.get("k") in ("DropTemps", "Use"):
            e = e["e"]
        if e.get("k") == "Path":
            return e.get("r") == "local"
        if e.get("k") == "Field":
            e = e["base"]
        else:
            return False
    return False


def _try_operand(e):
    """X of `X?` (the desugared match on Try::branch(X)), else None"""
    if isinstance(e, dict) and e.get("k") == "Match" and str(e.get("src", "")).startswith("TryDesugar"):
        sc = strip(e["scrut"])
        if sc.get("k") == "Call" and str(sc.get("callee", "")).endswith("Try::branch") and len(sc.get("args", [])) == 1:
            return sc["args"][0]
    return None


def _tried_at_call_site(F, H, call):
    """the call is the operand of a `?` of F itself (not of a closure in F), and helper and caller fail with the same type"""
    def err_ty(t):
        t = str(t or "")
        if t.startswith(("std::option::Option<", "core::option::Option<")):
            return "Option"
        if t.startswith(("std::result::Result<", "core::result::Result<")):
            depth, last = 0, None
            for i, ch in enumerate(t):
                if ch in "<([":
                    depth += 1
                elif ch in ">)]":
                    depth -= 1
                elif ch == "," and depth == 1:
                    last = i
            return t[last + 1:-1].strip() if last else None
        return None
    if err_ty(H.get("output")) is None or err_ty(H.get("output")) != err_ty(F.get("output")):
        return False
    found = [False]

    def rec(n, in_closure):
        if isinstance(n, dict):
            if n.get("k") == "Closure":
                in_closure = True
            op = _try_operand(n)
            if op is not None and strip(op) is call and not in_closure:
                found[0] = True
            for v in n.values():
                if isinstance(v, (dict, list)):
                    rec(v, in_closure)
        elif isinstance(n, list):
            for v in n:
                rec(v, in_closure)
    rec(F["body"], False)
    return found[0]


def _is_result_of(F, H, call):
    """the call is in return position of F (the tail of its body, through blocks, `if` / `match` arms) and both return the same type"""
    if F.get("dk") not in ("Fn", "AssocFn") or not H.get("output") or H.get("output") != F.get("output"):
        return False

    def tail(e):
        e = strip(e)
        if e is call:
            return True
        k = e.get("k")
        if k == "Block":
            return "expr" in e["b"] and tail(e["b"]["expr"])
        if k == "Match" and e.get("src") == "Normal":
            return any(tail(a["body"]) for a in e["arms"])
        if k == "If":
            return tail(e["then"]) or ("else" in e and tail(e["else"]))
        return False
    return tail(F["body"])


def _statement_evaluating_first(root, call):
    """(block, index) of the statement of which `call` is the first thing evaluated: the init of a `let`, the iterated expression of a `for`
    statement, or the whole expression statement; None otherwise"""
    def same(e):
        while isinstance(e, dict) and e is not call:
            if e.get("k") in ("DropTemps", "Use", "AddrOf"):
                e = e["e"]
            elif _try_operand(e) is not None:
                e = _try_operand(e)          # `h(..)?`
            else:
                break
        return e is call
    for blk in _all_nodes(root):
        if blk.get("k") is not None or "stmts" not in blk:
            continue
        for i, st in enumerate(blk["stmts"]):
            k = st.get("k")
            if k == "SLet" and "init" in st and same(st["init"]):
                return blk, i
            if k in ("SSemi", "SExpr"):
                e = strip(st["e"])
                if e is call:
                    return blk, i
                if isinstance(e, dict) and e.get("k") == "Match" and e.get("src") == "ForLoopDesugar":
                    sc = strip(e["scrut"])
                    if sc.get("k") == "Call" and str(sc.get("callee", "")).endswith("IntoIterator::into_iter") and sc.get("args") and same(sc["args"][0]):
                        return blk, i
    return None


def _all_nodes(n):
    out = []

    def rec(x):
        if isinstance(x, dict):
            out.append(x)
            for v in x.values():
                if isinstance(v, (dict, list)):
                    rec(v)
        elif isinstance(x, list):
            for v in x:
                rec(v)
    rec(n)
    return out


class Crate:
    def __init__(self, path):
        with open(path) as fh:
            d = json.load(fh)
        self.renamed = apply_renames(d)
        self.raw = d
        self.name = d["crate"]
        self.strs = d["strs"]
        self.expns = d["expns"]
        self.bodies = {}
        self.closures_mir = {}
        for b in d["bodies"]:
            if b["dk"] == "Closure":
                self.closures_mir[b["path"]] = b
            else:
                # several bodies can share a path only for anon consts; keep first
                self.bodies.setdefault(b["path"], b)
        self.adts = {a["path"]: a for a in d["adts"]}
        self.impls = d["impls"]
        self._annotate()
        self.inlined = inline_extracted_helpers(self)
        for b in self.bodies.values():
            if "body" in b:
                lower_while_next(b["body"])
                lower_let_else_panic(b["body"])
                lower_let_else_return(b["body"])
                lower_match_stmt(b["body"])
                merge_guarded_arms(b["body"])
                if b.get("dk") in ("Fn", "AssocFn"):
                    lower_cursor_loop(b)
                    lower_fold_loop(b)
                lower_get_insert(b["body"])

    def _annotate(self):
        """resolve interned type indices to strings in place (ty, adj, owner, gen)"""
        strs = self.strs
        expns = self.expns

        def fix(n):
            if isinstance(n, dict):
                x = n.get("x")
                if isinstance(x, int):
                    n["xk"] = expns[x]["inner"]
                for k in ("ty", "adj", "owner", "gen", "impl_self", "output"):
                    v = n.get(k)
                    if isinstance(v, int):
                        n[k] = strs[v]
                if "inputs" in n and isinstance(n["inputs"], list):
                    n["inputs"] = [strs[i] if isinstance(i, int) else i for i in n["inputs"]]
                if n.get("k") == "Call" and str(n.get("callee", "")).startswith("SelfCtor:") and isinstance(n.get("ty"), str):
                    # `Self(..)` inside an impl of a tuple struct is that struct's constructor: the call's own type names it
                    import re as _re
                    n["callee"] = _re.sub(r"<.*$", "", n["ty"])
                    n["dk"] = "Ctor(Struct, Fn)"
                for v in n.values():
                    if isinstance(v, (dict, list)):
                        fix(v)
            elif isinstance(n, list):
                for v in n:
                    fix(v)
        for b in self.raw["bodies"]:
            fix(b)

    def expn(self, node):
        x = node.get("x")
        return self.expns[x] if isinstance(x, int) else None


class Program:
    def __init__(self, facts_dir):
        self.dir = facts_dir
        self.crates = {}
        self.synthetic = {}
        for fn in sorted(os.listdir(facts_dir)):
            if fn.endswith(".json") and not fn.startswith("_"):
                c = Crate(os.path.join(facts_dir, fn))
                self.crates[c.name] = c

    def crate_of(self, path):
        return self.crates[path.split("::", 1)[0]]

    def body(self, path):
        c = self.crates.get(path.split("::", 1)[0])
        b = c.bodies.get(path) if c else None
        return b if b is not None else self.synthetic.get(path)      # closures given a body of their own (k10.fnptr_bindings)

    def all_bodies(self, crates=("scale_typegen", "scale_typegen_description")):
        for cn in crates:
            c = self.crates.get(cn)
            if not c:
                continue
            for b in c.bodies.values():
                yield c, b

    def adt(self, path):
        for c in self.crates.values():
            if path in c.adts:
                return c.adts[path]
        return None

    def find_bodies(self, suffix=None, pred=None, crates=("scale_typegen", "scale_typegen_description")):
        out = []
        for c, b in self.all_bodies(crates):
            if suffix is not None and not b["path"].endswith(suffix):
                continue
            if pred is not None and not pred(b):
                continue
            out.append(b)
        return out


# ----------------------------------------------------------------- walking ----
def children(n):
    """direct child nodes (exprs, pats, blocks, stmts, arms) of a node, in source order"""
    if not isinstance(n, dict):
        return
    k = n.get("k")
    if k == "Call":
        if "f" in n:
            yield n["f"]
        for a in n["args"]:
            yield a
        return
    if k == "MethodCall":
        yield n["recv"]
        for a in n["args"]:
            yield a
        return
    if k in ("Array", "Tup"):
        for a in n["es"]:
            yield a
        return
    if k == "Match":
        yield n["scrut"]
        for a in n["arms"]:
            yield a
        return
    if k == "Struct":
        for f in n["fields"]:
            yield f["e"]
        if "base" in n:
            yield n["base"]
        return
    if k == "Closure":
        for p in n["params"]:
            yield p
        yield n["body"]
        return
    if k == "Block":
        yield n["b"]
        return
    if k == "Loop":
        yield n["body"]
        return
    if k == "If":
        yield n["cond"]
        yield n["then"]
        if "else" in n:
            yield n["else"]
        return
    if k == "Let":
        yield n["pat"]
        yield n["init"]
        return
    if k == "SLet":
        yield n["pat"]
        if "init" in n:
            yield n["init"]
        if "els" in n:
            yield n["els"]
        return
    if k in ("SExpr", "SSemi"):
        yield n["e"]
        return
    if k is None:
        # block {stmts, expr}, arm {pat, guard, body}, field-pat
        if "stmts" in n:
            for s in n["stmts"]:
                yield s
            if "expr" in n:
                yield n["expr"]
            return
        if "pat" in n and "body" in n:
            yield n["pat"]
            if "guard" in n:
                yield n["guard"]
            yield n["body"]
            return
        return
    # patterns
    if k in ("PStruct",):
        for f in n["fields"]:
            yield f["p"]
        return
    if k in ("PTupleStruct", "PTuple", "Or"):
        for p in n["ps"]:
            yield p
        return
    if k in ("PBox", "PDeref", "PRef"):
        yield n["p"]
        return
    if k == "PGuard":
        yield n["p"]
        yield n["e"]
        return
    if k == "PSlice":
        for p in n["before"]:
            yield p
        if "mid" in n:
            yield n["mid"]
        for p in n["after"]:
            yield p
        return
    if k == "Bind":
        if "sub" in n:
            yield n["sub"]
        return
    # generic expression kinds
    for key in ("l", "r", "e", "base", "idx", "init"):
        if key in n and isinstance(n[key], dict):
            yield n[key]


def walk(n, into_closures=True):
    """pre-order over all nodes below (and including) n"""
    stack = [n]
    while stack:
        x = stack.pop()
        if not isinstance(x, dict):
            continue
        yield x
        if x.get("k") == "Closure" and not into_closures and x is not n:
            continue
        ch = list(children(x))
        ch.reverse()
        stack.extend(ch)


def walk_with_parents(n, parents=()):
    yield n, parents
    p2 = parents + (n,)
    for c in children(n):
        if isinstance(c, dict):
            yield from walk_with_parents(c, p2)


def is_expr(n):
    return isinstance(n, dict) and "ty" in n and n.get("k") not in PAT_KINDS and n.get("k") is not None


PAT_KINDS = {"Wild", "Missing", "Never", "Bind", "PStruct", "PTupleStruct", "Or", "PTuple", "PBox",
             "PDeref", "PRef", "PExpr", "PGuard", "PRange", "PSlice", "PErr"}


def callee(n):
    return n.get("callee", "") if isinstance(n, dict) else ""


def short(path):
    """strip generic args and crate-internal noise for display"""
    return re.sub(r"::<[^>]*>", "", path)


def calls(n, pred=None, name_suffix=None):
    for x in walk(n):
        if x.get("k") in ("Call", "MethodCall"):
            c = x.get("callee", "")
            if name_suffix is not None and not c.endswith(name_suffix):
                continue
            if pred is not None and not pred(x):
                continue
            yield x


def strip(n):
    """erase transparent wrappers: &, *, DropTemps, Use, Block without stmts, TypeAscr"""
    while isinstance(n, dict):
        k = n.get("k")
        if k in ("AddrOf", "DropTemps", "Use", "TypeAscr"):
            n = n["e"]
        elif k == "Unary" and n.get("op") == "Deref":
            n = n["e"]
        elif k == "Block" and not n["b"]["stmts"] and "expr" in n["b"]:
            n = n["b"]["expr"]
        else:
            break
    return n


def local_id(n):
    n = strip(n)
    if isinstance(n, dict) and n.get("k") == "Path" and n.get("r") == "local":
        return n["id"]
    return None


# ----------------------------------------------------------- pretty printer ----
def pp(n, ind=0, maxd=40):
    """readable pseudo-source of a node, for diagnostics and replay output"""
    sp = "  " * ind
    if not isinstance(n, dict):
        return sp + repr(n)
    if ind > maxd:
        return sp + "..."
    k = n.get("k")
    if k is None:
        if "stmts" in n:
            out = [sp + "{"]
            for s in n["stmts"]:
                out.append(pp(s, ind + 1, maxd))
            if "expr" in n:
                out.append(pp(n["expr"], ind + 1, maxd))
            out.append(sp + "}")
            return "\n".join(out)
        if "pat" in n and "body" in n:
            g = (" if " + pp(n["guard"], 0, maxd).strip()) if "guard" in n else ""
            return sp + pp(n["pat"], 0, maxd).strip() + g + " =>\n" + pp(n["body"], ind + 1, maxd)
        return sp + "?" + str(list(n.keys()))
    if k == "SLet":
        s = sp + "let " + pp(n["pat"], 0).strip()
        if "init" in n:
            s += " =\n" + pp(n["init"], ind + 1, maxd)
        if "els" in n:
            s += "\n" + sp + "else\n" + pp(n["els"], ind + 1, maxd)
        return s
    if k in ("SExpr", "SSemi"):
        return pp(n["e"], ind, maxd) + (";" if k == "SSemi" else "")
    if k == "Bind":
        return sp + ("mut " if n.get("mut") else "") + f"{n['name']}#{n['id']}" + (("@" + pp(n["sub"], 0).strip()) if "sub" in n else "")
    if k == "Wild":
        return sp + "_"
    if k in ("PTuple",):
        return sp + "(" + ", ".join(pp(p, 0).strip() for p in n["ps"]) + ")"
    if k == "Or":
        return sp + " | ".join(pp(p, 0).strip() for p in n["ps"])
    if k == "PTupleStruct":
        return sp + short(n.get("path", "?")) + "(" + ", ".join(pp(p, 0).strip() for p in n["ps"]) + ")"
    if k == "PStruct":
        return sp + short(n.get("path", "?")) + "{" + ", ".join(f["name"] + ": " + pp(f["p"], 0).strip() for f in n["fields"]) + (", .." if n.get("rest") else "") + "}"
    if k in ("PRef", "PBox", "PDeref"):
        return sp + "&" + pp(n["p"], 0).strip()
    if k == "PExpr":
        e = n["e"]
        return sp + (repr(e.get("v")) if e["k"] == "PLit" else short(e.get("path", "?")))
    if k == "PSlice":
        parts = [pp(p, 0).strip() for p in n["before"]]
        if "mid" in n:
            parts.append(pp(n["mid"], 0).strip() + "..")
        parts += [pp(p, 0).strip() for p in n["after"]]
        return sp + "[" + ", ".join(parts) + "]"
    if k == "PRange":
        return sp + "range"
    if k == "Lit":
        return sp + repr(n.get("v"))
    if k == "Path":
        if n.get("r") == "local":
            return sp + f"{n['name']}#{n['id']}"
        return sp + short(n.get("path", "?"))
    if k == "Call":
        head = short(n["callee"]) if "callee" in n else "(" + pp(n["f"], 0, maxd).strip() + ")"
        if not n["args"]:
            return sp + head + "()"
        return sp + head + "(\n" + ",\n".join(pp(a, ind + 1, maxd) for a in n["args"]) + ")"
    if k == "MethodCall":
        s = pp(n["recv"], ind, maxd) + "\n" + sp + "  ." + n["name"] + "[" + short(n.get("callee", "?")) + "]("
        if n["args"]:
            s += "\n" + ",\n".join(pp(a, ind + 2, maxd) for a in n["args"])
        return s + ")"
    if k == "Field":
        return pp(n["base"], ind, maxd) + "." + n["name"]
    if k == "AddrOf":
        return sp + ("&mut " if n.get("mut") else "&") + pp(n["e"], ind, maxd).strip()
    if k == "Unary":
        return sp + n["op"] + " " + pp(n["e"], ind, maxd).strip()
    if k == "Binary":
        return sp + "(" + pp(n["l"], 0, maxd).strip() + " " + n["op"] + " " + pp(n["r"], 0, maxd).strip() + ")"
    if k in ("Assign", "AssignOp"):
        return sp + pp(n["l"], 0, maxd).strip() + " " + n.get("op", "") + "= " + pp(n["r"], ind, maxd).strip()
    if k == "If":
        s = sp + "if " + pp(n["cond"], ind, maxd).strip() + "\n" + pp(n["then"], ind + 1, maxd)
        if "else" in n:
            s += "\n" + sp + "else\n" + pp(n["else"], ind + 1, maxd)
        return s
    if k == "Let":
        return sp + "let " + pp(n["pat"], 0).strip() + " = " + pp(n["init"], ind, maxd).strip()
    if k == "Match":
        s = sp + f"match[{n['src']}] " + pp(n["scrut"], ind, maxd).strip() + " {"
        for a in n["arms"]:
            s += "\n" + pp(a, ind + 1, maxd)
        return s + "\n" + sp + "}"
    if k == "Block":
        return pp(n["b"], ind, maxd)
    if k == "Loop":
        return sp + f"loop[{n['src']}]\n" + pp(n["body"], ind + 1, maxd)
    if k == "Closure":
        return sp + "|" + ", ".join(pp(p, 0).strip() for p in n["params"]) + "|\n" + pp(n["body"], ind + 1, maxd)
    if k == "Struct":
        s = sp + short(n.get("adt", n.get("path", "?"))) + "::" + n.get("variant", "") + " {"
        for f in n["fields"]:
            s += "\n" + sp + "  " + f["name"] + ":\n" + pp(f["e"], ind + 2, maxd)
        if "base" in n:
            s += "\n" + sp + "  .." + pp(n["base"], 0, maxd).strip()
        return s + "\n" + sp + "}"
    if k in ("Tup", "Array"):
        o, c = ("(", ")") if k == "Tup" else ("[", "]")
        return sp + o + ", ".join(pp(e, 0, maxd).strip() for e in n["es"]) + c
    if k in ("Ret", "Break"):
        return sp + k.lower() + ((" " + pp(n["e"], ind, maxd).strip()) if "e" in n else "")
    if k == "Continue":
        return sp + "continue"
    if k == "Index":
        return sp + pp(n["base"], 0, maxd).strip() + "[" + pp(n["idx"], 0, maxd).strip() + "]"
    if k == "Cast":
        return sp + pp(n["e"], 0, maxd).strip() + " as " + n["ty"]
    if k in ("DropTemps", "Use", "TypeAscr", "Repeat", "Yield", "Become"):
        return pp(n["e"], ind, maxd)
    return sp + "<" + str(k) + ">"


def lower_while_next(root):
    """`let mut it = XS[.peekable()]; while let Some(p) = it.next() { B }`, where `it` is otherwise used only as `it.peek()` inside B,
    is rewritten in place into the shape of the loop `for p in XS { B }` (the desugared form every rule already understands), with
    `it.peek()` standing for "the element after this one": the call `loop::peek_next(XS)`. The `let` of the iterator goes away."""
    def local_uses(lid):
        return [n for n in walk(root) if n.get("k") == "Path" and n.get("r") == "local" and n.get("id") == lid]
    changed = False
    for blk in [n for n in walk(root) if n.get("k") == "Block"]:
        b = blk["b"]
        slots = [("stmt", i) for i in range(len(b["stmts"]))] + ([("expr", None)] if "expr" in b else [])
        for kind, i in slots:
            holder = b["stmts"][i] if kind == "stmt" else None
            if kind == "stmt" and holder.get("k") not in ("SExpr", "SSemi"):
                continue
            lp = strip(holder["e"] if kind == "stmt" else b["expr"])
            if not (isinstance(lp, dict) and lp.get("k") == "Loop" and lp.get("src") == "While" and not lp["body"].get("stmts")):
                continue
            iff = strip(lp["body"].get("expr"))
            if not (isinstance(iff, dict) and iff.get("k") == "If" and strip(iff["cond"]).get("k") == "Let" and "else" in iff):
                continue
            let = strip(iff["cond"])
            pat, init = let["pat"], strip(let["init"])
            if not (pat.get("k") == "PTupleStruct" and str(pat.get("path", "")).endswith("::Some") and len(pat.get("ps", [])) == 1):
                continue
            if not (init.get("k") == "MethodCall" and init.get("callee") == "std::iter::Iterator::next" and not init["args"]):
                continue
            recv = strip(init["recv"])
            if not (recv.get("k") == "Path" and recv.get("r") == "local"):
                continue
            lid = recv["id"]
            els = strip(iff["else"])
            eb = els.get("b", {}) if els.get("k") == "Block" else {}
            tail = [st.get("e") for st in eb.get("stmts", [])] + ([eb["expr"]] if "expr" in eb else [])
            if len(tail) != 1 or strip(tail[0]).get("k") != "Break" or "e" in strip(tail[0]) or "label" in strip(tail[0]):
                continue
            lets = [j for j, st in enumerate(b["stmts"]) if st.get("k") == "SLet" and "init" in st and "els" not in st
                    and st["pat"].get("k") == "Bind" and st["pat"].get("id") == lid and (kind == "expr" or j < i)]
            if len(lets) != 1:
                continue
            src = b["stmts"][lets[0]]["init"]
            s0 = strip(src)
            if s0.get("k") == "MethodCall" and str(s0.get("callee", "")).endswith("Iterator::peekable"):
                src = s0["recv"]
            # every other use of the iterator is `it.peek()` inside the loop body
            peeks = [n for n in walk(iff["then"]) if n.get("k") == "MethodCall" and re.search(r"Peekable(::<[^>]*>)?::peek$", str(n.get("callee", "")))
                     and strip(n["recv"]).get("k") == "Path" and strip(n["recv"]).get("id") == lid]
            if len(local_uses(lid)) != 1 + len(peeks):
                continue
            for pk in peeks:
                keep = {k: pk[k] for k in ("ty", "sp", "adj") if k in pk}
                pk.clear()
                pk.update(keep)
                pk.update({"k": "Call", "callee": "core::iter::loop::peek_next", "dk": "Fn", "args": [src]})
            sp = lp.get("sp", "")
            it_ty = src.get("ty", "")
            some_pat = {"k": "PStruct", "r": "def", "dk": "Variant", "path": pat["path"], "fields": [{"name": "0", "p": pat["ps"][0]}], "rest": False, "ty": init.get("ty", "")}
            none_pat = {"k": "PStruct", "r": "def", "dk": "Variant", "path": pat["path"].rsplit("::", 1)[0] + "::None", "fields": [], "rest": False, "ty": init.get("ty", "")}
            inner = {"k": "Match", "src": "ForLoopDesugar", "ty": "()", "sp": sp,
                     "scrut": {"k": "Call", "callee": "std::iter::Iterator::next", "dk": "AssocFn", "ty": init.get("ty", ""), "sp": sp,
                               "args": [{"k": "AddrOf", "mut": True, "ty": "&mut " + it_ty, "sp": sp,
                                         "e": {"k": "Path", "r": "local", "id": lid, "name": "iter", "ty": it_ty, "sp": sp}}]},
                     "arms": [{"pat": none_pat, "body": {"k": "Break", "ty": "!", "sp": sp}}, {"pat": some_pat, "body": iff["then"]}]}
            new = {"k": "Match", "src": "ForLoopDesugar", "ty": "()", "sp": sp, "lowered": "while-next",
                   "scrut": {"k": "Call", "callee": "std::iter::IntoIterator::into_iter", "dk": "AssocFn", "args": [src], "ty": it_ty, "sp": src.get("sp", sp)},
                   "arms": [{"pat": {"k": "Bind", "id": lid, "name": "iter", "mode": "BindingMode(No, Mut)", "mut": True, "byref": False, "ty": it_ty},
                             "body": {"k": "Loop", "src": "ForLoop", "ty": "()", "sp": sp, "body": {"stmts": [{"k": "SExpr", "e": inner}]}}}]}
            if kind == "stmt":
                holder["e"] = new
            else:
                b["expr"] = new
            del b["stmts"][lets[0]]
            changed = True
            break       # statement indices moved: one loop per block per pass
    if changed:
        lower_while_next(root)


def _irrefutable_under_variant(p):
    """(variant path, [(slot, binder-or-None)]) for a pattern `V(a, _, ..)` / `V { f: a, g: _, .. }` whose sub-patterns are all binders or wildcards"""
    while isinstance(p, dict) and p.get("k") in ("PRef", "PBox", "PDeref"):
        p = p["p"]
    if not isinstance(p, dict):
        return None
    def leafkind(q):
        while isinstance(q, dict) and q.get("k") in ("PRef", "PBox", "PDeref"):
            q = q["p"]
        if q.get("k") == "Wild":
            return ("wild", None)
        if q.get("k") == "Bind" and "sub" not in q:
            return ("bind", q)
        return None
    if p.get("k") == "PTupleStruct":
        subs = [(i, leafkind(q)) for i, q in enumerate(p.get("ps", []))]
    elif p.get("k") == "PStruct":
        subs = [(f["name"], leafkind(f["p"])) for f in p.get("fields", [])]
    else:
        return None
    if any(k is None for _s, k in subs):
        return None
    return p, p.get("path"), subs


def merge_guarded_arms(root):
    """`V(x) if g => a, V(_) => b` (consecutive arms on the same variant whose sub-patterns only bind) is rewritten in place into the single
    arm `V(x) => if g { a } else { b }`, the shape rules that look at "the arm for V" expect. Binders of the second arm that the first
    does not have are added to the merged pattern; binders both have are identified (the second's uses are renumbered)."""
    for m in [n for n in walk(root) if n.get("k") == "Match" and n.get("src") == "Normal"]:
        arms = m["arms"]
        i = 0
        while i + 1 < len(arms):
            a, b = arms[i], arms[i + 1]
            ia, ib = _irrefutable_under_variant(a["pat"]), _irrefutable_under_variant(b["pat"])
            if "guard" not in a or "guard" in b or ia is None or ib is None or ia[1] != ib[1] or ia[0].get("k") != ib[0].get("k"):
                i += 1
                continue
            pa, _path, sa = ia
            pb, _path, sb = ib
            da, db = dict(sa), dict(sb)
            if pa.get("k") == "PTupleStruct" and len(sa) != len(sb):
                i += 1
                continue
            ren = {}
            for slot, kb in db.items():
                ka = da.get(slot)
                if kb[0] == "bind":
                    if ka is not None and ka[0] == "bind":
                        ren[kb[1]["id"]] = ka[1]["id"]
                    elif pa.get("k") == "PTupleStruct":
                        pa["ps"][slot] = kb[1]                     # the first arm ignored this slot: take the second's binder
                    else:
                        hit = [f for f in pa["fields"] if f["name"] == slot]
                        if hit:
                            hit[0]["p"] = kb[1]
                        else:
                            pa["fields"].append({"name": slot, "p": kb[1]})
            if ren:
                for x in walk(b["body"]):
                    if x.get("k") == "Path" and x.get("r") == "local" and x.get("id") in ren:
                        x["id"] = ren[x["id"]]
            body = {"k": "If", "cond": a["guard"], "then": a["body"], "else": b["body"], "ty": a["body"].get("ty", b["body"].get("ty", "")),
                    "sp": a["body"].get("sp", "")}
            merged = dict(a)
            del merged["guard"]
            merged["body"] = body
            arms[i:i + 2] = [merged]
            # stay at i: a further arm on the same variant may follow


_PANICS = ("core::panicking::", "std::rt::panic", "std::rt::begin_panic")


def lower_let_else_panic(root):
    """`let Some(x) = o else { panic!(msg) };`  is  `let x = o.expect(msg);`  (likewise `Ok(x)` of a Result): the same value on the same
    condition, and a panic with a message of the author's on the other - one panic site of the `unwrap` kind on operand o"""
    def only_panics(blk):
        b = blk.get("b", blk)
        items = [st.get("e") for st in b.get("stmts", []) if st.get("k") in ("SSemi", "SExpr")]
        if len(items) != len(b.get("stmts", [])):
            return None
        if b.get("expr") is not None:
            items.append(b["expr"])
        if len(items) != 1:
            return None
        e = strip(items[0])
        if isinstance(e, dict) and e.get("k") == "Block":
            return only_panics(e)            # panic!(..) expands to a block around the call
        if isinstance(e, dict) and e.get("k") == "Call" and str(e.get("callee", "")).startswith(_PANICS):
            return e
        return None
    for n in walk(root):
        if n.get("k") != "SLet" or "els" not in n or "init" not in n:
            continue
        p = n["pat"]
        if p.get("k") != "PTupleStruct" or len(p.get("ps", [])) != 1:
            continue
        head = str(p.get("path", ""))
        which = "Option" if head.endswith("::Some") else "Result" if head.endswith("::Ok") else None
        if which is None or only_panics(n["els"]) is None:
            continue
        sub = p["ps"][0]
        n["init"] = {"k": "MethodCall", "name": "expect", "callee": "std::%s::%s::<T>::expect" % (which.lower(), which), "recv": n["init"],
                     "args": [{"k": "Lit", "lk": "str", "v": "", "ty": "&str", "sp": n.get("sp", "")}], "ty": sub.get("ty", ""), "sp": n["init"].get("sp", n.get("sp", ""))}
        n["pat"] = sub
        del n["els"]


def lower_let_else_return(root):
    """`let Some(x) = o else { return Err(e) };`  is  `let x = o.ok_or(e)?;`   and   `.. else { return None };`  is  `let x = o?;`
    (the same value on the same condition, the same early exit with the same value on the other)"""
    def only_return(blk):
        b = blk.get("b", blk)
        items = [st.get("e") for st in b.get("stmts", []) if st.get("k") in ("SSemi", "SExpr")]
        if len(items) != len(b.get("stmts", [])):
            return None
        if b.get("expr") is not None:
            items.append(b["expr"])
        if len(items) != 1:
            return None
        e = strip(items[0])
        if isinstance(e, dict) and e.get("k") == "Ret" and "e" in e:
            return strip(e["e"])
        return None

    def question_mark(operand, ty, sp):
        return {"k": "Match", "src": "TryDesugar(lowered let-else)", "scrut": {"k": "Call", "callee": "std::ops::Try::branch", "dk": "AssocFn", "args": [operand],
                                                                          "ty": "std::ops::ControlFlow<?, ?>", "sp": sp, "xk": "desugar:QuestionMark"},
                "arms": [], "ty": ty, "sp": sp}
    for n in walk(root):
        if n.get("k") != "SLet" or "els" not in n or "init" not in n:
            continue
        p = n["pat"]
        if p.get("k") != "PTupleStruct" or len(p.get("ps", [])) != 1 or not str(p.get("path", "")).endswith("::Some"):
            continue
        sub = p["ps"][0]
        if sub.get("k") not in ("Bind", "Wild"):
            continue
        r = only_return(n["els"])
        if r is None:
            continue
        sp = n.get("sp", "")
        if r.get("k") == "Path" and str(r.get("path", "")).endswith("::None"):
            n["init"] = question_mark(n["init"], sub.get("ty", ""), sp)
        elif r.get("k") == "Call" and str(r.get("callee", "")).endswith("::Err") and len(r.get("args", [])) == 1:
            ok_or = {"k": "MethodCall", "name": "ok_or", "callee": "std::option::Option::<T>::ok_or", "recv": n["init"], "args": [r["args"][0]],
                     "ty": "std::result::Result<?, ?>", "sp": sp}
            n["init"] = question_mark(ok_or, sub.get("ty", ""), sp)
        else:
            continue
        n["pat"] = sub
        del n["els"]


def lower_match_stmt(root):
    """A match in statement position whose only effect is one diverging arm -  `match S { P if G => return .., _ => {} }`  - is rewritten in place into
    `if let P = S { if G { return .. } }`, the guard-clause shape the block normaliser (and every rule that looks for dominating conditions) knows."""
    def unit(e):
        e = strip(e)
        if e.get("k") == "Tup" and not e.get("es"):
            return True
        return e.get("k") == "Block" and not e["b"].get("stmts") and ("expr" not in e["b"] or unit(e["b"]["expr"]))
    for blk in [n for n in walk(root) if n.get("k") is None and "stmts" in n]:
        for st in blk["stmts"]:
            if st.get("k") not in ("SSemi", "SExpr"):
                continue
            holder = st
            m = st["e"]
            while isinstance(m, dict) and m.get("k") in ("DropTemps", "Use"):
                holder, m = m, m["e"]
            if not (isinstance(m, dict) and m.get("k") == "Match" and m.get("src") == "Normal" and len(m["arms"]) == 2):
                continue
            a, b = m["arms"]
            if "guard" in b or b["pat"].get("k") != "Wild" or not unit(b["body"]) or strip(a["body"]).get("ty") != "!":
                continue
            inner = a["body"]
            if "guard" in a:
                inner = {"k": "If", "cond": a["guard"], "then": a["body"], "ty": "()", "sp": a["body"].get("sp", "")}
            new = {"k": "If", "cond": {"k": "Let", "pat": a["pat"], "init": m["scrut"], "ty": "bool", "sp": m.get("sp", "")},
                   "then": {"k": "Block", "b": {"stmts": [{"k": "SSemi", "e": inner}]}, "ty": "()", "sp": m.get("sp", "")}, "ty": "()", "sp": m.get("sp", "")}
            holder["e"] = new


def _has_loop_control(n):
    """a `break` / `continue` / nested loop below n (closures excluded)"""
    return any(x.get("k") in ("Break", "Continue", "Loop") or (x.get("k") == "Match" and x.get("src") == "ForLoopDesugar") for x in walk(n, into_closures=False) if x is not n)


def lower_cursor_loop(fnrec):
    """A loop that walks a chain with one cursor that starts as a parameter is the same function written with a tail call:
         let mut c = p;  loop { B; c = E; }                          ==   B[p];  return f(E[p], other params)
         let mut c = Some(p);  while let Some(x) = c { B; c = E; }  T  ==   B[p];  if let Some(n) = E[p] { return f(n, other params) }  T
       (B may `return`; no break / continue / nested loop; p and c are used nowhere else). Rewritten in place, so that the recursive and the
       iterative spelling have the same typed tree (and the same self-call edge in the HIR call graph)."""
    root = strip(fnrec["body"])
    if not isinstance(root, dict) or root.get("k") != "Block":
        return
    params = [p for p in fnrec.get("params", []) if p.get("k") == "Bind"]
    pid = {p["id"]: i for i, p in enumerate(fnrec.get("params", [])) if p.get("k") == "Bind"}
    if len(params) != len(fnrec.get("params", [])):
        return
    b = root["b"]
    stmts = b["stmts"]
    tail_loop = "expr" in b and strip(b["expr"]).get("k") == "Loop"
    if tail_loop:
        stmts.append({"k": "SExpr", "e": b.pop("expr"), "tail": True})        # a `loop` in tail position: tried like a statement, put back if not lowered
    try:
        _lower_cursor_loop_in(fnrec, root, b, stmts, params, pid)
    finally:
        if stmts and stmts[-1].get("tail"):
            b["expr"] = stmts.pop()["e"]


def _lower_cursor_loop_in(fnrec, root, b, stmts, params, pid):
    for j, st in enumerate(stmts):
        holder = None
        if st.get("k") in ("SExpr", "SSemi"):
            holder = strip(st["e"])
        if holder is None or holder.get("k") != "Loop" or j == 0:
            continue
        let = stmts[j - 1]
        if not (let.get("k") == "SLet" and "init" in let and "els" not in let and let["pat"].get("k") == "Bind"):
            continue
        cid = let["pat"]["id"]
        init = strip(let["init"])
        opt = False
        if init.get("k") == "Call" and str(init.get("callee", "")).endswith("::Some") and len(init["args"]) == 1:
            opt, init = True, strip(init["args"][0])
        if not (init.get("k") == "Path" and init.get("r") == "local" and init.get("id") in pid):
            continue
        p_local = init
        body_blk = holder["body"]
        if holder.get("src") == "Loop" and not opt:
            lstmts, tail_ok, xid = body_blk.get("stmts", []), "expr" not in body_blk, None
        elif holder.get("src") == "While" and opt and not body_blk.get("stmts"):
            iff = strip(body_blk.get("expr"))
            if not (isinstance(iff, dict) and iff.get("k") == "If" and strip(iff["cond"]).get("k") == "Let"):
                continue
            lt = strip(iff["cond"])
            pt = lt["pat"]
            if not (pt.get("k") == "PTupleStruct" and str(pt.get("path", "")).endswith("::Some") and len(pt.get("ps", [])) == 1 and pt["ps"][0].get("k") == "Bind"):
                continue
            sc = strip(lt["init"])
            if not (sc.get("k") == "Path" and sc.get("id") == cid):
                continue
            xid = pt["ps"][0]["id"]
            then = strip(iff["then"])
            if then.get("k") != "Block":
                continue
            lstmts, tail_ok = then["b"].get("stmts", []), "expr" not in then["b"]
        else:
            continue
        if not lstmts or not tail_ok:
            continue
        last = lstmts[-1]
        asg = strip(last.get("e")) if last.get("k") in ("SExpr", "SSemi") else None
        if not (isinstance(asg, dict) and asg.get("k") == "Assign" and strip(asg["l"]).get("k") == "Path" and strip(asg["l"]).get("id") == cid):
            continue
        work = {"k": "Block", "b": {"stmts": lstmts[:-1]}}
        if _has_loop_control(work) or any(x.get("k") in ("Assign", "AssignOp") and strip(x["l"]).get("id") == cid for x in walk(work)):
            continue
        # the parameter and the cursor are used nowhere else
        uses_p = [x for x in walk(root) if x.get("k") == "Path" and x.get("r") == "local" and x.get("id") == p_local["id"]]
        uses_c = [x for x in walk(root) if x.get("k") == "Path" and x.get("r") == "local" and x.get("id") == cid]
        inside = {id(x) for x in walk(holder)}
        if len(uses_p) != 1 or any(id(x) not in inside for x in uses_c):
            continue
        cur = xid if opt else cid
        for x in walk(holder):
            if x.get("k") == "Path" and x.get("r") == "local" and x.get("id") == cur:
                x["id"], x["name"] = p_local["id"], p_local.get("name", "self")
        sp = holder.get("sp", "")
        out_ty = fnrec.get("output", "")

        def self_call(arg):
            args = [arg if pp["id"] == p_local["id"] else {"k": "Path", "r": "local", "id": pp["id"], "name": pp.get("name", ""), "ty": pp.get("ty", ""), "sp": sp} for pp in params]
            return {"k": "Call", "callee": fnrec["path"], "dk": fnrec.get("dk", "Fn"), "args": args, "ty": out_ty, "sp": sp, "lowered": "cursor-loop"}
        new_stmts = list(lstmts[:-1])
        if not opt:
            new_stmts.append({"k": "SSemi", "e": {"k": "Ret", "e": self_call(asg["r"]), "ty": "!", "sp": sp}})
        else:
            nid = -(cid + 1000000)
            some = {"k": "PTupleStruct", "r": "def", "dk": "Ctor(Variant, Fn)", "path": "std::prelude::v1::Some", "of": "std::prelude::v1::Some",
                    "ps": [{"k": "Bind", "id": nid, "name": "next", "mode": "BindingMode(No, Not)", "mut": False, "byref": False, "ty": p_local.get("ty", "")}]}
            arg = {"k": "Path", "r": "local", "id": nid, "name": "next", "ty": p_local.get("ty", ""), "sp": sp}
            new_stmts.append({"k": "SExpr", "e": {"k": "If", "ty": "()", "sp": sp,
                                                  "cond": {"k": "Let", "pat": some, "init": asg["r"], "ty": "bool", "sp": sp},
                                                  "then": {"k": "Block", "unsafe": False, "ty": "!", "sp": sp,
                                                           "b": {"stmts": [{"k": "SSemi", "e": {"k": "Ret", "e": self_call(arg), "ty": "!", "sp": sp}}]}}}})
        stmts[j - 1:j + 1] = new_stmts
        return


def peel(t):
    """type string without leading references"""
    t = str(t)
    while t.startswith("&"):
        t = t[1:].lstrip()
        if t.startswith("mut "):
            t = t[4:]
    return t


def lower_fold_loop(fnrec):
    """A fold over a slice parameter with one cursor that starts as a parameter and is returned at the end is structural recursion on the slice:
         let mut c = p;  for x in s { B; c = E; }  c        ==   if s.is_empty() { return p }  B[p, s[0]];  return f(E[p, s[0]], s[1..], other params)
       (no break / continue / return / nested loop in B; p, s and c are used nowhere else). Rewritten in place."""
    import copy
    root = strip(fnrec["body"])
    if not isinstance(root, dict) or root.get("k") != "Block":
        return
    params = [p for p in fnrec.get("params", []) if p.get("k") == "Bind"]
    if len(params) != len(fnrec.get("params", [])):
        return
    pids = {p["id"] for p in params}
    b = root["b"]
    stmts = b["stmts"]
    if len(stmts) < 2 or "expr" not in b:
        return
    let, st = stmts[-2], stmts[-1]
    tail = strip(b["expr"])
    if not (let.get("k") == "SLet" and "init" in let and "els" not in let and let["pat"].get("k") == "Bind" and st.get("k") in ("SExpr", "SSemi")):
        return
    cid = let["pat"]["id"]
    init = strip(let["init"])
    fl = strip(st["e"])
    if not (init.get("k") == "Path" and init.get("r") == "local" and init.get("id") in pids and tail.get("k") == "Path" and tail.get("id") == cid):
        return
    if not (fl.get("k") == "Match" and fl.get("src") == "ForLoopDesugar" and strip(fl["scrut"]).get("k") == "Call"):
        return
    it = strip(strip(fl["scrut"])["args"][0])
    if not (it.get("k") == "Path" and it.get("r") == "local" and it.get("id") in pids and it.get("id") != init.get("id")
            and peel(it.get("ty", "")).startswith("[")):
        return
    try:
        inner = strip(strip(fl["arms"][0]["body"])["body"]["stmts"][0]["e"])
        some = [a for a in inner["arms"] if str(a["pat"].get("path", "")).endswith("::Some")][0]
    except (KeyError, IndexError, TypeError):
        return
    sp_ = some["pat"]
    sub = sp_["fields"][0]["p"] if sp_.get("k") == "PStruct" else sp_["ps"][0]
    body = strip(some["body"])
    if sub.get("k") != "Bind" or body.get("k") != "Block" or "expr" in body["b"] or not body["b"]["stmts"]:
        return
    xid = sub["id"]
    lstmts = body["b"]["stmts"]
    asg = strip(lstmts[-1].get("e")) if lstmts[-1].get("k") in ("SExpr", "SSemi") else None
    if not (isinstance(asg, dict) and asg.get("k") == "Assign" and strip(asg["l"]).get("k") == "Path" and strip(asg["l"]).get("id") == cid):
        return
    work = {"k": "Block", "b": {"stmts": lstmts[:-1]}}
    if _has_loop_control(work) or any(x.get("k") == "Ret" for x in walk(work, into_closures=False)) \
            or any(x.get("k") in ("Assign", "AssignOp") and strip(x["l"]).get("id") == cid for x in walk(work)):
        return
    uses = lambda i: [x for x in walk(root) if x.get("k") == "Path" and x.get("r") == "local" and x.get("id") == i]
    inside = {id(x) for x in walk(fl)}
    if len(uses(init["id"])) != 1 or len(uses(it["id"])) != 1 or any(id(x) not in inside for x in uses(cid) if x is not tail):
        return
    sp = fl.get("sp", "")
    s_path = lambda: {"k": "Path", "r": "local", "id": it["id"], "name": it.get("name", ""), "ty": it.get("ty", ""), "sp": sp}
    elem_ty = peel(it.get("ty", ""))[1:-1]
    head = lambda: {"k": "Index", "base": s_path(), "idx": {"k": "Lit", "lk": "int", "v": "0", "suffix": "Unsuffixed", "ty": "usize"}, "ty": elem_ty, "sp": sp}
    rest = {"k": "Index", "callee": "std::ops::Index::index", "base": s_path(), "ty": "[" + elem_ty + "]", "sp": sp,
            "idx": {"k": "Struct", "r": "def", "dk": "Struct", "path": "std::ops::RangeFrom", "adt": "std::ops::RangeFrom", "variant": "RangeFrom", "ty": "std::ops::RangeFrom<usize>",
                    "fields": [{"name": "start", "shorthand": False, "e": {"k": "Lit", "lk": "int", "v": "1", "suffix": "Unsuffixed", "ty": "usize"}}]}}
    for x in list(walk(body)):
        if x.get("k") == "Path" and x.get("r") == "local":
            if x.get("id") == cid:
                x["id"], x["name"] = init["id"], init.get("name", "self")
            elif x.get("id") == xid:
                keep = {k: x[k] for k in ("ty", "sp") if k in x}
                x.clear()
                x.update({"k": "AddrOf", "mut": False, "e": head()})
                x.update(keep)
    p_path = {"k": "Path", "r": "local", "id": init["id"], "name": init.get("name", "self"), "ty": init.get("ty", ""), "sp": sp}
    args = []
    for pp in params:
        if pp["id"] == init["id"]:
            args.append(asg["r"])
        elif pp["id"] == it["id"]:
            args.append({"k": "AddrOf", "mut": False, "e": rest, "ty": it.get("ty", ""), "sp": sp})
        else:
            args.append({"k": "Path", "r": "local", "id": pp["id"], "name": pp.get("name", ""), "ty": pp.get("ty", ""), "sp": sp})
    call = {"k": "Call", "callee": fnrec["path"], "dk": fnrec.get("dk", "Fn"), "args": args, "ty": fnrec.get("output", ""), "sp": sp, "lowered": "fold-loop"}
    guard = {"k": "SExpr", "e": {"k": "If", "ty": "()", "sp": sp,
                                 "cond": {"k": "MethodCall", "name": "is_empty", "callee": "core::slice::<impl [T]>::is_empty", "recv": s_path(), "args": [], "ty": "bool", "sp": sp},
                                 "then": {"k": "Block", "unsafe": False, "ty": "!", "sp": sp, "b": {"stmts": [{"k": "SSemi", "e": {"k": "Ret", "e": p_path, "ty": "!", "sp": sp}}]}}}}
    stmts[-2:] = [guard] + lstmts[:-1] + [{"k": "SSemi", "e": {"k": "Ret", "e": call, "ty": "!", "sp": sp}}]
    del b["expr"]


def _same_place(a, b):
    """two expressions name the same place / value: equal up to `&`, `*`, `.clone()` and spans"""
    def key(n):
        n = strip(n)
        while isinstance(n, dict) and n.get("k") == "MethodCall" and n.get("name") in ("clone", "borrow", "as_ref", "to_owned") and not n.get("args"):
            n = strip(n["recv"])
        if not isinstance(n, dict):
            return repr(n)
        k = n.get("k")
        if k == "Path":
            return ("P", n.get("r"), n.get("id"), n.get("path"))
        if k == "Field":
            return ("F", n.get("name"), key(n["base"]))
        if k == "MethodCall":
            return ("M", n.get("callee"), key(n["recv"]), tuple(key(x) for x in n["args"]))
        if k == "Call":
            return ("C", n.get("callee"), tuple(key(x) for x in n["args"]))
        if k == "Lit":
            return ("L", n.get("v"))
        return ("?", id(n))
    return key(a) == key(b)


def lower_get_insert(root):
    """`match m.get(k) { Some(v) => A, None => { m.insert(k, x); } }` (or the `if let .. else` spelling), where A does not change m, is the same
    keep-first update as `match m.entry(k) { Occupied(e) => A[v := e.get()], Vacant(e) => { e.insert(x); } }`: rewritten in place into the
    entry form (the shape the map-update rules anchor on)."""
    MAPS = {"std::collections::BTreeMap": "std::collections::btree_map", "std::collections::HashMap": "std::collections::hash_map"}
    for parent in list(walk(root)):
        for key_, n in list(parent.items()) if isinstance(parent, dict) else []:
            cands = n if isinstance(n, list) else [n]
            for idx, node in enumerate(cands):
                if not isinstance(node, dict):
                    continue
                some_pat = then = els = get = None
                if node.get("k") == "If" and strip(node["cond"]).get("k") == "Let" and "else" in node:
                    lt = strip(node["cond"])
                    if lt["pat"].get("k") == "PTupleStruct" and str(lt["pat"].get("path", "")).endswith("::Some") and len(lt["pat"].get("ps", [])) == 1:
                        some_pat, get, then, els = lt["pat"]["ps"][0], strip(lt["init"]), node["then"], node["else"]
                elif node.get("k") == "Match" and node.get("src") == "Normal" and len(node["arms"]) == 2 and not any("guard" in a for a in node["arms"]):
                    sm = [a for a in node["arms"] if a["pat"].get("k") == "PTupleStruct" and str(a["pat"].get("path", "")).endswith("::Some") and len(a["pat"].get("ps", [])) == 1]
                    def is_none(pt):
                        if str(pt.get("path", "")).endswith("::None"):
                            return True
                        e = pt.get("e") if pt.get("k") == "PExpr" else None
                        return isinstance(e, dict) and str(strip(e).get("path", "")).endswith("::None")
                    nn = [a for a in node["arms"] if is_none(a["pat"])]
                    if len(sm) == 1 and len(nn) == 1:
                        some_pat, get, then, els = sm[0]["pat"]["ps"][0], strip(node["scrut"]), sm[0]["body"], nn[0]["body"]
                if get is None or not (get.get("k") == "MethodCall" and get.get("name") == "get" and len(get["args"]) == 1):
                    continue
                cal = str(get.get("callee", ""))
                base = next((m for m in MAPS if cal.startswith(m + "::")), None)
                if base is None:
                    continue
                m_expr, k_expr = get["recv"], get["args"][0]
                writes = [x for x in walk(els, into_closures=False) if x.get("k") == "MethodCall" and str(x.get("callee", "")).startswith(base + "::") and _same_place(x["recv"], m_expr)]
                if len(writes) != 1 or writes[0].get("name") != "insert" or len(writes[0]["args"]) != 2 or not _same_place(writes[0]["args"][0], k_expr):
                    continue
                if any(x.get("k") == "MethodCall" and str(x.get("callee", "")).startswith(base + "::") and _same_place(x["recv"], m_expr)
                       and x.get("name") in ("insert", "remove", "entry", "get_mut", "clear", "extend", "retain", "append") for x in walk(then)):
                    continue
                ins = writes[0]
                mod = MAPS[base]
                mty = str(strip(m_expr).get("ty", "") or m_expr.get("ty", ""))
                inner = mty[mty.index("<") + 1:-1] if "<" in mty else ""
                ety = "%s::Entry<'{erased}, %s>" % (mod, inner)
                sp = node.get("sp", "")
                base_id = -abs(hash(sp)) % 10 ** 9 - 2 * 10 ** 9
                e_occ = {"k": "Bind", "id": base_id, "name": "e", "mode": "BindingMode(No, Not)", "mut": False, "byref": False, "ty": "%s::OccupiedEntry<'{erased}, %s>" % (mod, inner)}
                e_vac = {"k": "Bind", "id": base_id - 1, "name": "e", "mode": "BindingMode(No, Not)", "mut": False, "byref": False, "ty": "%s::VacantEntry<'{erased}, %s>" % (mod, inner)}
                occ_get = {"k": "MethodCall", "name": "get", "callee": "%s::OccupiedEntry::<'a, K, V, A>::get" % mod, "args": [], "ty": get.get("ty", "").replace("std::option::Option<", "", 1)[:-1] or "&?", "sp": sp,
                           "recv": {"k": "Path", "r": "local", "id": base_id, "name": "e", "ty": e_occ["ty"], "sp": sp}}
                occ_body = {"k": "Block", "unsafe": False, "ty": then.get("ty", "()"), "sp": sp,
                            "b": {"stmts": [{"k": "SLet", "pat": some_pat, "init": occ_get}], "expr": then}}
                # the insert becomes the vacant entry's insert
                keep = {k: ins[k] for k in ("sp",) if k in ins}
                val = ins["args"][1]
                ins.clear()
                ins.update({"k": "MethodCall", "name": "insert", "callee": "%s::VacantEntry::<'a, K, V, A>::insert" % mod, "args": [val], "ty": "&mut ?",
                            "recv": {"k": "Path", "r": "local", "id": base_id - 1, "name": "e", "ty": e_vac["ty"], "sp": sp}})
                ins.update(keep)
                entry = {"k": "MethodCall", "name": "entry", "callee": base + "::<K, V, A>::entry", "recv": m_expr, "args": [k_expr], "ty": ety, "sp": sp}
                if get.get("gen"):
                    entry["gen"] = get["gen"]
                new = {"k": "Match", "src": "Normal", "ty": node.get("ty", "()"), "sp": sp, "lowered": "get-insert", "scrut": entry,
                       "arms": [{"pat": {"k": "PTupleStruct", "r": "def", "dk": "Ctor(Variant, Fn)", "path": mod + "::Entry::Vacant", "of": mod + "::Entry::Vacant", "ps": [e_vac], "ty": ety}, "body": els},
                                {"pat": {"k": "PTupleStruct", "r": "def", "dk": "Ctor(Variant, Fn)", "path": mod + "::Entry::Occupied", "of": mod + "::Entry::Occupied", "ps": [e_occ], "ty": ety}, "body": occ_body}]}
                if isinstance(n, list):
                    n[idx] = new
                else:
                    parent[key_] = new
