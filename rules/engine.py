"""Rule-engine runtime: fact provisioning, rule-instance bookkeeping, evidence, verdict."""
import fcntl, glob, hashlib, json, os, shutil, subprocess, sys, time

VERIF = os.path.dirname(os.path.dirname(os.path.abspath(__file__)))
CACHE = os.path.join(VERIF, ".cache")
DRIVER = os.path.join(VERIF, "driver", "target", "release", "tgfacts")
CRATES = "scale_typegen,scale_typegen_description,scale_info:adts"
EXPECT_CRATES = ("scale_typegen", "scale_typegen_description", "scale_info")
BODY_FLOORS = {"scale_typegen": 150, "scale_typegen_description": 35, "scale_info": 100}


class EngineError(Exception):
    pass


def sysroot_lib():
    out = subprocess.run(["rustc", "+nightly", "--print", "sysroot"], capture_output=True, text=True, check=True)
    return os.path.join(out.stdout.strip(), "lib")


def tree_key(repo, extra=""):
    h = hashlib.sha256()
    files = []
    for root, dirs, fs in os.walk(repo):
        dirs[:] = [d for d in dirs if d not in ("target", ".git")]
        for f in fs:
            if f.endswith(".rs") or f in ("Cargo.toml", "Cargo.lock"):
                files.append(os.path.join(root, f))
    for p in sorted(files):
        h.update(os.path.relpath(p, repo).encode())
        h.update(b"\0")
        with open(p, "rb") as fh:
            h.update(fh.read())
        h.update(b"\0")
    h.update(extra.encode())
    # the driver itself is part of the key: a rebuilt exporter invalidates cached facts
    try:
        with open(os.path.join(VERIF, "driver", "src", "main.rs"), "rb") as fh:
            h.update(fh.read())
    except OSError:
        pass
    return h.hexdigest()[:24]


def ensure_driver():
    if os.path.exists(DRIVER) and os.path.getmtime(DRIVER) >= os.path.getmtime(os.path.join(VERIF, "driver", "src", "main.rs")):
        return
    env = dict(os.environ, CARGO_NET_OFFLINE="true")
    r = subprocess.run(["cargo", "+nightly", "build", "--release", "--offline"], cwd=os.path.join(VERIF, "driver"),
                       env=env, capture_output=True, text=True)
    if r.returncode != 0 or not os.path.exists(DRIVER):
        raise EngineError("driver build failed:\n" + r.stderr[-4000:])


def ensure_facts(repo, variant="default", log=sys.stderr):
    """facts for the current working tree of `repo`; returns the facts directory"""
    os.makedirs(CACHE, exist_ok=True)
    lock = open(os.path.join(CACHE, "lock"), "w")
    fcntl.flock(lock, fcntl.LOCK_EX)
    try:
        ensure_driver()
        key = tree_key(repo, variant)
        fdir = os.path.join(CACHE, "facts", key)
        if _facts_ok(fdir):
            return fdir
        shutil.rmtree(fdir, ignore_errors=True)
        os.makedirs(fdir)
        target = os.path.join(CACHE, "target-" + variant)
        os.makedirs(target, exist_ok=True)
        # defeat cargo's freshness cache for the analysed crates
        for pat in ("scale-typegen-*", "scale-info-*"):
            for d in glob.glob(os.path.join(target, "debug", ".fingerprint", pat)):
                if os.path.basename(d).startswith("scale-info-derive"):
                    continue
                shutil.rmtree(d, ignore_errors=True)
        nonce = hashlib.sha256((key + str(time.time())).encode()).hexdigest()[:16]
        env = dict(os.environ)
        env.update({
            "LD_LIBRARY_PATH": sysroot_lib() + ":" + env.get("LD_LIBRARY_PATH", ""),
            "RUSTFLAGS": "-Zmir-opt-level=0 -Awarnings",
            "RUSTC_WRAPPER": DRIVER,
            "CARGO_TARGET_DIR": target,
            "CARGO_NET_OFFLINE": "true",
            "TGFACTS_OUT": fdir,
            "TGFACTS_NONCE": nonce,
            "TGFACTS_CRATES": CRATES,
        })
        env.pop("RUSTC_WORKSPACE_WRAPPER", None)
        cmd = ["cargo", "+nightly", "check", "--offline", "--locked", "-p", "scale-typegen"]
        if variant == "default":
            cmd += ["-p", "scale-typegen-description"]
        elif variant == "nodefault":
            cmd = ["cargo", "+nightly", "check", "--offline", "--locked", "-p", "scale-typegen-description",
                   "--no-default-features"]
        t0 = time.time()
        r = subprocess.run(cmd, cwd=repo, env=env, capture_output=True, text=True)
        if r.returncode != 0:
            shutil.rmtree(fdir, ignore_errors=True)
            raise EngineError("the tree under %s does not build on the analysis toolchain:\n%s" % (repo, r.stderr[-6000:]))
        print("[facts] exported in %.1fs -> %s" % (time.time() - t0, fdir), file=log)
        want = EXPECT_CRATES if variant == "default" else ("scale_typegen_description", "scale_info")
        for c in want:
            p = os.path.join(fdir, c + ".json")
            if not os.path.exists(p):
                shutil.rmtree(fdir, ignore_errors=True)
                raise EngineError("fact file for crate %s was not produced" % c)
        with open(os.path.join(fdir, "_meta.json"), "w") as fh:
            json.dump({"nonce": nonce, "key": key, "variant": variant, "repo": repo, "complete": True}, fh)
        # check nonce in each file
        for c in want:
            with open(os.path.join(fdir, c + ".json")) as fh:
                head = fh.read(400)
            if nonce not in head:
                shutil.rmtree(fdir, ignore_errors=True)
                raise EngineError("stale fact file for crate %s (nonce mismatch)" % c)
        _prune_facts(keep=fdir)
        return fdir
    finally:
        fcntl.flock(lock, fcntl.LOCK_UN)
        lock.close()


def _facts_ok(fdir):
    try:
        with open(os.path.join(fdir, "_meta.json")) as fh:
            return json.load(fh).get("complete") is True
    except (OSError, ValueError):
        return False


def _prune_facts(keep, maxn=12):
    base = os.path.join(CACHE, "facts")
    ds = [os.path.join(base, d) for d in os.listdir(base)]
    ds = [d for d in ds if os.path.isdir(d) and d != keep]
    ds.sort(key=os.path.getmtime)
    for d in ds[:-maxn] if len(ds) > maxn else []:
        shutil.rmtree(d, ignore_errors=True)


# ------------------------------------------------------------------ context ----
_KEEP = None


def keep_names():
    """short names (`Type::method`, `module::function`) of every function some rule expectation mentions: calls to these stay calls
    in normalised terms; calls to any other repo-local function are inlined (helper extraction / inlining does not change a term)"""
    global _KEEP
    if _KEEP is None:
        import re
        names = set()
        rx = re.compile(r"([A-Za-z_][A-Za-z0-9_]*::[A-Za-z_][A-Za-z0-9_#]*)(?:<[^>()]*>)?(?=[(,)\x22])")
        for root, _d, fs in os.walk(os.path.join(VERIF, "rules")):
            for f in fs:
                if f.endswith(".py"):      # (golden.json / leaves.json only record what the rules in the .py files made visible)
                    with open(os.path.join(root, f)) as fh:
                        names.update(rx.findall(fh.read()))
        _KEEP = names
    return _KEEP


class Ctx:
    """collects rule instances (obligations) of one property check"""

    def activate(self):
        from .core import norm as _norm
        _norm.set_default(self.P, keep_names())

    def __init__(self, prop, P, tier, repo):
        self.P = P
        self.activate()
        self.prop = prop
        self.P = P
        self.tier = tier
        self.repo = repo
        self.instances = []      # dicts: rule, key, site, ok, detail
        self.mentions = set()    # repo-local function names that evaluated expectations rely on (see rules/leaves.py)
        self.counts = {}
        self.floors = {}
        self.notes = []
        self.selftest = None
        self._filter = None

    def only(self, pred):
        """context manager: register only instances whose key satisfies pred (used when a shared rule
        function contributes a subset of its instances to another property)"""
        ctx = self

        class _F:
            def __enter__(self_inner):
                self_inner.old = ctx._filter
                outer = self_inner.old
                # nested filters intersect: an instance must pass every enclosing filter
                ctx._filter = pred if outer is None else (lambda k, _o=outer, _p=pred: _o(k) and _p(k))

            def __exit__(self_inner, *a):
                ctx._filter = self_inner.old
        return _F()

    def rel(self, sp):
        if not sp:
            return "?"
        return sp

    def ok(self, rule, key, site="", detail=""):
        if self._filter is not None and not self._filter(key):
            return
        self.instances.append({"rule": rule, "key": key, "site": self.rel(site), "ok": True, "detail": str(detail)[:600]})

    def bad(self, rule, key, site="", detail=""):
        if self._filter is not None and not self._filter(key) and not key.startswith("missing-anchor"):
            return
        self.instances.append({"rule": rule, "key": key, "site": self.rel(site), "ok": False, "detail": str(detail)[:8000]})

    def expect(self, cond, rule, key, site="", ok_detail="", bad_detail=""):
        if cond:
            self.ok(rule, key, site, ok_detail)
        else:
            self.bad(rule, key, site, bad_detail or ok_detail)
        return bool(cond)

    def count(self, name, n, floor=None):
        if self._filter is not None:
            return
        self.counts[name] = n
        if floor is not None:
            self.floors[name] = floor
            if n < floor:
                self.bad("floor", "floor/" + name, "", "count %d fell below the confirmed floor %d: anchors of this rule were lost" % (n, floor))

    def mention(self, *texts):
        """record the function names an evaluated expectation relies on (skipped while an instance filter excludes the rule)"""
        import re
        rx = re.compile(r"([A-Za-z_][A-Za-z0-9_]*::[A-Za-z_][A-Za-z0-9_#]*)(?:<[^>()]*>)?(?=[(,)\x22])")
        for t in texts:
            self.mentions.update(rx.findall(t))

    def note(self, s):
        self.notes.append(s)

    def violations(self):
        return [i for i in self.instances if not i["ok"]]


def full_key(prop, inst):
    return "%s/%s/%s" % (prop, inst["rule"], inst["key"])


def load_known():
    p = os.path.join(VERIF, "known_findings.json")
    try:
        with open(p) as fh:
            d = json.load(fh)
    except OSError:
        return {}
    return {f["key"]: f for f in d.get("findings", [])}


def finish(ctx, meta, t0, seed):
    """print the verdict lines, write evidence + replay files, return exit code"""
    known = load_known()
    viol = ctx.violations()
    unlisted = []
    os.makedirs(os.path.join(VERIF, "evidence", "replay"), exist_ok=True)
    n_known = 0
    for v in viol:
        fk = full_key(ctx.prop, v)
        if fk in known:
            n_known += 1
            print("KNOWN-FINDING: property=%s %s [%s]" % (ctx.prop, known[fk].get("what", v["detail"][:120]), fk))
        else:
            unlisted.append(v)
    for v in unlisted:
        fk = full_key(ctx.prop, v)
        rp = os.path.join(VERIF, "evidence", "replay", "%s-%s.json" % (ctx.prop, hashlib.sha256(fk.encode()).hexdigest()[:12]))
        with open(rp, "w") as fh:
            json.dump({"property": ctx.prop, "key": fk, "rule": v["rule"], "site": v["site"], "detail": v["detail"]}, fh, indent=1)
        print("VIOLATION property=%s replay=%s" % (ctx.prop, rp))
        print("  rule=%s key=%s" % (v["rule"], v["key"]))
        print("  site=%s" % v["site"])
        for line in v["detail"].splitlines()[:12]:
            print("  | " + line)
    total = len(ctx.instances)
    passed = sum(1 for i in ctx.instances if i["ok"])
    distinct = len({(i["rule"], i["key"]) for i in ctx.instances if i["site"] not in ("", "?") or i["ok"]})
    samples = []
    seen_rules = {}
    for i in ctx.instances:
        if seen_rules.get(i["rule"], 0) < 4 or not i["ok"]:
            seen_rules[i["rule"]] = seen_rules.get(i["rule"], 0) + 1
            samples.append({"rule": i["rule"], "instance": i["key"], "site": i["site"], "verdict": "held" if i["ok"] else "VIOLATED", "detail": i["detail"][:300]})
    ev = {
        "property_id": ctx.prop,
        "tier": ctx.tier,
        "seed": seed,
        "level": "other",
        "coverage": {
            "explanation": meta["explanation"],
            "obligations": total,
            "discharged": passed,
            "evaluations": total,
            "distinct_nontrivial": distinct,
            "rule": "every rule instance (rule kind x anchored construct of the current /repo tree) is evaluated once; "
                    "an instance is non-trivial when its anchor resolved to a construct of the analysed program; "
                    "distinct = distinct (rule, instance key) pairs",
            "samples": samples[:60],
            "analysed": dict(ctx.counts),
            "floors": dict(ctx.floors),
            "rules": sorted({i["rule"] for i in ctx.instances}),
            "checker_cmd": "./check %s --tier %s" % (ctx.prop, ctx.tier),
            "trusted_base": meta.get("trusted_base", []),
            "exhaustive": bool(meta.get("exhaustive", False)),
            "known_findings_reported": n_known,
            "notes": ctx.notes,
        },
        "assumptions": meta.get("assumptions", []),
        "wall_s": round(time.time() - t0, 3),
        "violations": len(unlisted),
    }
    if ctx.selftest is not None:
        ev["coverage"]["selftest"] = ctx.selftest
    with open(os.path.join(VERIF, "evidence", ctx.prop + ".json"), "w") as fh:
        json.dump(ev, fh, indent=1)
    print("%s: %d rule instances, %d held, %d violated (%d known findings) [tier=%s, %.1fs]" % (
        ctx.prop, total, passed, len(viol), n_known, ctx.tier, time.time() - t0))
    return 1 if unlisted else 0
