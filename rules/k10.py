"""K10 — panic-site inventory, call graph and reachability."""
from .core import q
from .core.q import peel, site
from .core.ir import walk, strip, children, walk_with_parents
from .core.norm import Norm, show, cshort

UNWRAPS = {"Option::unwrap", "Option::expect", "Result::unwrap", "Result::expect", "Result::unwrap_err", "Result::expect_err"}
MAY_PANIC_CALLS = {
    "proc_macro2::Ident::new": "Ident::new panics on a non-identifier string",
    "quote::__private::mk_ident": "format_ident! panics on a non-identifier string",
    "syn::__private::parse_quote": "parse_quote! panics when the tokens do not parse",
    "syn::__private::parse": "parse_quote! panics when the tokens do not parse",
    "std::cell::RefCell::<T>::borrow_mut": "RefCell::borrow_mut panics while borrowed",
    "std::cell::RefCell::<T>::borrow": "RefCell::borrow panics while mutably borrowed",
    "std::iter::Iterator::step_by": "step_by(0) panics",
    "std::vec::Vec::<T, A>::remove": "Vec::remove panics out of bounds",
    "std::vec::Vec::<T, A>::insert": "Vec::insert panics out of bounds",
    "std::vec::Vec::<T, A>::swap_remove": "swap_remove panics out of bounds",
    "std::vec::Vec::<T, A>::split_off": "split_off panics out of bounds",
    "std::vec::Vec::<T, A>::drain": "drain panics on a bad range",
    "core::slice::<impl [T]>::split_at": "split_at panics out of bounds",
    "core::slice::<impl [T]>::copy_from_slice": "copy_from_slice panics on length mismatch",
    "core::str::<impl str>::split_at": "split_at panics off a char boundary",
    "std::string::String::remove": "String::remove panics out of bounds",
    "std::string::String::truncate": "truncate panics off a char boundary",
    "std::string::String::insert": "insert panics off a char boundary",
    "std::string::String::insert_str": "insert_str panics off a char boundary",
    "std::string::String::drain": "drain panics on a bad range",
    "std::string::String::replace_range": "replace_range panics on a bad range",
    "syn::punctuated::Punctuated::<T, P>::insert": "Punctuated::insert panics if index > len",
    "rand::Rng::gen_range": "gen_range panics on an empty range",
    "std::char::from_digit": "from_digit panics on radix > 36",
    "std::mem::MaybeUninit::<T>::assume_init": "UB",
}
PANIC_FNS = ("core::panicking::", "std::rt::panic", "std::rt::begin_panic", "std::process::abort", "std::process::exit", "core::option::unwrap_failed",
             "core::option::expect_failed", "core::result::unwrap_failed")


class PanicSite:
    def __init__(self, fn, owner, kind, callee, operand, node, sp, expn=None):
        self.fn, self.owner, self.kind, self.callee, self.operand, self.node, self.sp, self.expn = fn, owner, kind, callee, operand, node, sp, expn

    @property
    def key(self):
        return "%s/%s/%s/%s" % (cshort(self.owner), self.kind, self.callee, self.operand)


def macro_of(crate, node):
    x = node.get("x")
    if isinstance(x, int):
        return crate.expns[x]
    return None


def inventory(P, crates):
    """every panic-capable site of the given crates"""
    out = []
    for cn in crates:
        c = P.crates.get(cn)
        if c is None:
            continue
        for b in c.bodies.values():
            if "body" not in b or q.derived(b) or b["dk"] not in ("Fn", "AssocFn"):
                continue
            N = Norm(b)
            seen_spans = set()
            for n in walk(b["body"]):
                k = n.get("k")
                ex = macro_of(c, n)
                exnames = ex["names"] if ex else []
                if k == "MethodCall":
                    cs = cshort(n.get("callee", ""))
                    full = n.get("callee", "")
                    if cs in UNWRAPS:
                        out.append(PanicSite(b, b["path"], "unwrap", cs, show(N.term(n["recv"]))[:400], n, n["sp"], ex))
                    elif full in MAY_PANIC_CALLS and not _quote_internal(ex):
                        out.append(PanicSite(b, b["path"], "may-panic-call", cs, show(N.term(n["recv"]))[:200], n, n["sp"], ex))
                elif k == "Call":
                    full = n.get("callee", "")
                    cs = cshort(full)
                    if full.startswith(PANIC_FNS):
                        mac = next((m for m in exnames if m in ("panic", "unreachable", "unimplemented", "todo", "assert", "assert_eq", "assert_ne", "debug_assert", "debug_assert_eq")), "panic")
                        if _quote_internal(ex):
                            continue
                        if n["sp"] in seen_spans:
                            continue
                        seen_spans.add(n["sp"])
                        out.append(PanicSite(b, b["path"], "panic-macro", mac, _guard_context(N, b, n), n, n["sp"], ex))
                    elif full in MAY_PANIC_CALLS or full.split("::<")[0] in MAY_PANIC_CALLS:
                        if full.startswith("syn::__private::parse") or full == "quote::__private::mk_ident":
                            t = N.term(n)
                            while t[0] in ("early", "seq"):
                                t = t[2]            # guard clauses / effects that floated out of the operands are not part of the operand
                            op = show(t)[:300]
                        else:
                            op = ",".join(show(N.term(a))[:120] for a in n["args"])
                        out.append(PanicSite(b, b["path"], "may-panic-call", cs, op, n, n["sp"], ex))
                elif k == "Index":
                    if _quote_internal(ex):
                        continue
                    base_t = peel(n["base"].get("adj") or n["base"].get("ty", ""))
                    out.append(PanicSite(b, b["path"], "index", base_t.split("<")[0].rsplit("::", 1)[-1] or "slice",
                                         show(N.elemize(N.term(n["base"]), n))[-200:] + "[" + show(N.term(n["idx"]))[:80] + "]", n, n["sp"], ex))
            # MIR asserts of the fn and of its closures
            mirs = [(b["path"], b.get("mir") or {})]
            for p, cb in c.closures_mir.items():
                if cb.get("parent") == b["path"]:
                    mirs.append((p, cb.get("mir") or {}))
            for owner, m in mirs:
                for a in m.get("asserts", []):
                    x = a.get("x")
                    ex = c.expns[x] if isinstance(x, int) else None
                    kind = a["kind"]
                    if kind in ("BoundsCheck", "MisalignedPointerDereference", "NullPointerDereference"):
                        continue  # bounds checks are the Index expressions listed from HIR; pointer checks are debug-build UB checks
                    origin = "quote-repetition-counter" if _quote_internal(ex) else "user"
                    bnode = None
                    if origin == "user" and kind == "Overflow":
                        bnode = next((x for x in walk(b["body"]) if x.get("k") == "Binary" and x.get("sp") == a["sp"]), None)
                    out.append(PanicSite(b, b["path"], "assert", kind + ":" + _assert_op(a["msg"]), origin + "@" + (show(N.term(bnode))[:200] if bnode is not None else _line_text(a)), bnode, a["sp"], ex))
    return out


def _assert_op(msg):
    # Overflow(Add, ...) -> Add
    if msg.startswith("Overflow("):
        return msg[len("Overflow("):].split(",")[0]
    return msg.split("(")[0]


def _line_text(a):
    return ""


def _quote_internal(ex):
    """the construct comes from inside a macro of the quote / syn / std crates, not from user code"""
    if not ex:
        return False
    crates = ex.get("crates", [])
    names = ex.get("names", [])
    # innermost macro frame decides
    for nm, cr in zip(names, crates):
        if nm.startswith("desugar:") or nm.startswith("astpass:"):
            continue
        return cr in ("quote", "syn", "proc_macro2")
    return False


def _guard_context(N, b, n):
    return ""


# ------------------------------------------------------------------ call graph ----
def call_graph(P, crates, fnptr_bindings=None):
    """fn path -> set of callee fn paths (calls inside closures are attributed to the enclosing fn);
    includes MIR-resolved trait instances"""
    g = {}
    for cn in crates:
        c = P.crates.get(cn)
        if not c:
            continue
        for b in c.bodies.values():
            if b["dk"] not in ("Fn", "AssocFn"):
                continue
            s = g.setdefault(b["path"], set())
            if "body" in b:
                for n in walk(b["body"]):
                    if n.get("k") in ("Call", "MethodCall") and n.get("callee"):
                        s.add(n["callee"])
                    elif n.get("k") == "Path" and n.get("r") == "def" and n.get("dk") in ("Fn", "AssocFn"):
                        s.add(n["path"])  # function used as a value (fn pointer / map(f))
            for call in (b.get("mir") or {}).get("calls", []):
                if call.get("inst"):
                    s.add(call["inst"])
                if call.get("callee"):
                    s.add(call["callee"])
        for p, cb in c.closures_mir.items():
            s = g.setdefault(cb.get("parent"), set())
            for call in (cb.get("mir") or {}).get("calls", []):
                if call.get("inst"):
                    s.add(call["inst"])
                if call.get("callee"):
                    s.add(call["callee"])
    # drop derived bodies (Clone/Debug/...) from the graph
    for f in list(g):
        b = P.body(f)
        if b is not None and q.derived(b):
            del g[f]
    # calls of methods of *local* traits are linked to every local impl (over-approximation);
    # foreign-trait calls are linked only where MIR resolved the instance
    impls = {}
    for f in g:
        rest = f.split("::", 1)[1] if "::" in f else f
        if rest.startswith("<") and " as " in rest:
            try:
                tr = rest[1:].split(" as ", 1)[1]
                trait, meth = tr.rsplit(">::", 1)
                impls.setdefault((trait.split("<")[0], meth), []).append(f)
            except (ValueError, IndexError):
                pass
    local_trait_methods = {}
    for (trait, meth), fs in impls.items():
        for cn in crates:
            # trait path printed relative to the crate inside the impl path
            local_trait_methods.setdefault("%s::%s::%s" % (cn, trait, meth), []).extend(fs)
    for f, cs in list(g.items()):
        extra = set()
        for cal in cs:
            for imp in local_trait_methods.get(cal, []):
                extra.add(imp)
        cs |= extra
    for src, dst in (fnptr_bindings or []):
        g.setdefault(src, set()).add(dst)
    return g


def fnptr_bindings(P, crates):
    """indirect calls through fn-pointer fields: (method containing `(self.f)(..)`) -> every fn bound to field f
    at a constructor call site. Returns [(caller_fn, callee_fn)] and the binding table for reporting."""
    edges = []
    table = []
    for cn in crates:
        c = P.crates.get(cn)
        if not c:
            continue
        # 1. indirect calls through a field
        users = {}   # (adt, field) -> [fn]
        for b in c.bodies.values():
            if "body" not in b:
                continue
            for n in walk(b["body"]):
                if n.get("k") == "Call" and "f" in n:
                    f = strip(n["f"])
                    if f.get("k") == "Field":
                        users.setdefault((peel(f.get("owner", "")).split("<")[0], f["name"]), []).append(b["path"])
        if not users:
            continue
        # 2. constructors: struct literal field <- parameter i
        ctor_param = {}  # (ctor fn, i) -> (adt, field)
        for b in c.bodies.values():
            if "body" not in b or b["dk"] not in ("Fn", "AssocFn"):
                continue
            N = Norm(b)
            for n in walk(b["body"]):
                if n.get("k") == "Struct":
                    adt = n.get("adt", "").split("::", 1)[-1]
                    for fld in n["fields"]:
                        for (uadt, uf) in users:
                            if uf == fld["name"] and (uadt.endswith(adt) or adt.endswith(uadt.split("::", 1)[-1])):
                                t = N.term(fld["e"])
                                if t[0] == "param":
                                    ctor_param[(b["path"], t[1])] = (uadt, uf)
        # 3. call sites of the constructors with fn items as arguments
        for b in c.bodies.values():
            if "body" not in b:
                continue
            for n in walk(b["body"]):
                if n.get("k") == "Call" and n.get("callee"):
                    for (ctor, i), (uadt, uf) in ctor_param.items():
                        if _same_fn(n["callee"], ctor) and i < len(n["args"]):
                            a = strip(n["args"][i])
                            if a.get("k") == "Path" and a.get("r") == "def" and a.get("dk") in ("Fn", "AssocFn"):
                                table.append({"field": uadt + "." + uf, "bound_to": a["path"], "at": n["sp"], "in": b["path"]})
                                for u in users[(uadt, uf)]:
                                    edges.append((u, a["path"]))
                            elif a.get("k") == "Closure" and a.get("def") and _non_capturing(a):
                                # a non-capturing closure written at the constructor call is the same binding as a fn item: it gets a body
                                # of its own (parameters = the closure's) and its calls are its out-edges
                                P.synthetic[a["def"]] = {"path": a["def"], "dk": "Closure", "sp": a["sp"], "params": a["params"], "body": a["body"], "pub": False,
                                                         "inputs": [p.get("ty", "") for p in a["params"]], "output": ""}
                                table.append({"field": uadt + "." + uf, "bound_to": a["def"], "at": n["sp"], "in": b["path"]})
                                for u in users[(uadt, uf)]:
                                    edges.append((u, a["def"]))
                                for x in walk(a["body"]):
                                    if x.get("k") in ("Call", "MethodCall") and x.get("callee"):
                                        edges.append((a["def"], x["callee"]))
                                    elif x.get("k") == "Path" and x.get("r") == "def" and x.get("dk") in ("Fn", "AssocFn"):
                                        edges.append((a["def"], x["path"]))
    return edges, table


def _non_capturing(clo):
    """every local the closure body names is bound inside the closure (its parameters, lets, patterns)"""
    bound = set()

    def binds(x):
        if isinstance(x, dict):
            if x.get("k") == "Bind" and "id" in x:
                bound.add(x["id"])
            for v in x.values():
                binds(v)
        elif isinstance(x, list):
            for v in x:
                binds(v)
    binds(clo["params"])
    binds(clo["body"])
    return all(x["id"] in bound for x in walk(clo["body"]) if x.get("k") == "Path" and x.get("r") == "local")


def _same_fn(callee, path):
    """compare a call's callee path with a body path modulo generic arguments"""
    import re
    strip_g = lambda x: re.sub(r"::<[^>]*(<[^>]*>[^>]*)*>", "", x)
    return strip_g(callee) == strip_g(path)


def reachable(g, entries):
    seen = set()
    stack = [e for e in entries]
    while stack:
        f = stack.pop()
        if f in seen:
            continue
        seen.add(f)
        for c in g.get(f, ()):
            if c in g and c not in seen:
                stack.append(c)
    return seen


def sccs(g):
    """Tarjan over the local functions"""
    index = {}
    low = {}
    st = []
    on = set()
    out = []
    counter = [0]
    import sys
    sys.setrecursionlimit(10000)

    def sc(v):
        index[v] = low[v] = counter[0]
        counter[0] += 1
        st.append(v)
        on.add(v)
        for w in g.get(v, ()):
            if w not in g:
                continue
            if w not in index:
                sc(w)
                low[v] = min(low[v], low[w])
            elif w in on:
                low[v] = min(low[v], index[w])
        if low[v] == index[v]:
            comp = []
            while True:
                w = st.pop()
                on.discard(w)
                comp.append(w)
                if w == v:
                    break
            if len(comp) > 1 or v in g.get(v, ()):
                out.append(sorted(comp))
    for v in sorted(g):
        if v not in index:
            sc(v)
    return out
