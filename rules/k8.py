"""K8 — hash-order taint: every iteration of a HashMap/HashSet must be discharged mechanically.

Sources: method calls iterating a hash container, `for` loops over one, a hash container passed by
value/reference as an iterator argument (`extend(set)`, `chain`, `from_iter`), and hash containers
handed to functions that are not known to be order-insensitive.
Discharges:
  (a) sorted-before-use   collected into a `let mut v` whose next statement is `v.sort*(..)`
  (b) commutative-sink    consumed by set/map `extend`, or by a loop whose body only performs
                          commutative updates and carries no other mutable state across iterations
  (c) disjoint-writes     loop over hash-ordered groups whose only writes go through `get_mut(<element id>)`
                          and whose counters are declared inside the loop body
  (d) set-compared        flows only into fields the properties compare as sets (SettingsValidationError)
                          or into a non-observation point (Display of that error), or is re-exported as
                          an iterator whose consumers are themselves checked
Anything else is a violation.
"""
from .core import q
from .core.q import peel, site
from .core.ir import walk, strip, children, walk_with_parents
from .core.norm import Norm, show, cshort, as_for_loop, _root_local

ITER_METHODS = {"iter", "iter_mut", "into_iter", "keys", "values", "values_mut", "into_values", "into_keys", "drain",
                "retain", "extract_if"}
NON_ITERATING = {"get", "get_mut", "insert", "remove", "entry", "contains", "contains_key", "is_empty", "len", "clone",
                 "get_or_insert_with", "get_key_value", "take", "replace", "clear", "reserve", "capacity", "eq", "ne",
                 "remove_entry", "borrow", "borrow_mut", "extend", "new", "default", "with_capacity", "fmt"}
ITER_ARG_CALLEES = {"Extend::extend", "FromIterator::from_iter", "Iterator::chain", "Iterator::zip", "IntoIterator::into_iter",
                    "Iterator::eq", "Iterator::collect"}
SAFE_FOREIGN_ARG = {"RefCell::new", "Clone::clone", "mem::take", "mem::replace", "mem::swap", "Rc::new", "Arc::new", "Box::new",
                    "Some", "Ok"}
COMMUTATIVE_METHODS = {"HashMap::entry", "Entry::or_default", "Entry::or_insert_with", "Entry::or_insert", "Derives::extend_from",
                       "Extend::extend", "HashSet::insert", "BTreeSet::insert", "BTreeSet::remove", "HashSet::remove",
                       "HashMap::remove", "HashMap::get", "HashMap::contains_key", "HashSet::contains", "Clone::clone",
                       "HashMap::get_mut", "Derives::insert_derive", "Derives::insert_attribute", "Option::map", "Iterator::cloned",
                       "HashSet::iter", "Vec::push:set-compared", "IntoIterator::into_iter", "Iterator::next", "TypeParameters::mark_used"}
SORTS = {"slice::sort", "slice::sort_by", "slice::sort_by_key", "slice::sort_unstable", "slice::sort_unstable_by",
         "slice::sort_unstable_by_key", "slice::sort_by_cached_key"}
UNORDERED_TYPES = ("std::collections::HashMap<", "std::collections::HashSet<", "std::collections::BTreeSet<", "std::collections::BTreeMap<")


def is_hash(t):
    t = peel(t or "")
    return t.startswith("std::collections::HashMap<") or t.startswith("std::collections::HashSet<")


def is_set_like(t):
    t = peel(t or "")
    return t.startswith(UNORDERED_TYPES)


def container(t):
    t = peel(t or "")
    return t.split("<", 1)[0].rsplit("::", 1)[-1]


class Site:
    def __init__(self, fn, node, kind, callee, cty, parents):
        self.fn, self.node, self.kind, self.callee, self.cty, self.parents = fn, node, kind, callee, cty, parents

    @property
    def key(self):
        return "%s/%s/%s" % (cshort(self.fn["path"]), self.callee, self.cty)


def hash_sites(P, crates):
    """all iteration sources + unknown hash flows, with their parent chains"""
    out = []
    for c, b in P.all_bodies(crates):
        if "body" not in b or q.derived(b):
            continue
        for n, parents in walk_with_parents(b["body"]):
            k = n.get("k")
            if k == "MethodCall":
                rt = n["recv"].get("adj") or n["recv"].get("ty")
                name = n["name"]
                if is_hash(rt) or is_hash(n["recv"].get("ty")):
                    if name in ITER_METHODS:
                        out.append(Site(b, n, "iter", cshort(n.get("callee", name)), container(rt if is_hash(rt) else n["recv"].get("ty")), parents))
                    elif name not in NON_ITERATING:
                        out.append(Site(b, n, "unknown-method", cshort(n.get("callee", name)), container(rt), parents))
                for a in n["args"]:
                    if is_hash(a.get("ty")):
                        cs = cshort(n.get("callee", name))
                        if cs in ITER_ARG_CALLEES:
                            out.append(Site(b, n, "iter-arg", cs, container(a.get("ty")), parents))
                        elif n.get("callee", "").startswith(("scale_typegen", "scale_typegen_description")):
                            pass  # analysed in the callee's own body
                        elif name not in NON_ITERATING and cs not in SAFE_FOREIGN_ARG:
                            out.append(Site(b, n, "unknown-arg", cs, container(a.get("ty")), parents))
            elif k == "Call":
                cs = cshort(n.get("callee", "?"))
                for a in n["args"]:
                    if is_hash(a.get("ty")):
                        if cs in ITER_ARG_CALLEES:
                            out.append(Site(b, n, "iter-arg", cs, container(a.get("ty")), parents))
                        elif n.get("callee", "").startswith(("scale_typegen::", "scale_typegen_description::")) and n.get("dk") != "Ctor(Struct, Fn)":
                            pass
                        elif cs not in SAFE_FOREIGN_ARG and not n.get("dk", "").startswith("Ctor"):
                            out.append(Site(b, n, "unknown-arg", cs, container(a.get("ty")), parents))
    return out


# ------------------------------------------------------------------- discharges ----
def _enclosing(parents, pred):
    for p in reversed(parents):
        if pred(p):
            return p
    return None


def _consumer_chain(site):
    """method-call chain growing outwards from the source node: [(callee, node)]"""
    chain = []
    cur = site.node
    for p in reversed(site.parents):
        if p.get("k") == "MethodCall" and strip(p["recv"]) is cur or (p.get("k") == "MethodCall" and p["recv"] is cur):
            chain.append((cshort(p.get("callee", p["name"])), p))
            cur = p
        elif p.get("k") in ("AddrOf", "DropTemps", "Use") and p.get("e") is cur:
            cur = p
        else:
            break
    return chain, cur


def sorted_before_use(site):
    """(a): ... .collect::<Vec<_>>() bound by `let mut v`, immediately followed by v.sort*()"""
    chain, top = _consumer_chain(site)
    names = [c for c, _ in chain]
    if not names or names[-1] != "Iterator::collect":
        return None
    if any(c not in ("Iterator::cloned", "Iterator::copied", "Iterator::collect", "Iterator::map", "Iterator::filter") for c in names):
        return None
    # find the SLet whose init is `top`
    let = None
    block = None
    for i, p in enumerate(site.parents):
        if p.get("k") == "SLet" and strip_eq(p.get("init"), top):
            let = p
            block = site.parents[i - 1] if i > 0 else None
    if let is None or block is None or "stmts" not in block:
        return None
    if let["pat"].get("k") != "Bind" or not peel(let["pat"].get("ty", "")).startswith("std::vec::Vec<"):
        return None
    lid = let["pat"]["id"]
    idx = [i for i, s in enumerate(block["stmts"]) if s is let][0]
    if idx + 1 >= len(block["stmts"]):
        return None
    nxt = block["stmts"][idx + 1]
    e = strip(nxt.get("e", {}))
    if e.get("k") == "MethodCall" and cshort(e.get("callee", "")) in SORTS and _root_local(e["recv"]) == lid:
        return {"sorted_local": let["pat"]["name"], "sort": cshort(e["callee"]), "sort_node": e, "let": let}
    return None


def strip_eq(a, b):
    while isinstance(a, dict) and a is not b and a.get("k") in ("AddrOf", "DropTemps", "Use"):
        a = a["e"]
    return a is b


def extend_sink(site):
    """(b1): the hash iteration (optionally .cloned()) is the argument of X.extend(..) where X is a set/map;
    or the container itself is moved into X.extend(other)"""
    if site.kind == "iter-arg" and site.callee == "Extend::extend":
        recv_t = site.node["recv"].get("adj") or site.node["recv"].get("ty") if site.node.get("k") == "MethodCall" else None
        if recv_t and is_set_like(recv_t):
            return {"into": container(recv_t)}
        return None
    chain, top = _consumer_chain(site)
    if any(c not in ("Iterator::cloned", "Iterator::copied") for c, _ in chain):
        return None
    for p in reversed(site.parents):
        if p.get("k") == "MethodCall" and cshort(p.get("callee", "")) == "Extend::extend" and any(strip_eq(a, top) for a in p["args"]):
            recv_t = p["recv"].get("adj") or p["recv"].get("ty")
            if is_set_like(recv_t):
                return {"into": container(recv_t)}
            return None
        if p.get("k") not in ("AddrOf", "DropTemps", "Use", "MethodCall"):
            break
    return None


def for_loop_of(site):
    """the `for` desugaring whose iterated expression is (a chain ending in) the source; returns (match_node, pat, body)"""
    chain, top = _consumer_chain(site)
    if site.kind == "iter-arg" and site.callee == "IntoIterator::into_iter":
        m = site.parents[-1] if site.parents else None
        if m is not None:
            fl = as_for_loop(m)
            if fl is not None:
                return m, fl[0], fl[2], []
    # `src.iter().for_each(|x| body)` is the loop `for x in src.iter() { body }`
    if chain and chain[-1][0] == "Iterator::for_each" and len(chain[-1][1].get("args", [])) == 1:
        clo = strip(chain[-1][1]["args"][0])
        if clo.get("k") == "Closure" and len(clo.get("params", [])) == 1:
            return chain[-1][1], clo["params"][0], clo["body"], [c for c, _ in chain[:-1]]
    for i in range(len(site.parents) - 1, -1, -1):
        p = site.parents[i]
        if p.get("k") == "Call" and p.get("callee", "").endswith("IntoIterator::into_iter") and strip_eq(p["args"][0], top):
            m = site.parents[i - 1] if i > 0 else None
            fl = as_for_loop(m) if m is not None else None
            if fl is not None:
                return m, fl[0], fl[2], [c for c, _ in chain]
    return None


def loop_writes(body, outer_ids):
    """all mutation effects inside a loop body on state declared outside it: [(kind, callee, root_local, node)]"""
    declared = set()
    for n in walk(body):
        if n.get("k") == "Bind":
            declared.add(n["id"])
    out = []
    for n in walk(body):
        k = n.get("k")
        if k in ("Assign", "AssignOp"):
            lid = _root_local(n["l"])
            out.append(("assign", n.get("op", "="), lid, n, lid in declared))
        elif k == "MethodCall":
            recv = n["recv"]
            adj = recv.get("adj") or recv.get("ty", "")
            if adj.startswith("&mut ") or recv.get("ty", "").startswith("&mut "):
                lid = _root_local_through_calls(recv)
                out.append(("mutcall", cshort(n.get("callee", n["name"])), lid, n, lid in declared))
            for a in n["args"]:
                a2 = strip_nonref(a)
                if a2.get("k") == "AddrOf" and a2.get("mut"):
                    lid = _root_local(a2["e"])
                    out.append(("mutarg", cshort(n.get("callee", n["name"])), lid, n, lid in declared))
        elif k == "Call":
            for a in n["args"]:
                a2 = strip_nonref(a)
                if a2.get("k") == "AddrOf" and a2.get("mut"):
                    lid = _root_local(a2["e"])
                    out.append(("mutarg", cshort(n.get("callee", "?")), lid, n, lid in declared))
    return out


def strip_nonref(a):
    while isinstance(a, dict) and a.get("k") in ("DropTemps", "Use"):
        a = a["e"]
    return a


def _root_local_through_calls(e):
    """root local of x.a.b / x.method().other() receiver chains"""
    while isinstance(e, dict):
        e = strip(e)
        k = e.get("k")
        if k == "Path":
            return e["id"] if e.get("r") == "local" else None
        if k in ("Field", "Index"):
            e = e["base"]
        elif k == "MethodCall":
            e = e["recv"]
        else:
            return None
    return None


def commutative_loop(site):
    """(b2): for-loop over the hash container whose body only performs commutative updates"""
    fl = for_loop_of(site)
    if fl is None:
        return None
    m, pat, body, chain = fl
    if any(c not in ("Iterator::cloned", "Iterator::copied") for c in chain):
        return None
    ws = loop_writes(body, None)
    bad = []
    for kind, callee, lid, node, inner in ws:
        if inner:
            continue
        if kind == "assign":
            bad.append("assignment to an outer local")
        elif callee not in COMMUTATIVE_METHODS:
            bad.append("non-commutative update `%s`" % callee)
    # loop-carried dependence through a "seen" set: the outcome of `set.insert(k)` / `set.contains(k)` on a set that outlives one iteration
    # and is filled by the loop depends on which iterations came before
    from .core.ir import walk_with_parents
    filled = {lid for kind, callee, lid, node, inner in ws if not inner and callee in ("HashSet::insert", "BTreeSet::insert", "HashMap::insert", "BTreeMap::insert")}
    for x, parents in walk_with_parents(body):
        if x.get("k") != "MethodCall":
            continue
        callee = cshort(x.get("callee", x.get("name", "")))
        lid = _root_local_through_calls(x["recv"])
        if lid not in filled:
            continue
        par = [p for p in parents if p.get("k") not in ("DropTemps", "Use", "AddrOf")]
        used = bool(par) and par[-1].get("k") not in ("SSemi",)
        if callee in ("HashSet::insert", "BTreeSet::insert", "HashMap::insert", "BTreeMap::insert") and used:
            bad.append("the result of `%s` on a set filled across iterations is used: the outcome depends on the visiting order" % callee)
        if callee in ("HashSet::contains", "BTreeSet::contains", "HashMap::contains_key", "BTreeMap::contains_key", "HashMap::get", "BTreeMap::get"):
            bad.append("`%s` reads a container that earlier iterations fill: the outcome depends on the visiting order" % callee)
    # early exits make the result depend on the visiting order
    for n in user_exits(body):
        bad.append("early exit from a hash-ordered loop")
    if bad:
        return {"ok": False, "why": sorted(set(bad))}
    return {"ok": True, "updates": sorted({c for _k, c, _l, _n, inner in ws if not inner})}


def user_exits(body, kinds=("Break", "Ret")):
    """break / return written by the user (not the `None => break` of a for-loop desugaring or `?`)"""
    for n in walk(body, into_closures=False):
        if n.get("k") in kinds and not str(n.get("xk", "")).startswith("desugar:"):
            yield n
