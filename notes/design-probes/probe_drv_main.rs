#![feature(rustc_private)]
extern crate rustc_driver;
extern crate rustc_hir;
extern crate rustc_interface;
extern crate rustc_middle;
extern crate rustc_span;
extern crate rustc_ast;

use rustc_driver::{Callbacks, Compilation};
use rustc_hir as hir;
use rustc_hir::intravisit::{self, Visitor};
use rustc_middle::ty::TyCtxt;

struct Cb;

struct V<'tcx> {
    tcx: TyCtxt<'tcx>,
    typeck: &'tcx rustc_middle::ty::TypeckResults<'tcx>,
    depth: usize,
}

impl<'tcx> V<'tcx> {
    fn lit_str(&self, e: &hir::Expr<'tcx>) -> Option<String> {
        match e.kind {
            hir::ExprKind::Lit(l) => match l.node { rustc_ast::LitKind::Str(s, _) => Some(s.to_string()), _ => None },
            _ => None,
        }
    }
    fn root_callsite(&self, sp: rustc_span::Span) -> String {
        // outermost macro callsite in the local crate
        let mut s = sp;
        let mut names = vec![];
        while s.from_expansion() {
            let d = s.ctxt().outer_expn_data();
            names.push(format!("{:?}", d.kind));
            s = d.call_site;
        }
        format!("{:?} via {:?}", s, names)
    }
}

impl<'tcx> Visitor<'tcx> for V<'tcx> {
    fn visit_expr(&mut self, e: &'tcx hir::Expr<'tcx>) {
        let ind = "  ".repeat(self.depth);
        match e.kind {
            hir::ExprKind::Call(f, args) => {
                if let hir::ExprKind::Path(ref qp) = f.kind {
                    let res = self.typeck.qpath_res(qp, f.hir_id);
                    if let Some(did) = res.opt_def_id() {
                        let p = self.tcx.def_path_str(did);
                        if p.starts_with("quote::__private::push_") {
                            let lit = args.get(1).and_then(|a| self.lit_str(a));
                            eprintln!("{}{} {:?}", ind, p.trim_start_matches("quote::__private::"), lit);
                        } else if p == "quote::ToTokens::to_tokens" {
                            let a0 = &args[0];
                            let ty = self.typeck.expr_ty(a0);
                            let snip = self.tcx.sess.source_map().span_to_snippet(a0.span).unwrap_or_default();
                            eprintln!("{}INTERP {} : {:?}   [{}]", ind, snip, ty, self.root_callsite(e.span));
                        }
                    }
                }
            }
            hir::ExprKind::Loop(..) => { eprintln!("{}LOOP", ind); }
            _ => {}
        }
        self.depth += 1;
        intravisit::walk_expr(self, e);
        self.depth -= 1;
    }
}

impl Callbacks for Cb {
    fn after_analysis<'tcx>(&mut self, _c: &rustc_interface::interface::Compiler, tcx: TyCtxt<'tcx>) -> Compilation {
        let krate = tcx.crate_name(rustc_span::def_id::LOCAL_CRATE);
        if krate.as_str() != "scale_typegen" { return Compilation::Continue; }
        for ldid in tcx.hir_body_owners() {
            let name = tcx.def_path_str(ldid.to_def_id());
            if !name.ends_with("struct_field_tokens") { continue; }
            eprintln!("FN {}", name);
            let body = tcx.hir_body_owned_by(ldid);
            let typeck = tcx.typeck(ldid);
            let mut v = V { tcx, typeck, depth: 0 };
            v.visit_expr(body.value);
        }
        // ADT info for scale_info::TypeDef
        for ldid in tcx.hir_body_owners() {
            let name = tcx.def_path_str(ldid.to_def_id());
            if !name.ends_with("collect_type_ids") { continue; }
            let typeck = tcx.typeck(ldid);
            let body = tcx.hir_body_owned_by(ldid);
            struct M<'tcx> { tcx: TyCtxt<'tcx>, typeck: &'tcx rustc_middle::ty::TypeckResults<'tcx> }
            impl<'tcx> Visitor<'tcx> for M<'tcx> {
                fn visit_expr(&mut self, e: &'tcx hir::Expr<'tcx>) {
                    if let hir::ExprKind::Match(scrut, arms, src) = e.kind {
                        let ty = self.typeck.expr_ty(scrut).peel_refs();
                        eprintln!("MATCH on {:?} src={:?} arms={}", ty, src, arms.len());
                        if let rustc_middle::ty::Adt(adt, args) = ty.kind() {
                            for v in adt.variants() {
                                let fs: Vec<String> = v.fields.iter().map(|f| format!("{}: {:?}", f.name, f.ty(self.tcx, args))).collect();
                                eprintln!("   variant {} {{ {} }}", v.name, fs.join(", "));
                                for f in v.fields.iter() {
                                    if let rustc_middle::ty::Adt(a2, args2) = f.ty(self.tcx, args).kind() {
                                        for v2 in a2.variants() {
                                            let fs2: Vec<String> = v2.fields.iter().map(|f| format!("{}: {:?}", f.name, f.ty(self.tcx, args2))).collect();
                                            eprintln!("        payload {} {{ {} }}", v2.name, fs2.join(", "));
                                        }
                                    }
                                }
                            }
                        }
                        for a in arms { eprintln!("   arm pat {:?}", self.tcx.sess.source_map().span_to_snippet(a.pat.span)); }
                    }
                    intravisit::walk_expr(self, e);
                }
            }
            M { tcx, typeck }.visit_expr(body.value);
        }
        Compilation::Continue
    }
}

fn main() {
    let mut args: Vec<String> = std::env::args().collect();
    args.remove(1);
    rustc_driver::run_compiler(&args, &mut Cb);
}
