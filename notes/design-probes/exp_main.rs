use scale_info::{form::PortableForm as PF, interner::UntrackedSymbol, Field, Path, PortableRegistry, PortableType, Type, TypeDef, TypeDefComposite, TypeDefVariant, TypeDefPrimitive, TypeDefSequence, TypeDefTuple, TypeParameter, Variant, TypeInfo, meta_type};
use scale_typegen::{typegen::ir::ToTokensWithSettings, TypeGenerator, TypeGeneratorSettings, utils::ensure_unique_type_paths, DerivesRegistry};
use std::any::TypeId;

fn sym(id: u32) -> UntrackedSymbol<TypeId> { id.into() }
fn path(p: &str) -> Path<PF> { Path { segments: if p.is_empty() { vec![] } else { p.split("::").map(|s| s.to_string()).collect() } } }
fn ty(p: &str, params: Vec<(&str, Option<u32>)>, def: TypeDef<PF>) -> Type<PF> {
    Type { path: path(p), type_params: params.into_iter().map(|(n, t)| TypeParameter { name: n.to_string(), ty: t.map(sym) }).collect(), type_def: def, docs: vec![] }
}
fn fld(name: Option<&str>, t: u32, tn: Option<&str>) -> Field<PF> { Field { name: name.map(|s| s.to_string()), ty: sym(t), type_name: tn.map(|s| s.to_string()), docs: vec![] } }
fn comp(fields: Vec<Field<PF>>) -> TypeDef<PF> { TypeDef::Composite(TypeDefComposite { fields }) }
fn prim(p: TypeDefPrimitive) -> TypeDef<PF> { TypeDef::Primitive(p) }
fn reg(types: Vec<Type<PF>>) -> PortableRegistry { PortableRegistry { types: types.into_iter().enumerate().map(|(i, t)| PortableType { id: i as u32, ty: t }).collect() } }

fn gen_with(reg: &PortableRegistry, settings: &TypeGeneratorSettings) -> Result<String, String> {
    let g = TypeGenerator::new(reg, settings);
    g.generate_types_mod().map(|m| m.to_token_stream(settings).to_string()).map_err(|e| e.to_string())
}
fn gen(reg: &PortableRegistry) -> Result<String, String> {
    let settings = TypeGeneratorSettings::default().compact_type_path(syn::parse_quote!(::codec::Compact));
    gen_with(reg, &settings)
}

fn e3() {
    // two versions of crate: X{a:P,b:Q,c:P} vs X'{a:P',b:Q',c:Q'}
    use TypeDefPrimitive::*;
    let r = reg(vec![
        ty("", vec![], prim(U8)),   // 0
        ty("", vec![], prim(U16)),  // 1
        ty("k::P", vec![], comp(vec![fld(Some("p"), 0, Some("u8"))])), // 2 P
        ty("k::Q", vec![], comp(vec![fld(Some("q"), 1, Some("u16"))])), // 3 Q
        ty("k::X", vec![], comp(vec![fld(Some("a"), 2, Some("P")), fld(Some("b"), 3, Some("Q")), fld(Some("c"), 2, Some("P"))])), // 4 X
        ty("k::P", vec![], comp(vec![fld(Some("p"), 0, Some("u8"))])), // 5 P'
        ty("k::Q", vec![], comp(vec![fld(Some("q"), 1, Some("u16"))])), // 6 Q'
        ty("k::X", vec![], comp(vec![fld(Some("a"), 5, Some("P")), fld(Some("b"), 6, Some("Q")), fld(Some("c"), 6, Some("Q"))])), // 7 X'
    ]);
    println!("E3 gen: {:?}", gen(&r));
    let mut r2 = r.clone();
    ensure_unique_type_paths(&mut r2).unwrap();
    println!("E3 after dedup: {:?}", r2.types.iter().map(|t| t.ty.path.to_string()).collect::<Vec<_>>());
}

fn e4() {
    use TypeDefPrimitive::*;
    let mut r = reg(vec![
        ty("", vec![], prim(U8)),
        ty("", vec![], prim(U16)),
        ty("", vec![], prim(U32)),
        ty("k::Foo", vec![], comp(vec![fld(Some("a"), 0, None)])),
        ty("k::Foo", vec![], comp(vec![fld(Some("a"), 1, None)])),
        ty("k::Foo1", vec![], comp(vec![fld(Some("a"), 2, None)])),
    ]);
    println!("E4 gen before: {:?}", gen(&r).map(|s| s.len()));
    ensure_unique_type_paths(&mut r).unwrap();
    println!("E4 after dedup: {:?}", r.types.iter().map(|t| t.ty.path.to_string()).collect::<Vec<_>>());
    println!("E4 gen after: {:?}", gen(&r).map(|s| s.len()));
}

fn e5() {
    use TypeDefPrimitive::*;
    // Foo<T,U> both unused, concrete ids in different orders
    let r1 = reg(vec![
        ty("", vec![], prim(U8)), ty("", vec![], prim(U16)), ty("", vec![], prim(U32)),
        ty("k::Foo", vec![("T", Some(0)), ("U", Some(1))], comp(vec![fld(Some("a"), 2, Some("u32"))])),
    ]);
    let r2 = reg(vec![
        ty("", vec![], prim(U16)), ty("", vec![], prim(U8)), ty("", vec![], prim(U32)),
        ty("k::Foo", vec![("T", Some(1)), ("U", Some(0))], comp(vec![fld(Some("a"), 2, Some("u32"))])),
    ]);
    println!("E5 r1: {:?}", gen(&r1));
    println!("E5 r2: {:?}", gen(&r2));
}

fn e7() {
    use TypeDefPrimitive::*;
    // Foo<T>{a:T} with Foo<Bar>, Foo<Baz>; recursive derive on Foo
    let r = reg(vec![
        ty("", vec![], prim(U8)),
        ty("k::Bar", vec![], comp(vec![fld(Some("x"), 0, Some("u8"))])),
        ty("k::Baz", vec![], comp(vec![fld(Some("y"), 0, Some("u8"))])),
        ty("k::Foo", vec![("T", Some(1))], comp(vec![fld(Some("a"), 1, Some("T"))])),
        ty("k::Foo", vec![("T", Some(2))], comp(vec![fld(Some("a"), 2, Some("T"))])),
    ]);
    let mut d = DerivesRegistry::new();
    d.add_derives_for(syn::parse_quote!(k::Foo), [syn::parse_quote!(Hash)], true);
    let mut s = TypeGeneratorSettings::default();
    s.derives = d;
    println!("E7: {:?}", gen_with(&r, &s));
}

fn e6() {
    #[derive(TypeInfo)] struct A { x: u16, t: (u8,), }
    #[derive(TypeInfo)] struct U<T>(core::marker::PhantomData<T>);
    trait Tr { type X: TypeInfo + 'static; }
    struct K; impl Tr for K { type X = u8; }
    impl TypeInfo for K { type Identity = Self; fn type_info() -> scale_info::Type { scale_info::Type::builder().path(scale_info::Path::new("K","k")).composite(scale_info::build::Fields::unit()) } }
    #[derive(TypeInfo)] struct N<T: Tr + 'static> { f: T::X }
    #[derive(TypeInfo)] struct Un<T: Tr + 'static>(T::X);
    #[derive(TypeInfo)] struct Unit<T: Tr + 'static>(core::marker::PhantomData<T>);
    #[derive(TypeInfo)] struct All { a: A, n: N<K>, un: Un<K>, unit: Unit<K> }
    let mut r = scale_info::Registry::new();
    let id = r.register_type(&meta_type::<All>()).id;
    let reg: PortableRegistry = r.into();
    let s = TypeGeneratorSettings::default();
    println!("E6 gen: {}", gen_with(&reg, &s).unwrap());
    println!("E6 rust_value: {:?}", scale_typegen_description::rust_value(id, &reg, &s).map(|t| t.to_string()));
}

fn main() { e1(); e2(); e3(); e4(); e5(); e7(); e6(); e11(); }
fn e11() {
    #[derive(TypeInfo)] struct S { b: Box<u32> }
    let mut r = scale_info::Registry::new();
    let id = r.register_type(&meta_type::<S>()).id;
    let reg: PortableRegistry = r.into();
    let s = TypeGeneratorSettings::default();
    println!("E11 gen: {}", gen_with(&reg, &s).unwrap());
    println!("E11 rust_value: {:?}", scale_typegen_description::rust_value(id, &reg, &s).map(|t| t.to_string()));
}
fn e1() {
    #[derive(TypeInfo)]
    struct S { d: std::time::Duration }
    let mut r = scale_info::Registry::new();
    r.register_type(&meta_type::<S>());
    let reg: PortableRegistry = r.into();
    println!("E1 duration: {:?}", gen(&reg));
}
fn e2() {
    let r = reg(vec![
        ty("m::E", vec![], TypeDef::Variant(TypeDefVariant { variants: vec![Variant { name: "X".into(), fields: vec![], index: 0, docs: vec![] }] })),
        ty("m::E", vec![], TypeDef::Variant(TypeDefVariant { variants: vec![Variant { name: "X".into(), fields: vec![], index: 5, docs: vec![] }] })),
    ]);
    println!("E2 gen: {:?}", gen(&r));
}
