#![feature(rustc_private)]
extern crate rustc_driver; extern crate rustc_hir; extern crate rustc_interface; extern crate rustc_middle; extern crate rustc_span;
use rustc_driver::{Callbacks, Compilation};
use rustc_hir as hir;
use rustc_hir::intravisit::{self, Visitor};
use rustc_middle::ty::{self, TyCtxt};

struct Cb;
struct V<'tcx> { tcx: TyCtxt<'tcx>, typeck: &'tcx ty::TypeckResults<'tcx>, fname: String }
fn is_hash(t: ty::Ty<'_>) -> bool { let s = format!("{:?}", t.peel_refs()); s.starts_with("std::collections::HashMap<") || s.starts_with("std::collections::HashSet<") }
impl<'tcx> V<'tcx> {
    fn in_test(&self, sp: rustc_span::Span) -> bool { false && sp.is_dummy() }
}
impl<'tcx> Visitor<'tcx> for V<'tcx> {
    fn visit_expr(&mut self, e: &'tcx hir::Expr<'tcx>) {
        match e.kind {
            hir::ExprKind::MethodCall(seg, recv, args, _) => {
                let rty = self.typeck.expr_ty_adjusted(recv);
                let name = seg.ident.as_str().to_string();
                if is_hash(rty) && ["iter","iter_mut","into_iter","keys","values","values_mut","into_values","into_keys","drain","retain"].contains(&name.as_str()) {
                    eprintln!("HASHITER {} :: .{}() on {:?} at {:?}", self.fname, name, rty.peel_refs(), e.span);
                }
                for a in args { let t = self.typeck.expr_ty_adjusted(a); if is_hash(t) && !matches!(t.kind(), ty::Ref(..)) && ["extend","collect","from_iter","chain","zip"].contains(&name.as_str()) { eprintln!("HASHARG {} :: .{}(<{:?}>) at {:?}", self.fname, name, t, e.span); } }
            }
            hir::ExprKind::Call(f, args) => {
                if let hir::ExprKind::Path(ref qp) = f.kind {
                    if let Some(d) = self.typeck.qpath_res(qp, f.hir_id).opt_def_id() {
                        let p = self.tcx.def_path_str(d);
                        if p.ends_with("IntoIterator::into_iter") { let t = self.typeck.expr_ty_adjusted(&args[0]); if is_hash(t) { eprintln!("HASHFOR {} :: for over {:?} at {:?}", self.fname, t, e.span); } }
                    }
                }
            }
            _ => {}
        }
        intravisit::walk_expr(self, e);
    }
}
impl Callbacks for Cb {
    fn after_analysis<'tcx>(&mut self, _c: &rustc_interface::interface::Compiler, tcx: TyCtxt<'tcx>) -> Compilation {
        let krate = tcx.crate_name(rustc_span::def_id::LOCAL_CRATE);
        if !krate.as_str().starts_with("scale_typegen") { return Compilation::Continue; }
        let mut n = 0;
        for ldid in tcx.hir_body_owners() {
            if matches!(tcx.def_kind(ldid), hir::def::DefKind::Closure) { continue; }
            let name = tcx.def_path_str(ldid.to_def_id());
            let body = tcx.hir_body_owned_by(ldid);
            let typeck = tcx.typeck(ldid);
            let mut v = V { tcx, typeck, fname: name };
            v.visit_expr(body.value);
            n += 1;
        }
        eprintln!("BODIES {} {}", krate, n);
        Compilation::Continue
    }
}
fn main() { let mut args: Vec<String> = std::env::args().collect(); args.remove(1); rustc_driver::run_compiler(&args, &mut Cb); }
