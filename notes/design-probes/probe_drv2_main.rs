#![feature(rustc_private)]
extern crate rustc_driver;
extern crate rustc_hir;
extern crate rustc_interface;
extern crate rustc_middle;
extern crate rustc_span;
extern crate rustc_ast;

use rustc_driver::{Callbacks, Compilation};
use rustc_hir as hir;
use rustc_hir::intravisit::{self, Visitor};
use rustc_middle::ty::{self, TyCtxt};
use rustc_middle::mir;

struct Cb;

struct V<'tcx> { tcx: TyCtxt<'tcx>, typeck: &'tcx ty::TypeckResults<'tcx>, depth: usize }

impl<'tcx> V<'tcx> {
    fn pat(&self, p: &hir::Pat<'tcx>) -> String {
        match p.kind {
            hir::PatKind::Binding(_mode, id, ident, sub) => format!("Bind({}#{:?}{})", ident, id.local_id, sub.map(|s| format!("@{}", self.pat(s))).unwrap_or_default()),
            hir::PatKind::Tuple(ps, _) => format!("Tup[{}]", ps.iter().map(|p| self.pat(p)).collect::<Vec<_>>().join(",")),
            hir::PatKind::TupleStruct(ref qp, ps, _) => { let res = self.typeck.qpath_res(qp, p.hir_id); format!("TS({:?})[{}]", res.opt_def_id().map(|d| self.tcx.def_path_str(d)), ps.iter().map(|p| self.pat(p)).collect::<Vec<_>>().join(",")) }
            hir::PatKind::Struct(ref qp, fs, _) => { let res = self.typeck.qpath_res(qp, p.hir_id); format!("S({:?}){{{}}}", res.opt_def_id().map(|d| self.tcx.def_path_str(d)), fs.iter().map(|f| format!("{}:{}", f.ident, self.pat(f.pat))).collect::<Vec<_>>().join(",")) }
            hir::PatKind::Ref(p, _, _) => format!("&{}", self.pat(p)),
            hir::PatKind::Wild => "_".into(),
            hir::PatKind::Or(ps) => format!("Or[{}]", ps.iter().map(|p| self.pat(p)).collect::<Vec<_>>().join("|")),
            hir::PatKind::Expr(e) => format!("PExpr({:?})", self.tcx.sess.source_map().span_to_snippet(e.span).ok()),
            _ => format!("?{:?}", std::mem::discriminant(&p.kind)),
        }
    }
}

impl<'tcx> Visitor<'tcx> for V<'tcx> {
    fn visit_expr(&mut self, e: &'tcx hir::Expr<'tcx>) {
        let ind = "  ".repeat(self.depth);
        match e.kind {
            hir::ExprKind::Closure(c) => {
                let body = self.tcx.hir_body(c.body);
                let ps: Vec<String> = body.params.iter().map(|p| format!("{} : {:?}", self.pat(p.pat), self.typeck.pat_ty(p.pat))).collect();
                eprintln!("{}CLOSURE params=[{}]", ind, ps.join("; "));
                self.depth += 1;
                self.visit_expr(body.value);
                self.depth -= 1;
                return;
            }
            hir::ExprKind::Path(ref qp) => {
                let res = self.typeck.qpath_res(qp, e.hir_id);
                if let hir::def::Res::Local(id) = res {
                    eprintln!("{}LOCAL {}#{:?} : {:?}", ind, self.tcx.hir_name(id), id.local_id, self.typeck.expr_ty(e));
                }
            }
            hir::ExprKind::Field(b, f) => {
                eprintln!("{}FIELD .{} on {:?}", ind, f, self.typeck.expr_ty_adjusted(b).peel_refs());
            }
            hir::ExprKind::Match(s, arms, src) => {
                eprintln!("{}MATCH src={:?} on {:?}", ind, src, self.typeck.expr_ty(s));
                for a in arms { eprintln!("{}  ARM {}", ind, self.pat(a.pat)); }
            }
            hir::ExprKind::Let(l) => { eprintln!("{}LETEXPR {}", ind, self.pat(l.pat)); }
            hir::ExprKind::MethodCall(seg, recv, _a, _s) => {
                let did = self.typeck.type_dependent_def_id(e.hir_id);
                eprintln!("{}MCALL {} -> {:?} recv {:?}", ind, seg.ident, did.map(|d| self.tcx.def_path_str(d)), self.typeck.expr_ty_adjusted(recv));
            }
            hir::ExprKind::Struct(qp, fields, _) => {
                let res = self.typeck.qpath_res(qp, e.hir_id);
                eprintln!("{}STRUCTLIT {:?} fields {:?} ty {:?}", ind, res.opt_def_id().map(|d| self.tcx.def_path_str(d)), fields.iter().map(|f| f.ident.to_string()).collect::<Vec<_>>(), self.typeck.expr_ty(e));
            }
            _ => {}
        }
        self.depth += 1;
        intravisit::walk_expr(self, e);
        self.depth -= 1;
    }
    fn visit_local(&mut self, l: &'tcx hir::LetStmt<'tcx>) {
        let ind = "  ".repeat(self.depth);
        eprintln!("{}LET {} (init={})", ind, self.pat(l.pat), l.init.is_some());
        intravisit::walk_local(self, l);
    }
}

impl Callbacks for Cb {
    fn after_analysis<'tcx>(&mut self, _c: &rustc_interface::interface::Compiler, tcx: TyCtxt<'tcx>) -> Compilation {
        let krate = tcx.crate_name(rustc_span::def_id::LOCAL_CRATE);
        if krate.as_str() == "scale_info" {
            // prelude literal args
            for ldid in tcx.hir_body_owners() {
                let body = tcx.hir_body_owned_by(ldid);
                let typeck = tcx.typeck(ldid);
                struct P<'tcx> { tcx: TyCtxt<'tcx>, typeck: &'tcx ty::TypeckResults<'tcx>, out: Vec<String> }
                impl<'tcx> Visitor<'tcx> for P<'tcx> {
                    fn visit_expr(&mut self, e: &'tcx hir::Expr<'tcx>) {
                        if let hir::ExprKind::Call(f, args) = e.kind {
                            if let hir::ExprKind::Path(ref qp) = f.kind {
                                if let Some(d) = self.typeck.qpath_res(qp, f.hir_id).opt_def_id() {
                                    if self.tcx.def_path_str(d).ends_with("Path::prelude") {
                                        if let hir::ExprKind::Lit(l) = args[0].kind { if let rustc_ast::LitKind::Str(s, _) = l.node { self.out.push(s.to_string()); } }
                                    }
                                }
                            }
                        }
                        intravisit::walk_expr(self, e);
                    }
                }
                let mut p = P { tcx, typeck, out: vec![] };
                p.visit_expr(body.value);
                if !p.out.is_empty() { eprintln!("PRELUDE {} -> {:?}", tcx.def_path_str(ldid.to_def_id()), p.out); }
            }
            return Compilation::Continue;
        }
        if krate.as_str() != "scale_typegen" { return Compilation::Continue; }
        for ldid in tcx.hir_body_owners() {
            let name = tcx.def_path_str(ldid.to_def_id());
            if name.ends_with("TypeParameters::from_scale_info") {
                eprintln!("FN {} kind={:?}", name, tcx.def_kind(ldid));
                let body = tcx.hir_body_owned_by(ldid);
                let typeck = tcx.typeck(ldid);
                let mut v = V { tcx, typeck, depth: 0 };
                v.visit_expr(body.value);
            }
            if name.ends_with("typegen::TypeGenerator::<'a>::create_composite_ir_kind") || name.ends_with("unused_params_phantom_data") {
                let mirb = tcx.optimized_mir(ldid.to_def_id());
                eprintln!("MIR {} blocks={}", name, mirb.basic_blocks.len());
                let typing_env = ty::TypingEnv::post_analysis(tcx, ldid.to_def_id());
                for bb in mirb.basic_blocks.iter() {
                    match &bb.terminator().kind {
                        mir::TerminatorKind::Call { func, .. } => {
                            let fty = func.ty(&mirb.local_decls, tcx);
                            if let ty::FnDef(did, args) = *fty.kind() {
                                let inst = ty::Instance::try_resolve(tcx, typing_env, did, args).ok().flatten();
                                eprintln!("   CALL {} => {:?}", tcx.def_path_str(did), inst.map(|i| tcx.def_path_str(i.def_id())));
                            } else { eprintln!("   CALL indirect {:?}", fty); }
                        }
                        mir::TerminatorKind::Assert { msg, .. } => { eprintln!("   ASSERT {:?} at {:?}", msg, bb.terminator().source_info.span); }
                        _ => {}
                    }
                }
            }
        }
        // ADT TypeParameter: fields & derived impls
        for ldid in tcx.hir_crate_items(()).definitions() {
            let dk = tcx.def_kind(ldid);
            if matches!(dk, hir::def::DefKind::Struct) && tcx.def_path_str(ldid.to_def_id()).ends_with("TypeParameter") {
                let adt = tcx.adt_def(ldid.to_def_id());
                for f in adt.all_fields() { eprintln!("ADT field {} : {:?} vis={:?}", f.name, tcx.type_of(f.did).instantiate_identity().skip_norm_wip(), f.vis); }
            }
            if matches!(dk, hir::def::DefKind::Impl { of_trait: true }) {
                let tr = tcx.impl_trait_ref(ldid.to_def_id());
                let selfty = tcx.type_of(ldid.to_def_id()).instantiate_identity().skip_norm_wip();
                if format!("{:?}", selfty).contains("TypeParameter") && !format!("{:?}", selfty).contains("TypeParameters") {
                    eprintln!("IMPL {:?} derived={}", tr.instantiate_identity().skip_norm_wip(), tcx.is_automatically_derived(ldid.to_def_id()));
                }
            }
        }
        Compilation::Continue
    }
}

fn main() {
    let mut args: Vec<String> = std::env::args().collect();
    args.remove(1);
    rustc_driver::run_compiler(&args, &mut Cb);
}
