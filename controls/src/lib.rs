//! Deliberately bad code. Nothing here is ever executed; it only has to type-check.
#![allow(dead_code, unused)]
use quote::{format_ident, quote};
use std::collections::{BTreeSet, HashMap, HashSet};

pub struct Entry {
    pub id: u32,
    pub name: String,
}

/// control for C06.2: ambient nondeterminism
pub fn control_ambient() -> u64 {
    std::time::SystemTime::now()
        .duration_since(std::time::UNIX_EPOCH)
        .map(|d| d.as_secs())
        .unwrap_or(0)
}

/// control for C06.1: hash iteration order reaches a returned Vec
pub fn control_hash_order(m: &HashMap<String, u32>) -> Vec<String> {
    m.keys().cloned().collect()
}

/// control for C06.1: a loop over a hash set with a loop-carried counter
pub fn control_hash_loop(s: &HashSet<String>) -> Vec<(usize, String)> {
    let mut out = Vec::new();
    let mut n = 0usize;
    for x in s {
        out.push((n, x.clone()));
        n += 1;
    }
    out
}

/// control for C06.1: a "seen" set filled by a hash-ordered loop decides what later iterations do
pub fn control_hash_seen_set(m: &HashMap<u32, String>) -> HashSet<String> {
    let mut seen: HashSet<usize> = HashSet::new();
    let mut out = HashSet::new();
    for (_k, v) in m {
        if seen.insert(v.len()) {
            out.insert(v.clone());
        }
    }
    out
}

/// control for C06.1: a list that is only meaningful as a set is post-processed position by position
pub fn control_set_compared_list(entries: &mut Vec<(syn::Path, HashSet<syn::Path>)>) {
    entries.dedup_by(|a, b| a.0 == b.0);
}

/// control for C17.1: ids compared for order, used in arithmetic, turned into identifiers and tokens
pub fn control_id_opacity(a: &Entry, b: &Entry) -> proc_macro2::TokenStream {
    let bigger = a.id > b.id;
    let sum = a.id + 1;
    let ident = format_ident!("_{}", a.id);
    let raw = b.id;
    let _ = (bigger, sum);
    quote! { #ident #raw }
}

/// control for C17.1: a set ordered by an id-bearing key iterated into output
pub fn control_id_ordered_iteration(s: &BTreeSet<u32>) -> proc_macro2::TokenStream {
    let items = s.iter();
    quote! { ( #( #items ),* ) }
}

/// control for C09.1 / C09.3: hard-coded std / alloc paths in a template and in a string literal
pub fn control_literal_confinement() -> (proc_macro2::TokenStream, proc_macro2::TokenStream, syn::Path) {
    let a = quote! { ::std::vec::Vec<u8> };
    let b = quote! { ::alloc::string::String };
    let p: syn::Path = syn::parse_str("::std::boxed::Box").unwrap();
    (a, b, p)
}
