#!/usr/bin/env python3
"""apply each benign (behaviour-preserving) edit of selftest/benign.json to a scratch copy and run all 18 checks: every check must stay silent"""
import json, os, shutil, subprocess, sys
HERE = os.path.dirname(os.path.dirname(os.path.abspath(__file__)))
only = sys.argv[1:] 
edits = json.load(open(os.path.join(HERE, "selftest", "benign.json")))
props = ["C%02d" % i for i in range(1, 19)]
for e in edits:
    if only and e["name"] not in only:
        continue
    d = "/var/tmp/benign-" + e["name"]
    shutil.rmtree(d, ignore_errors=True)
    subprocess.run(["rsync", "-a", "--exclude", "target", "--exclude", ".git", "/repo/", d + "/"], check=True)
    p = os.path.join(d, e["file"])
    s = open(p).read()
    ok = True
    for old, new in e["edits"]:
        if old not in s:
            print("NA", e["name"], "snippet not found:", old[:50].replace("\n", " "))
            ok = False
            break
        s = s.replace(old, new, 1)
    if ok:
        open(p, "w").write(s)
        alarms = []
        for pr in props:
            r = subprocess.run([os.path.join(HERE, "check"), pr, "--repo", d], capture_output=True, text=True)
            if r.returncode == 2:
                alarms.append((pr, "ENGINE-ERROR " + r.stderr[-300:]))
                break
            if r.returncode != 0:
                keys = [l.strip() for l in r.stdout.splitlines() if l.strip().startswith("rule=")]
                alarms.append((pr, keys))
        print(("ALARM " if alarms else "silent"), e["name"], alarms if alarms else "")
    shutil.rmtree(d, ignore_errors=True)
