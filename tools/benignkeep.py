#!/usr/bin/env python3
"""tools/benignkeep.py <out dir of a sub-agent> <its scratch worktree> <dest dir under selftest/>: re-verify each delivered behaviour-preserving patch
(applies to HEAD, builds, the unedited suite passes) and keep it as <dest>/<name>/{patch.diff,why.txt}."""
import glob, os, shutil, subprocess, sys
HERE = os.path.dirname(os.path.dirname(os.path.abspath(__file__)))
out, wt, dest = os.path.abspath(sys.argv[1]), os.path.abspath(sys.argv[2]), os.path.abspath(sys.argv[3])
ENV = dict(os.environ, CARGO_NET_OFFLINE="true", CARGO_TARGET_DIR=os.path.join(wt, "target"))


def sh(cmd):
    r = subprocess.run(cmd, shell=True, cwd=wt, capture_output=True, text=True, env=ENV)
    return r.returncode, r.stdout + r.stderr


for pd in sorted(glob.glob(os.path.join(out, "*", "patch.diff"))):
    name = os.path.basename(os.path.dirname(pd))
    sh("git checkout -- . && git clean -fdq -e target")
    rc, o = sh("git apply --check %s" % pd)
    if rc != 0:
        rc, o = sh("patch -p1 --dry-run -s -i %s" % pd)
        if rc != 0:
            print(name, "DOES NOT APPLY", o[-200:])
            continue
        sh("patch -p1 -s -i %s" % pd)
    else:
        sh("git apply %s" % pd)
    rc, o = sh("cargo test --workspace --no-fail-fast --offline 2>&1 | grep -E '^test result|FAILED|^error|^warning: unused' | head -20")
    ok = "FAILED" not in o and "error" not in o and o.count("test result: ok") >= 4
    print(name, "verified" if ok else "REJECTED: " + o[-300:], flush=True)
    sh("git checkout -- . && git clean -fdq -e target")
    if ok:
        d = os.path.join(dest, name)
        os.makedirs(d, exist_ok=True)
        shutil.copy(pd, d)
        w = os.path.join(os.path.dirname(pd), "why.txt")
        if os.path.exists(w):
            shutil.copy(w, d)
