#!/bin/bash
# tools/bdiff.sh <patchdir> Cxx.. : found/expected differences of the given checks with the patch applied
pd=$1; shift
d=/var/tmp/bdiff-$$
rsync -a --exclude target --exclude .git /repo/ $d/
(cd $d && patch -p1 -s -i $pd/patch.diff) || exit 3
for p in "$@"; do python3 /verif/tools/diffshow.py $p --repo $d | cut -c1-${W:-1500}; done
rm -rf $d
