#!/usr/bin/env python3
"""print the facts directory for the current tree of a repo (exports if needed)"""
import sys, os
sys.path.insert(0, os.path.dirname(os.path.dirname(os.path.abspath(__file__))))
from rules import engine
print(engine.ensure_facts(sys.argv[1] if len(sys.argv) > 1 else "/repo", sys.argv[2] if len(sys.argv) > 2 else "default"))
