#!/usr/bin/env python3
"""regenerate MANIFEST.json from the table below (kept as code so that claimed / not-applicable stay consistent)"""
import json, os, subprocess
HERE = os.path.dirname(os.path.dirname(os.path.abspath(__file__)))
props = [json.loads(l) for l in open(os.path.join(HERE, "properties.jsonl"))]
CLAIMS = json.load(open(os.path.join(HERE, "tools", "claims.json")))
checks = []
na = []
for p in props:
    pid = p["id"]
    c = CLAIMS.get(pid)
    if c is None or not c.get("claimed"):
        na.append({"property_id": pid, "reason": (c or {}).get("reason", "static check not built yet (work in progress); not claimed")})
        continue
    checks.append({
        "property_id": pid,
        "quick_cmd": "./check %s --tier quick" % pid,
        "thorough_cmd": "./check %s --tier thorough" % pid,
        "evidence_file": "evidence/%s.json" % pid,
        "replay_cmd_template": "./check %s --replay {path}" % pid,
        "engine": "tgfacts+tgrules",
        "level_claimed": {"category": "other", "text": c["text"], "design_ref": c.get("design_ref", "DESIGN.md section 6, " + pid)},
        "level_note": c["note"],
        "technique": c["technique"],
    })
fix_commits = subprocess.run(["git", "-C", "/repo", "log", "--format=%h %s"], capture_output=True, text=True).stdout.splitlines()
m = {
    "version": 1,
    "setup_cmd": "cd driver && CARGO_NET_OFFLINE=true cargo +nightly build --release --offline && cd .. && python3 tools/facts.py /repo",
    "hooks": {
        "guard": "scale_typegen_verif",
        "enable": "none needed: static analysis reads the unmodified source; the analysed build is `cargo +nightly check --offline --locked` with RUSTC_WRAPPER=driver/target/release/tgfacts",
        "baseline_off_cmd": "cd /repo && cargo test --workspace --no-fail-fast --offline",
        "source_commits": [],
        "add_only": True,
    },
    "engines": [
        {"name": "tgfacts", "path": "driver/", "serves_properties": [c["property_id"] for c in checks],
         "kind_free_text": "rustc_private driver (nightly) exporting typed HIR, MIR panic/call/cast facts, ADTs and impls of scale_typegen, scale_typegen_description and scale_info as JSON; nothing is executed"},
        {"name": "tgrules", "path": "rules/", "serves_properties": [c["property_id"] for c in checks],
         "kind_free_text": "Python rule engine: quote!/format! template reconstruction, use-def term normalisation, rule kinds K1-K17 with per-property instance tables"},
    ],
    "checks": checks,
    "not_applicable": na,
    "notes": "Technique family: static analysis only. Every check inspects /repo's current working tree (facts are re-exported whenever a source file changes) "
             "and reports a specific construct. Each property is claimed for its structural, necessary clauses only; the undecided behavioural remainder is stated "
             "per property in DESIGN.md section 6 and in level_note. known_findings.json lists genuine defects (known / fixed). /repo fix: commits: "
             + "; ".join(l for l in fix_commits if " fix:" in l),
}
json.dump(m, open(os.path.join(HERE, "MANIFEST.json"), "w"), indent=1)
print("claimed:", [c["property_id"] for c in checks], "not claimed:", [n["property_id"] for n in na])
