#!/usr/bin/env python3
"""tools/seed3keep.py <out dir of a sub-agent> <its scratch worktree> [names..]: confirm each delivered seeded change myself (existing suite passes with it,
demo fails with it, demo passes without it), run all 18 quick checks on the changed tree, and keep confirmed ones as /verif/seeded/<name>/."""
import glob, json, os, re, shutil, subprocess, sys
HERE = os.path.dirname(os.path.dirname(os.path.abspath(__file__)))
out, wt = os.path.abspath(sys.argv[1]), os.path.abspath(sys.argv[2])
only = sys.argv[3:]
ENV = dict(os.environ, CARGO_NET_OFFLINE="true", CARGO_TARGET_DIR=os.path.join(wt, "target"))


def sh(cmd, cwd=wt, timeout=3600):
    r = subprocess.run(cmd, shell=True, cwd=cwd, capture_output=True, text=True, timeout=timeout, env=ENV)
    return r.returncode, r.stdout + r.stderr


def clean():
    sh("git checkout -- . && git clean -fdq -e target")


for sd in sorted(glob.glob(os.path.join(out, "C*-*"))):
    name = os.path.basename(sd)
    if only and name not in only:
        continue
    try:
        am = json.load(open(os.path.join(sd, "meta.json")))
    except Exception as e:
        print(name, "NO META", e)
        continue
    patch = os.path.join(sd, "patch.diff")
    demos = glob.glob(os.path.join(sd, "*.rs"))
    res = {}
    clean()
    rc, o = sh("git apply --check %s" % patch)
    res["patch_applies"] = rc == 0
    if rc != 0 or len(demos) != 1:
        print(name, "NOT CONFIRMED (patch/demo)", o[-200:], demos)
        continue
    sh("git apply %s" % patch)
    rc, o = sh("cargo test --workspace --no-fail-fast --offline 2>&1 | grep -E '^test result|FAILED|^error' | head -20")
    res["existing_tests_pass_with_change"] = "FAILED" not in o and "error" not in o and o.count("test result: ok") >= 4
    demo = am.get("demo", {})
    m = re.search(r"((?:typegen|description)/tests/[\w./-]+\.rs)", str(demo.get("placement", "")))
    place = m.group(1) if m else None
    cmd = str(demo.get("cmd", ""))
    if place is None:
        m2 = re.search(r"--test (\w+)", cmd)
        crate = "description" if "scale-typegen-description" in cmd else "typegen"
        place = "%s/tests/%s.rs" % (crate, m2.group(1) if m2 else os.path.basename(demos[0])[:-3])
    os.makedirs(os.path.join(wt, os.path.dirname(place)), exist_ok=True)
    shutil.copy(demos[0], os.path.join(wt, place))
    cmd = re.sub(r"CARGO_TARGET_DIR=\S+", "", cmd)
    cmd = re.sub(r"^\s*cd \S+\s*&&", "", cmd)
    rc1, o1 = sh(cmd + " 2>&1 | tail -30")
    res["demo_fails_with_change"] = ("test result: FAILED" in o1 or "panicked" in o1 or "stack overflow" in o1 or "process didn't exit successfully" in o1) and "could not compile" not in o1
    sh("git checkout -- .")
    rc2, o2 = sh(cmd + " 2>&1 | tail -30")
    res["demo_passes_without_change"] = "test result: ok" in o2 and "FAILED" not in o2
    clean()
    # the checks
    d = "/var/tmp/seed3-%s" % name
    shutil.rmtree(d, ignore_errors=True)
    subprocess.run(["rsync", "-a", "--exclude", "target", "--exclude", ".git", "/repo/", d + "/"], check=True)
    subprocess.run(["patch", "-p1", "-s", "-i", patch], cwd=d, check=True)
    rr = subprocess.run([sys.executable, os.path.join(HERE, "tools", "fastcheck.py"), d], capture_output=True, text=True)
    shutil.rmtree(d, ignore_errors=True)
    try:
        fired = json.loads(rr.stdout.strip().splitlines()[-1])
    except Exception:
        fired = {"engine": [(rr.stdout + rr.stderr)[-300:]]}
    prop = name.split("-")[0]
    ok = all(res.values())
    print(name, "confirmed" if ok else "NOT CONFIRMED %s" % res, "TARGET-FIRED" if prop in fired else "TARGET-MISSED", json.dumps({k: [x[:70] for x in v] for k, v in fired.items()})[:600], flush=True)
    if not ok:
        print("   demo with change:", o1[-300:].replace("\n", " | "))
        print("   demo without:", o2[-300:].replace("\n", " | "))
        continue
    dst = os.path.join(HERE, "seeded", name)
    shutil.rmtree(dst, ignore_errors=True)
    os.makedirs(dst)
    shutil.copy(patch, dst)
    shutil.copy(demos[0], dst)
    meta = {
        "property": prop, "breaks": am.get("breaks"), "needs_to_manifest": am.get("needs_to_manifest"), "files_touched": am.get("files_touched"),
        "demo": {"placement": place, "cmd": cmd.strip()},
        "origin": "independent sub-agent (%s) given only the property text and a scratch worktree (nothing from /verif)" % os.environ.get("SEED_ROUND", "eighth round: style rewrites hiding one difference"),
        "confirmed_by_me": {"ran": ["git apply patch.diff in a scratch worktree of /repo HEAD", "cargo test --workspace --offline (existing suite, no demo present)",
                                    "the demo with the change", "git checkout -- . ; the same demo without the change", "all 18 quick checks on a patched scratch copy"], **res},
        "checks_fired_at_first_contact": fired, "target_check_fired_at_first_contact": prop in fired,
    }
    json.dump(meta, open(os.path.join(dst, "meta.json"), "w"), indent=1)
