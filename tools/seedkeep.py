#!/usr/bin/env python3
"""tools/seedkeep.py <Cxx> <X>: re-verify a sub-agent's seeded change and, if all four facts hold, keep it as /verif/seeded/<Cxx>-<X>/"""
import json, os, shutil, subprocess, sys, glob
pid, x = sys.argv[1], sys.argv[2]
HERE = os.path.dirname(os.path.dirname(os.path.abspath(__file__)))
r = subprocess.run([sys.executable, os.path.join(HERE, "tools", "seedverify.py"), pid, x], capture_output=True, text=True)
try:
    res = json.loads(r.stdout)
except ValueError:
    print("verify failed:", r.stdout[-500:], r.stderr[-500:])
    sys.exit(1)
ok = res["patch_applies"] and res["existing_tests_pass"] and res["demo_fails_with_change"] and res["demo_passes_without_change"]
print(pid, x, "confirmed" if ok else "NOT CONFIRMED", "target fired" if res["target_fired"] else "TARGET MISSED", res["checks_fired"])
if not ok:
    print(json.dumps(res, indent=1)[:1500])
    sys.exit(1)
sd = "/tmp/wt-%s/seeded/%s" % (pid, x)
dst = os.path.join(HERE, "seeded", "%s-%s" % (pid, x))
shutil.rmtree(dst, ignore_errors=True)
os.makedirs(dst)
shutil.copy(os.path.join(sd, "patch.diff"), dst)
for f in glob.glob(os.path.join(sd, "*.rs")):
    shutil.copy(f, dst)
am = json.load(open(os.path.join(sd, "meta.json")))
meta = {
    "property": pid,
    "breaks": am.get("what_it_breaks"),
    "needs_to_manifest": am.get("needs_to_manifest"),
    "files_touched": am.get("files_touched"),
    "demo": {"placement": am.get("demo_placement"), "cmd": am.get("demo_cmd")},
    "origin": "independent sub-agent given only the property text and a scratch worktree (nothing from /verif)",
    "confirmed_by_me": {
        "ran": ["git apply patch.diff (scratch worktree of /repo HEAD)", "cargo test --workspace --offline (existing suite, no demo present)",
                "cargo test -p <crate> --offline --test <demo> with the change", "git checkout -- typegen description; same demo without the change",
                "./check C01..C18 --repo <worktree> with the change applied"],
        "existing_tests_pass_with_change": res["existing_tests_pass"],
        "demo_fails_with_change": res["demo_fails_with_change"],
        "demo_passes_without_change": res["demo_passes_without_change"],
    },
    "checks_fired_at_time_of_keeping": res["checks_fired"],
    "target_check_fired": res["target_fired"],
}
json.dump(meta, open(os.path.join(dst, "meta.json"), "w"), indent=1)
