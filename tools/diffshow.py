#!/usr/bin/env python3
"""tools/diffshow.py Cxx [--repo DIR]: for each violated expect_term instance print the region where found and expected differ"""
import subprocess, sys, re, os
HERE = os.path.dirname(os.path.dirname(os.path.abspath(__file__)))
out = subprocess.run([os.path.join(HERE, "check")] + sys.argv[1:], capture_output=True, text=True).stdout
blocks = out.split("VIOLATION ")
for b in blocks[1:]:
    m = re.search(r"rule=(\S+) key=(\S+)", b)
    f = re.search(r"\| found:\s+(.*)", b)
    e = re.search(r"\| expected: (.*)", b)
    print("==", m.group(1), m.group(2))
    if not (f and e):
        for l in b.splitlines()[3:6]:
            print("   ", l[:400])
        continue
    f, e = f.group(1), e.group(1)
    i = 0
    while i < min(len(f), len(e)) and f[i] == e[i]:
        i += 1
    j = 0
    while j < min(len(f), len(e)) - i and f[-1 - j] == e[-1 - j]:
        j += 1
    print("   found   : …%s⟦%s⟧%s…" % (f[max(0, i - 60):i], f[i:len(f) - j][:300], f[len(f) - j:][:40]))
    print("   expected: …%s⟦%s⟧%s…" % (e[max(0, i - 60):i], e[i:len(e) - j][:300], e[len(e) - j:][:40]))
