#!/usr/bin/env python3
"""tools/instances.py Cxx [repo] [substring]: list the rule instances of one quick check (development aid)"""
import importlib, os, sys
HERE = os.path.dirname(os.path.dirname(os.path.abspath(__file__)))
sys.path.insert(0, HERE)
from rules import engine, leaves
from rules.core.ir import Program
prop = sys.argv[1]
repo = sys.argv[2] if len(sys.argv) > 2 else "/repo"
sub = sys.argv[3] if len(sys.argv) > 3 else ""
P = Program(engine.ensure_facts(repo))
mod = importlib.import_module("rules.props." + prop.lower())
ctx = engine.Ctx(prop, P, "quick", repo)
ctx.activate()
mod.check(ctx)
leaves.check(ctx)
for i in ctx.instances:
    if sub in i["key"] or sub in i["rule"]:
        print("ok " if i["ok"] else "BAD", i["rule"], i["key"], "|", i["detail"][:160].replace("\n", " "))
