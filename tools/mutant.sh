#!/bin/bash
# tools/mutant.sh <name> <file> <python-expr-on-s> <props...> : apply an edit to a scratch copy of /repo and run checks against it
set -e
NAME=$1; FILE=$2; EDIT=$3; shift 3
D=/var/tmp/mut-$NAME
rm -rf $D; mkdir -p $D
rsync -a --exclude target --exclude .git /repo/ $D/
python3 - "$D/$FILE" "$EDIT" <<'PY'
import sys
p, edit = sys.argv[1], sys.argv[2]
s = open(p).read()
old, new = edit.split(" ==> ")
assert old in s, "snippet not found: " + old
s = s.replace(old, new, 1)
open(p, "w").write(s)
PY
for P in "$@"; do /verif/check $P --repo $D 2>&1 | grep -E "VIOLATION|rule=|engine error|^C[0-9]+:" | head -8; done
rm -rf $D
