#!/usr/bin/env python3
"""tools/leaves.py : (re)generate rules/leaves.json - the normalised terms of the repo-local functions that rule expectations NAME
(calls to them stay calls in normalised terms, so their own definition must be pinned too). Review the diff before committing."""
import json, os, sys
HERE = os.path.dirname(os.path.dirname(os.path.abspath(__file__)))
sys.path.insert(0, HERE)
from rules import engine
from rules.core.ir import Program
from rules.core import norm, q
from rules.core.norm import Norm, show, cshort
P = Program(engine.ensure_facts("/repo", "default"))
import re
rx = re.compile(r"([A-Za-z_][A-Za-z0-9_]*::[A-Za-z_][A-Za-z0-9_#]*)(?:<[^>()]*>)?(?=[(,)])")
keep = set(engine.keep_names())
by_short = {}
for c, b in P.all_bodies(q.LIB):
    if "body" in b and b.get("dk") in ("Fn", "AssocFn") and not q.derived(b):
        by_short.setdefault(cshort(b["path"]), []).append(b)
out = {}
for _round in range(6):
    norm.set_default(P, keep)
    new = {}
    for name in sorted(keep):
        fs = by_short.get(name, [])
        if len(fs) != 1:
            continue
        t = show(Norm(fs[0]).term(fs[0]["body"]), 10 ** 6)
        if len(t) <= 1200:
            new[name] = t
    more = set()
    for t in new.values():
        more.update(n for n in rx.findall(t) if n in by_short)
    out = new
    if more <= keep:
        break
    keep |= more
json.dump(out, open(os.path.join(HERE, "rules", "leaves.json"), "w"), indent=1, sort_keys=True)
print("wrote", len(out), "leaf terms")
