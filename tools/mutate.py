#!/usr/bin/env python3
"""tools/mutate.py [--files f1,f2] [--max N] [--jobs J] : syntactic mutation campaign (development aid, not a registered check).
Every mutant = one small token-level change of one source line of /repo (non-test code). Pipeline per mutant, in a scratch copy:
  cargo check (does it compile?) -> all 18 quick checks in one process (tools/fastcheck.py) -> only if NO check fires: the repo's test suite.
Mutants that compile, fire no check AND pass the test suite are printed as SURVIVOR: each is either an equivalent mutant or a gap in the rules."""
import argparse, json, os, re, shutil, subprocess, sys, hashlib
from concurrent.futures import ThreadPoolExecutor
HERE = os.path.dirname(os.path.dirname(os.path.abspath(__file__)))
FILES = ["typegen/src/typegen/mod.rs", "typegen/src/typegen/type_path.rs", "typegen/src/typegen/type_params.rs", "typegen/src/typegen/ir/type_ir.rs",
         "typegen/src/typegen/ir/module_ir.rs", "typegen/src/typegen/settings/derives.rs", "typegen/src/typegen/settings/substitutes.rs",
         "typegen/src/typegen/settings/mod.rs", "typegen/src/typegen/validation.rs", "typegen/src/utils.rs", "description/src/description.rs",
         "description/src/formatting.rs", "description/src/transformer.rs", "description/src/type_example/rust_value.rs",
         "description/src/type_example/scale_value.rs"]
OPS = [(r"&&", "||"), (r"\|\|", "&&"), (r"==", "!="), (r"!=", "=="), (r"<=", "<"), (r">=", ">"), (r"(?<![<=>-])<(?![<=])(?= )", "<="), (r"(?<![=>-])>(?![>=])(?= )", ">="),
       (r"\.is_some\(\)", ".is_none()"), (r"\.is_none\(\)", ".is_some()"), (r"\btrue\b", "false"), (r"\bfalse\b", "true"),
       (r"\.any\(", ".all("), (r"\.all\(", ".any("), (r"\.first\(\)", ".last()"), (r"\.last\(\)", ".first()"), (r"\+= 1", "+= 2"), (r"-= 1", "-= 2"),
       (r"\+ 1\b", "+ 0"), (r"\b0\.\.", "1.."), (r"if !", "if "), (r"\.filter\(\|", ".filter(|_unused| true || (|"),
       (r"\.is_empty\(\)", ".len() == 1"), (r"\bcontinue;", ""), (r"\bbreak;", ""), (r"\.rev\(\)", ""), (r"\.skip\(1\)", ""), (r"\.cloned\(\)\.rev\(\)", ".cloned()"),
       (r"\.unwrap_or_default\(\)", ".unwrap_or(true)"), (r"\.min\(", ".max("), (r"\.max\(", ".min("), (r"\.insert\(0, ", ".push("),
       (r"\.entry\(([^)]*)\)\.or_default\(\)", r".entry(\1).or_default()"), (r"\.starts_with\(", ".contains("), (r"\.contains\(\"", ".starts_with(\""),
       (r"Some\(\&Scope::Small\)", "Some(&Scope::Big)"), (r"\.len\(\) > 1", ".len() > 2"), (r"\.len\(\) == 1", ".len() <= 1"), (r"\.ok\(\)\?", ".ok().unwrap_or_default()")]


OPS2 = [(r"\.0\b(?!\.\d)", ".1"), (r"\.1\b(?!\.\d)", ".0"), (r"\(([a-z_][a-z_0-9.]*), ([a-z_][a-z_0-9.]*)\)", r"(\2, \1)"), (r"Some\(([a-z_]+)\)(?= =>)", r"Some(\1) if false"),
        (r"^(\s*)([a-z_][\w.]*\.(?:insert|push|push_str|extend|extend_from|remove|mark_used|insert_str)\(.*\);)\s*$", r"\1"), (r" \+ ", " - "), (r" - ", " + "),
        (r"\.iter\(\)\.enumerate\(\)", ".iter().rev().enumerate()"), (r"\.zip\(", ".zip(std::iter::repeat(()).map(|_| unreachable!()).take(0).chain("),
        (r"\.then\(\|\|", ".then_some(()).map(|_|"), (r"\bu8\b", "u16"), (r"as u32", "as u16 as u32"), (r"'\('", "'['"), (r"\"\{\}: \{\}\"", "\"{}:{}\""), (r"\.unwrap_or\(false\)", ".unwrap_or(true)"),
        (r"\.is_compact\(\)", ".is_string()"), (r"is_field: true", "is_field: false"), (r"is_field: false", "is_field: true"), (r"\.filter_map\(", ".flat_map("),
        (r"\.clone\(\)\.all\(", ".all("), (r"idx \+ 1", "idx"), (r"n \+= 1;", ""), (r"Entry::Vacant", "Entry::Occupied"), (r"\? *;\s*$", ".ok();")]


OPS3 = [(r"(#\w+) (#\w+)", r"\2 \1"), (r"\bpub ", ""), (r"::core::", "::std::"), (r'"([^"{}]*)\{\}([^"]*)"', r'"\1{}{}\2"'), (r'(\w)>"', r'\1"'), (r'"\(', '"['),
        (r"#\[codec\(compact\)\]", "#[codec(skip)]"), (r"#\[codec\(skip\)\]", ""), (r"PhantomData", "PhantomPinned"), (r"__ignore", "__ignored"), (r"__Ignore", "__Ignored"),
        (r"index = #", "index = 1 + #"), (r",\)\*", ")*"), (r"\),\*", ")*"), (r'\("(\w+)"\)', r'("\1_")'), (r"'\{'", "'['"), (r"'\}'", "']'"), (r"'<'", "'['"), (r"'\n'", "' '"),
        (r'"    "', '"   "'), (r"\.push\(ch\)", ".push(' ')"), (r"u8_unsuffixed", "u8_suffixed"), (r"Compact<\{\}>", "Compact<{}"), (r"Box<", "Bx<"), (r'"Cow"', '"Cov"'),
        (r"\bsuper::", "self::"), (r"32", "33"), (r"\b7\b", "8"), (r"\b1\b", "2"), (r"\bNone\b(?! =>)", "Some(Default::default())")]


def candidates(files, ops=None):
    global OPS
    if ops is not None:
        OPS = ops
    out = []
    for f in files:
        lines = open(os.path.join("/repo", f)).read().split("\n")
        in_tests = False
        for i, l in enumerate(lines):
            if re.match(r"\s*#\[cfg\(test\)\]", l) or re.match(r"\s*mod tests?\b", l):
                in_tests = True
            if in_tests:
                continue
            s = l.strip()
            if not s or s.startswith("//") or s.startswith("#[") or s.startswith("use ") or "assert" in s and "debug_assert" not in s:
                continue
            code = l.split("//")[0]
            for oi, (rx, rep) in enumerate(OPS):
                for m in re.finditer(rx, code):
                    new = code[:m.start()] + re.sub(rx, rep, code[m.start():m.end()]) + code[m.end():] + l[len(code):]
                    if new != l:
                        out.append((f, i, oi, m.start(), l, new))
    return out


def run(cmd, cwd, env=None, timeout=1800):
    r = subprocess.run(cmd, shell=True, cwd=cwd, capture_output=True, text=True, timeout=timeout, env=env)
    return r.returncode, r.stdout + r.stderr


def one(args):
    slot, (f, i, oi, col, old, new) = args
    key = hashlib.sha1(("%s:%d:%d:%d" % (f, i, oi, col)).encode()).hexdigest()[:10]
    d = "/var/tmp/mutate/w%d" % slot
    tgt = "/var/tmp/mutate/target%d" % slot
    env = dict(os.environ, CARGO_NET_OFFLINE="true", CARGO_TARGET_DIR=tgt)
    subprocess.run(["rsync", "-a", "--delete", "--exclude", "target", "--exclude", ".git", "/repo/", d + "/"], check=True)
    p = os.path.join(d, f)
    lines = open(p).read().split("\n")
    assert lines[i] == old
    lines[i] = new
    open(p, "w").write("\n".join(lines))
    rc, o = run("cargo check --offline -q 2>&1 | grep -E '^error' | head -1", d, env)
    if o.strip():
        return key, "nocompile", f, i, old, new, None
    rr = subprocess.run([sys.executable, os.path.join(HERE, "tools", "fastcheck.py"), d], capture_output=True, text=True)
    try:
        fired = json.loads(rr.stdout.strip().splitlines()[-1])
    except Exception:
        fired = {"engine": [(rr.stdout + rr.stderr)[-200:]]}
    if fired:
        return key, "caught", f, i, old, new, sorted(fired)
    rc, o = run("cargo test --workspace --offline -q 2>&1 | grep -E 'test result|FAILED|panicked|error' | head -8", d, env)
    if "FAILED" in o or "error" in o or "panicked" in o:
        return key, "tests-only", f, i, old, new, None
    return key, "SURVIVOR", f, i, old, new, None


if __name__ == "__main__":
    ap = argparse.ArgumentParser()
    ap.add_argument("--files", default="")
    ap.add_argument("--max", type=int, default=0)
    ap.add_argument("--jobs", type=int, default=8)
    ap.add_argument("--stride", type=int, default=1)
    ap.add_argument("--offset", type=int, default=0)
    ap.add_argument("--ops2", action="store_true")
    ap.add_argument("--ops3", action="store_true")
    a = ap.parse_args()
    files = a.files.split(",") if a.files else FILES
    cands = candidates(files, OPS3 if a.ops3 else OPS2 if a.ops2 else None)[a.offset::a.stride]
    if a.max:
        cands = cands[:a.max]
    print("mutants:", len(cands), flush=True)
    os.makedirs("/var/tmp/mutate", exist_ok=True)
    import queue, threading
    q = queue.Queue()
    for c in cands:
        q.put(c)
    counts = {}
    lock = threading.Lock()

    def worker(slot):
        while True:
            try:
                c = q.get_nowait()
            except queue.Empty:
                return
            try:
                key, verdict, f, i, old, new, fired = one((slot, c))
            except Exception as e:
                key, verdict, f, i, old, new, fired = "?", "error %s" % str(e)[:80], c[0], c[1], c[4], c[5], None
            with lock:
                counts[verdict.split()[0]] = counts.get(verdict.split()[0], 0) + 1
                if verdict in ("SURVIVOR", "tests-only") or verdict.startswith("error"):
                    print("%s %s:%d\n   - %s\n   + %s" % (verdict, f, i + 1, old.strip(), new.strip()), flush=True)
    ts = [threading.Thread(target=worker, args=(s,)) for s in range(a.jobs)]
    for t in ts:
        t.start()
    for t in ts:
        t.join()
    print("SUMMARY", json.dumps(counts), flush=True)
