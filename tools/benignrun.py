#!/usr/bin/env python3
"""tools/benignrun.py <dir-with-numbered-subdirs-containing-patch.diff> : apply each behaviour-preserving patch to a scratch copy of /repo and
run all 18 quick checks; print alarms (every alarm is a false alarm to be analysed)."""
import glob, json, os, shutil, subprocess, sys
HERE = os.path.dirname(os.path.dirname(os.path.abspath(__file__)))
base = sys.argv[1]
only = sys.argv[2:]
for pd in sorted(glob.glob(os.path.join(base, "*", "patch.diff"))):
    name = os.path.basename(os.path.dirname(pd))
    if only and name not in only:
        continue
    d = "/var/tmp/benignrun-%s-%s" % (os.path.basename(os.path.dirname(base.rstrip("/"))), name)
    shutil.rmtree(d, ignore_errors=True)
    subprocess.run(["rsync", "-a", "--exclude", "target", "--exclude", ".git", "/repo/", d + "/"], check=True)
    r = subprocess.run(["patch", "-p1", "-s", "-i", pd], cwd=d, capture_output=True, text=True)
    if r.returncode != 0:
        print(name, "PATCH-NA", (r.stdout + r.stderr)[-150:].replace("\n", " "))
        shutil.rmtree(d, ignore_errors=True)
        continue
    alarms = {}
    for i in range(1, 19):
        p = "C%02d" % i
        rr = subprocess.run([os.path.join(HERE, "check"), p, "--repo", d], capture_output=True, text=True)
        if rr.returncode == 2:
            alarms[p] = ["ENGINE-ERROR " + rr.stderr[-200:]]
        elif rr.returncode != 0:
            alarms[p] = [l.strip()[5:][:90] for l in rr.stdout.splitlines() if l.strip().startswith("rule=")]
    why = ""
    try:
        why = open(os.path.join(os.path.dirname(pd), "why.txt")).read().strip().replace("\n", " ")[:160]
    except OSError:
        pass
    print(name, "silent" if not alarms else "ALARM " + json.dumps(alarms), "|", why)
    shutil.rmtree(d, ignore_errors=True)
