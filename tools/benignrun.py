#!/usr/bin/env python3
"""tools/benignrun.py <dir-with-subdirs-containing-patch.diff> [names..] : apply each behaviour-preserving patch to a scratch copy of /repo and
run all 18 quick checks (tools/fastcheck.py, several trees in parallel); print alarms (every alarm is a false alarm to be analysed)."""
import glob, json, os, shutil, subprocess, sys
from concurrent.futures import ThreadPoolExecutor
HERE = os.path.dirname(os.path.dirname(os.path.abspath(__file__)))
base = os.path.abspath(sys.argv[1])
only = sys.argv[2:]
pds = [pd for pd in sorted(glob.glob(os.path.join(base, "*", "patch.diff"))) if not only or os.path.basename(os.path.dirname(pd)) in only]


def one(pd):
    name = os.path.basename(os.path.dirname(pd))
    d = "/var/tmp/benignrun-%d-%s" % (os.getpid(), name)
    shutil.rmtree(d, ignore_errors=True)
    subprocess.run(["rsync", "-a", "--exclude", "target", "--exclude", ".git", "/repo/", d + "/"], check=True)
    try:
        r = subprocess.run(["patch", "-p1", "-s", "-i", pd], cwd=d, capture_output=True, text=True)
        if r.returncode != 0:
            return name, "PATCH-NA " + (r.stdout + r.stderr)[-150:].replace("\n", " ")
        rr = subprocess.run([sys.executable, os.path.join(HERE, "tools", "fastcheck.py"), d], capture_output=True, text=True)
        try:
            alarms = json.loads(rr.stdout.strip().splitlines()[-1])
        except Exception:
            alarms = {"engine": ["ENGINE-ERROR " + (rr.stdout + rr.stderr)[-300:]]}
        why = ""
        try:
            why = open(os.path.join(os.path.dirname(pd), "why.txt")).read().strip().replace("\n", " ")[:160]
        except OSError:
            pass
        return name, ("silent" if not alarms else "ALARM " + json.dumps(alarms)) + " | " + why
    finally:
        shutil.rmtree(d, ignore_errors=True)


with ThreadPoolExecutor(int(os.environ.get("JOBS", "6"))) as ex:
    for name, line in ex.map(one, pds):
        print(name, line, flush=True)
