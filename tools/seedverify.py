#!/usr/bin/env python3
"""tools/seedverify.py <Cxx> <A|B|...> [--keep]: confirm a seeded change delivered by a sub-agent in /tmp/wt-<Cxx>/seeded/<X>:
existing suite passes with it, demo fails with it and passes without it; then run all 18 checks against the changed tree."""
import json, os, shutil, subprocess, sys, glob
pid, x = sys.argv[1], sys.argv[2]
wt = "/tmp/wt-%s" % pid
sd = os.path.join(wt, "seeded", x)
meta = json.load(open(os.path.join(sd, "meta.json")))
patch = os.path.join(sd, "patch.diff")
def sh(cmd, cwd=wt, timeout=1800):
    r = subprocess.run(cmd, shell=True, cwd=cwd, capture_output=True, text=True, timeout=timeout)
    return r.returncode, (r.stdout + r.stderr)
def clean():
    sh("git checkout -- typegen description")
clean()
for f in glob.glob(os.path.join(wt, "*", "tests", "*.rs")):
    if "/typegen/tests/" in f or "/description/tests/" in f:
        r = subprocess.run("git ls-files --error-unmatch %s" % f, shell=True, cwd=wt, capture_output=True)
        if r.returncode != 0:
            os.remove(f)   # untracked demo files left by the sub-agent
res = {"property": pid, "variant": x}
rc, out = sh("git apply --check %s" % patch)
res["patch_applies"] = rc == 0
# 1. existing suite with the change (no demo files present yet)
sh("git apply %s" % patch)
rc, out = sh("cargo test --workspace --offline 2>&1 | grep -E '^test result|FAILED|^error' | head")
res["existing_tests_pass"] = ("FAILED" not in out and "error" not in out and out.count("test result: ok") >= 4)
res["existing_tests_out"] = out[-300:]
# 2. place the demo
demos = [f for f in glob.glob(os.path.join(sd, "*.rs"))]
placed = []
placement = meta.get("demo_placement", "") + " " + meta.get("demo_cmd", "")
for d in demos:
    head = open(d).read()[:2500]
    crate = "description" if ("description/tests" in placement or "scale-typegen-description" in placement or "description/tests" in head or "-p scale-typegen-description" in head) else "typegen"
    tdir = os.path.join(wt, crate, "tests")
    os.makedirs(tdir, exist_ok=True)
    import re as _re
    mname = _re.search(r"--test\s+([A-Za-z0-9_]+)", meta.get("demo_cmd", "") + " " + head)
    if mname and len(demos) == 1:
        dst = os.path.join(tdir, mname.group(1) + ".rs")     # demos may depend on their crate name (module_path! in type paths)
    else:
        dst = os.path.join(tdir, "seeded_%s_%s_%s" % (pid.lower(), x.lower(), os.path.basename(d)))
    shutil.copy(d, dst)
    placed.append((crate, dst))
def run_demo():
    ok_all = True
    outs = ""
    for crate, dst in placed:
        name = os.path.splitext(os.path.basename(dst))[0]
        pkg = "scale-typegen-description" if crate == "description" else "scale-typegen"
        rc, out = sh("cargo test -p %s --offline --test %s 2>&1 | tail -15" % (pkg, name))
        passed = rc == 0 and "test result: ok" in out and "FAILED" not in out
        ok_all = ok_all and passed
        outs += out[-600:]
    return ok_all, outs
ok1, o1 = run_demo()
res["demo_fails_with_change"] = not ok1
res["demo_out_with_change"] = o1[-400:]
# checks against the changed tree
fired = {}
for i in range(1, 19):
    p = "C%02d" % i
    r = subprocess.run(["/verif/check", p, "--repo", wt], capture_output=True, text=True)
    if r.returncode == 2:
        fired[p] = ["ENGINE-ERROR: " + r.stderr[-300:]]
    elif r.returncode != 0:
        fired[p] = [l.strip() for l in r.stdout.splitlines() if l.strip().startswith("rule=")]
res["checks_fired"] = fired
res["target_fired"] = pid in fired
clean()
ok0, o0 = run_demo()
res["demo_passes_without_change"] = ok0
if not ok0:
    res["demo_out_without_change"] = o0[-400:]
for crate, dst in placed:
    if "--keep" not in sys.argv:
        os.remove(dst)
print(json.dumps(res, indent=1))
