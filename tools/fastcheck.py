#!/usr/bin/env python3
"""tools/fastcheck.py <repo dir> : all 18 quick checks of one tree in ONE process (facts loaded once). Prints a JSON object
{prop: ["rule key=.."]} of the unlisted violations (the same instances `./check` would report; positive controls and evidence
files are skipped - this is a development aid for the seeded / benign corpora, not a registered check)."""
import importlib, json, os, sys, traceback
HERE = os.path.dirname(os.path.dirname(os.path.abspath(__file__)))
sys.path.insert(0, HERE)
from rules import engine, leaves
from rules.core.ir import Program


def run(repo):
    out = {}
    try:
        P = Program(engine.ensure_facts(repo))
    except Exception as e:
        return {"engine": ["ENGINE-ERROR %s" % str(e)[-200:]]}
    known = engine.load_known()
    for i in range(1, 19):
        prop = "C%02d" % i
        mod = importlib.import_module("rules.props." + prop.lower())
        ctx = engine.Ctx(prop, P, "quick", repo)
        ctx.activate()
        try:
            mod.check(ctx)
            leaves.check(ctx)
        except Exception as e:
            tb = traceback.extract_tb(sys.exc_info()[2])
            where = [f for f in tb if "/rules/" in f.filename]
            last = where[-1] if where else tb[-1]
            ctx._filter = None
            ctx.bad("engine", "rule-not-evaluable/%s" % last.name, "", "%s: %s" % (type(e).__name__, str(e)[:200]))
        bad = [v for v in ctx.violations() if engine.full_key(prop, v) not in known]
        if bad:
            out[prop] = ["%s key=%s" % (v["rule"], v["key"][:90]) for v in bad]
    return out


if __name__ == "__main__":
    print(json.dumps(run(sys.argv[1])))
