#!/usr/bin/env python3
"""(re)generate rules/names.json: the functions of the two crates on the CURRENT (reviewed) tree with their signatures and callers. Used at load time
only to recognise a private function that was RENAMED (rules/core/ir.py apply_renames): a missing private name and a new private name in the same
module / impl with the same signature (or, failing that, a shared caller) are the same function."""
import sys, os, json
sys.path.insert(0, os.path.dirname(os.path.dirname(os.path.abspath(__file__))))
from rules import engine
from rules.core.ir import Program, walk
P = Program(engine.ensure_facts("/repo"))
out = {}
for cn in ("scale_typegen", "scale_typegen_description"):
    c = P.crates[cn]
    fns = {}
    for p, b in c.bodies.items():
        if b.get("dk") in ("Fn", "AssocFn"):
            fns[p] = {"inputs": b.get("inputs", []), "output": b.get("output", ""), "pub": bool(b.get("pub")), "callers": []}
    for p, b in c.bodies.items():
        if "body" not in b:
            continue
        owner = p
        while owner not in fns and "::" in owner:
            owner = owner.rsplit("::", 1)[0]
        for n in walk(b["body"]):
            cal = n.get("callee") if isinstance(n, dict) else None
            if cal in fns and owner in fns and owner != cal and owner not in fns[cal]["callers"]:
                fns[cal]["callers"].append(owner)
    adts = {}
    for ap, a in c.adts.items():
        adts[ap] = {"kind": a.get("kind"), "pub": bool(a.get("pub")),
                    "variants": [{"name": v["name"], "fields": [{"name": f["name"], "ty": f["ty"], "pub": bool(f.get("pub"))} for f in v["fields"]]} for v in a["variants"]]}
    out[cn] = {"fns": fns, "adts": adts}
path = os.path.join(os.path.dirname(os.path.dirname(os.path.abspath(__file__))), "rules", "names.json")
json.dump(out, open(path, "w"), indent=0, sort_keys=True)
print("wrote", path, {k: (len(v["fns"]), len(v["adts"])) for k, v in out.items()})
