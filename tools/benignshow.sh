#!/bin/bash
# tools/benignshow.sh <patchdir> <Cxx>... : apply a benign patch to a scratch copy and print the detailed report of the given checks
pd=$1; shift
d=/var/tmp/benignshow-$$
rsync -a --exclude target --exclude .git /repo/ $d/
(cd $d && patch -p1 -s -i $pd/patch.diff) || exit 3
for p in "$@"; do /verif/check $p --repo $d 2>&1 | grep -vE "^(KNOWN|C[0-9]+:)" | cut -c1-${W:-1600}; done
rm -rf $d
