#!/usr/bin/env python3
"""debug helper: tools/dump.py <facts_dir> <fn path suffix> [pp|term]"""
import sys, os
sys.path.insert(0, os.path.dirname(os.path.dirname(os.path.abspath(__file__))))
from rules.core.ir import *
from rules.core.norm import *
from rules.core import q
P = Program(sys.argv[1])
for b in q.fn_by_suffix(P, sys.argv[2]):
    print("==", b["path"], b.get("inputs"), "->", b.get("output"))
    mode = sys.argv[3] if len(sys.argv) > 3 else "term"
    if mode == "pp":
        print(pp(b["body"]))
    else:
        N = Norm(b)
        print(show(N.term(b["body"]), 10**6))
        for lid, effs in N.effects.items():
            print("  effects on", N.defs.get(lid, (None, None, {}))[2].get("name"), [(k) for _, k, _g in effs])
