#!/usr/bin/env python3
"""tools/seedrun.py [seed names...]: apply each kept seeded change (seeded/<name>/patch.diff) to a scratch copy of the CURRENT /repo tree,
run all 18 quick checks against it (tools/fastcheck.py, one process per tree, several trees in parallel) and print which fire.
Scratch copies are removed immediately."""
import json, os, shutil, subprocess, sys
from concurrent.futures import ThreadPoolExecutor
HERE = os.path.dirname(os.path.dirname(os.path.abspath(__file__)))
names = sys.argv[1:] or sorted(os.listdir(os.path.join(HERE, "seeded")))
names = [n for n in names if os.path.exists(os.path.join(HERE, "seeded", n, "patch.diff"))]
TMP = os.environ.get("TMPDIR", "/var/tmp")


def one(name):
    sd = os.path.join(HERE, "seeded", name)
    d = os.path.join(TMP, "seedrun-%d-%s" % (os.getpid(), name))
    shutil.rmtree(d, ignore_errors=True)
    subprocess.run(["rsync", "-a", "--exclude", "target", "--exclude", ".git", "/repo/", d + "/"], check=True)
    try:
        r = subprocess.run(["patch", "-p1", "-s", "-i", os.path.join(sd, "patch.diff")], cwd=d, capture_output=True, text=True)
        if r.returncode != 0:
            return name, None, "PATCH DOES NOT APPLY to the current tree: " + (r.stdout + r.stderr)[-200:]
        rr = subprocess.run([sys.executable, os.path.join(HERE, "tools", "fastcheck.py"), d], capture_output=True, text=True)
        try:
            fired = json.loads(rr.stdout.strip().splitlines()[-1])
        except Exception:
            fired = {"engine": ["ENGINE-ERROR " + (rr.stdout + rr.stderr)[-300:]]}
        return name, fired, None
    finally:
        shutil.rmtree(d, ignore_errors=True)


summary = {}
with ThreadPoolExecutor(int(os.environ.get("JOBS", "6"))) as ex:
    for name, fired, err in ex.map(one, names):
        if err:
            print(name, err)
            continue
        target = name.split("-")[0]
        summary[name] = fired
        print(name, "TARGET-FIRED" if target in fired else "TARGET-MISSED", json.dumps({k: [x[:80] for x in v] for k, v in fired.items()}), flush=True)
if not sys.argv[1:]:
    json.dump(summary, open(os.path.join(HERE, "seeded", "_last_run.json"), "w"), indent=1)
