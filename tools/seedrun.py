#!/usr/bin/env python3
"""tools/seedrun.py [seed names...]: apply each kept seeded change (seeded/<name>/patch.diff) to a scratch copy of the CURRENT /repo tree,
run all 18 quick checks against it and print which fire. Scratch copies are removed immediately."""
import json, os, shutil, subprocess, sys
HERE = os.path.dirname(os.path.dirname(os.path.abspath(__file__)))
names = sys.argv[1:] or sorted(os.listdir(os.path.join(HERE, "seeded")))
summary = {}
for name in names:
    sd = os.path.join(HERE, "seeded", name)
    if not os.path.exists(os.path.join(sd, "patch.diff")):
        continue
    d = os.path.join(os.environ.get("TMPDIR", "/var/tmp"), "seedrun-" + name)
    shutil.rmtree(d, ignore_errors=True)
    subprocess.run(["rsync", "-a", "--exclude", "target", "--exclude", ".git", "/repo/", d + "/"], check=True)
    r = subprocess.run(["patch", "-p1", "-s", "-i", os.path.join(sd, "patch.diff")], cwd=d, capture_output=True, text=True)
    if r.returncode != 0:
        print(name, "PATCH DOES NOT APPLY to the current tree:", (r.stdout + r.stderr)[-200:])
        shutil.rmtree(d, ignore_errors=True)
        continue
    fired = {}
    for i in range(1, 19):
        p = "C%02d" % i
        rr = subprocess.run([os.path.join(HERE, "check"), p, "--repo", d], capture_output=True, text=True)
        if rr.returncode == 2:
            fired[p] = ["ENGINE-ERROR " + rr.stderr[-200:]]
        elif rr.returncode != 0:
            fired[p] = [l.strip()[5:] for l in rr.stdout.splitlines() if l.strip().startswith("rule=")]
    shutil.rmtree(d, ignore_errors=True)
    target = name.split("-")[0]
    summary[name] = fired
    print(name, "TARGET-FIRED" if target in fired else "TARGET-MISSED", json.dumps({k: [x[:80] for x in v] for k, v in fired.items()}))
json.dump(summary, open(os.path.join(HERE, "seeded", "_last_run.json"), "w"), indent=1)
