#!/usr/bin/env python3
"""(re)generate rules/golden.json: normalised terms of reviewed functions on the CURRENT tree.
Run only after reading the functions: the file is a reviewed reference, not an oracle derived at check time."""
import sys, os, json
sys.path.insert(0, os.path.dirname(os.path.dirname(os.path.abspath(__file__))))
from rules import engine
from rules.core.ir import Program
from rules.core.norm import Norm, show
from rules.core import q
P = Program(engine.ensure_facts("/repo"))
from rules.core import norm as _norm
_norm.set_default(P, engine.keep_names())       # the same look-through of private helpers as at check time
ITEMS = {
    # key: (fn suffix, crate)
    "desc/type_description": ("description::type_description", "scale_typegen_description"),
    "desc/ty_description": ("description::ty_description", "scale_typegen_description"),
    "desc/fields_type_description": ("description::fields_type_description", "scale_typegen_description"),
    "desc/type_name_with_type_params": ("description::type_name_with_type_params", "scale_typegen_description"),
    "desc/primitive_type_description": ("description::primitive_type_description", "scale_typegen_description"),
    "gen/types_equal_inner": ("utils::types_equal_inner", "scale_typegen"),
    "rust/ty_example": ("rust_value::ty_example", "scale_typegen_description"),
    "rust/fields_example": ("rust_value::fields_example", "scale_typegen_description"),
    "rust/primitive_example": ("rust_value::primitive_example", "scale_typegen_description"),
    "rust/resolve_type_path_omit_generics": ("resolve_type_path_omit_generics", "scale_typegen_description"),
    "rust/has_unused_type_params": ("has_unused_type_params", "scale_typegen_description"),
}
out = {}
for k, (suf, cr) in ITEMS.items():
    fn = q.fn1(P, suf, cr)
    if fn is None:
        print("MISSING", k, suf)
        continue
    out[k] = show(Norm(fn).term(fn["body"]), 10 ** 7)
path = os.path.join(os.path.dirname(os.path.dirname(os.path.abspath(__file__))), "rules", "golden.json")
json.dump(out, open(path, "w"), indent=1, sort_keys=True)
print("wrote", path, len(out))
