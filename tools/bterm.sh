#!/bin/bash
# tools/bterm.sh <patchdir> <fn suffix> [pp|term] : normalised term of a function in a scratch copy with the patch applied
pd=$1; d=/var/tmp/bterm-$$
rsync -a --exclude target --exclude .git /repo/ $d/
(cd $d && patch -p1 -s -i $pd/patch.diff) || exit 3
f=$(cd /verif && python3 -c "
import sys; sys.path.insert(0,'/verif')
from rules import engine
print(engine.ensure_facts('$d','default'))" 2>/dev/null | tail -1)
cd /verif && python3 - "$f" "$2" "${3:-term}" <<'PY'
import sys, os
sys.path.insert(0, '/verif')
from rules.core.ir import *
from rules.core.norm import *
from rules.core import q, norm
from rules import engine
P = Program(sys.argv[1])
norm.set_default(P, engine.keep_names())
for b in q.fn_by_suffix(P, sys.argv[2]):
    print("==", b["path"])
    if sys.argv[3] == "pp":
        print(pp(b["body"]))
    else:
        print(show(Norm(b).term(b["body"]), 10**6))
PY
rm -rf $d
