// tgfacts — typed-program fact exporter for the scale-typegen static checks.
//
// A rustc_private driver: behaves as plain rustc for every crate, and for the
// crates named in TGFACTS_CRATES additionally writes one JSON fact file
// (typed HIR of every body, MIR panic/call/cast facts, ADTs, impls, signatures)
// into TGFACTS_OUT. Nothing of the analysed program is executed.
#![feature(rustc_private)]
extern crate rustc_abi;
extern crate rustc_ast;
extern crate rustc_driver;
extern crate rustc_hir;
extern crate rustc_interface;
extern crate rustc_middle;
extern crate rustc_span;

use rustc_driver::{Callbacks, Compilation};
use rustc_hir as hir;
use rustc_hir::def::{DefKind, Res};
use rustc_middle::mir;
use rustc_middle::ty::{self, TyCtxt};
use rustc_span::def_id::{DefId, LocalDefId, LOCAL_CRATE};
use rustc_span::hygiene::ExpnKind;
use rustc_span::Span;
use std::collections::HashMap;
use std::fmt::Write as _;

// ---------------------------------------------------------------- JSON ----
enum J {
    Null,
    B(bool),
    N(i64),
    S(String),
    A(Vec<J>),
    O(Vec<(&'static str, J)>),
}
fn js(s: impl Into<String>) -> J {
    J::S(s.into())
}
impl J {
    fn write(&self, out: &mut String) {
        match self {
            J::Null => out.push_str("null"),
            J::B(b) => out.push_str(if *b { "true" } else { "false" }),
            J::N(n) => {
                let _ = write!(out, "{}", n);
            }
            J::S(s) => esc(s, out),
            J::A(v) => {
                out.push('[');
                for (i, x) in v.iter().enumerate() {
                    if i > 0 {
                        out.push(',');
                    }
                    x.write(out);
                }
                out.push(']');
            }
            J::O(v) => {
                out.push('{');
                let mut first = true;
                for (k, x) in v.iter() {
                    if matches!(x, J::Null) {
                        continue;
                    }
                    if !first {
                        out.push(',');
                    }
                    first = false;
                    esc(k, out);
                    out.push(':');
                    x.write(out);
                }
                out.push('}');
            }
        }
    }
}
fn esc(s: &str, out: &mut String) {
    out.push('"');
    for c in s.chars() {
        match c {
            '"' => out.push_str("\\\""),
            '\\' => out.push_str("\\\\"),
            '\n' => out.push_str("\\n"),
            '\r' => out.push_str("\\r"),
            '\t' => out.push_str("\\t"),
            c if (c as u32) < 0x20 => {
                let _ = write!(out, "\\u{:04x}", c as u32);
            }
            c => out.push(c),
        }
    }
    out.push('"');
}

// ------------------------------------------------------------- context ----
struct Cx<'tcx> {
    tcx: TyCtxt<'tcx>,
    krate: String,
    strs: Vec<String>,
    str_ix: HashMap<String, usize>,
    expns: Vec<J>,
    expn_ix: HashMap<(rustc_span::SyntaxContext, u32, u32), usize>,
}

impl<'tcx> Cx<'tcx> {
    fn intern(&mut self, s: String) -> J {
        if let Some(i) = self.str_ix.get(&s) {
            return J::N(*i as i64);
        }
        let i = self.strs.len();
        self.strs.push(s.clone());
        self.str_ix.insert(s, i);
        J::N(i as i64)
    }
    fn tystr(&self, t: ty::Ty<'tcx>) -> String {
        let t = self.tcx.erase_and_anonymize_regions(t);
        let s = ty::print::with_no_trimmed_paths!(format!("{:?}", t));
        s.replace("'{erased} ", "").replace("&'{erased}", "&")
    }
    fn ty(&mut self, t: ty::Ty<'tcx>) -> J {
        let s = self.tystr(t);
        self.intern(s)
    }
    fn dp(&self, d: DefId) -> String {
        let s = ty::print::with_no_trimmed_paths!(self.tcx.def_path_str(d));
        if d.is_local() {
            format!("{}::{}", self.krate, s)
        } else {
            s
        }
    }
    fn loc(&self, sp: Span) -> String {
        let sm = self.tcx.sess.source_map();
        if sp.is_dummy() {
            return "?".into();
        }
        let lo = sm.lookup_char_pos(sp.lo());
        let hi = sm.lookup_char_pos(sp.hi());
        let f = match &lo.file.name {
            rustc_span::FileName::Real(r) => match r.local_path() {
                Some(p) => p.display().to_string(),
                None => format!("{:?}", lo.file.name),
            },
            other => format!("{:?}", other),
        };
        format!("{}:{}:{}-{}:{}", f, lo.line, lo.col.0 + 1, hi.line, hi.col.0 + 1)
    }
    /// outermost call site of an expansion chain
    fn outer(&self, mut sp: Span) -> Span {
        let mut n = 0;
        while sp.from_expansion() && n < 64 {
            sp = sp.ctxt().outer_expn_data().call_site;
            n += 1;
        }
        sp
    }
    /// (sp, x) fields for a node
    fn span_fields(&mut self, sp: Span) -> (J, J) {
        if !sp.from_expansion() {
            return (js(self.loc(sp)), J::Null);
        }
        let outer = self.outer(sp);
        let key = (sp.ctxt(), outer.lo().0, outer.hi().0);
        if let Some(i) = self.expn_ix.get(&key) {
            return (js(self.loc(outer)), J::N(*i as i64));
        }
        let mut names = vec![];
        let mut crates = vec![];
        for ed in sp.macro_backtrace() {
            let name = match ed.kind {
                ExpnKind::Macro(_, sym) => sym.to_string(),
                ExpnKind::Desugaring(k) => format!("desugar:{:?}", k),
                ExpnKind::AstPass(p) => format!("astpass:{:?}", p),
                ExpnKind::Root => "root".into(),
            };
            names.push(js(name));
            crates.push(match ed.macro_def_id {
                Some(d) => js(self.tcx.crate_name(d.krate).to_string()),
                None => js(""),
            });
        }
        // desugarings are not part of macro_backtrace in all cases: record the innermost kind too
        let inner_kind = match sp.ctxt().outer_expn_data().kind {
            ExpnKind::Macro(_, sym) => format!("macro:{}", sym),
            ExpnKind::Desugaring(k) => format!("desugar:{:?}", k),
            ExpnKind::AstPass(p) => format!("astpass:{:?}", p),
            ExpnKind::Root => "root".into(),
        };
        let snip = self
            .tcx
            .sess
            .source_map()
            .span_to_snippet(outer)
            .unwrap_or_default();
        let rec = J::O(vec![
            ("names", J::A(names)),
            ("crates", J::A(crates)),
            ("inner", js(inner_kind)),
            ("cs", js(self.loc(outer))),
            ("snip", js(snip)),
        ]);
        let i = self.expns.len();
        self.expns.push(rec);
        self.expn_ix.insert(key, i);
        (js(self.loc(outer)), J::N(i as i64))
    }
}

// ------------------------------------------------------------ HIR walk ----
struct W<'a, 'tcx> {
    cx: &'a mut Cx<'tcx>,
    typeck: &'tcx ty::TypeckResults<'tcx>,
}

impl<'a, 'tcx> W<'a, 'tcx> {
    fn tcx(&self) -> TyCtxt<'tcx> {
        self.cx.tcx
    }

    fn res(&mut self, res: Res) -> Vec<(&'static str, J)> {
        match res {
            Res::Local(id) => vec![
                ("r", js("local")),
                ("id", J::N(id.local_id.as_u32() as i64)),
                ("name", js(self.tcx().hir_name(id).to_string())),
            ],
            Res::Def(kind, d) => {
                let mut v = vec![
                    ("r", js("def")),
                    ("dk", js(format!("{:?}", kind))),
                    ("path", js(self.cx.dp(d))),
                ];
                // for constructors and variants, also give the parent ADT / variant
                if let DefKind::Ctor(..) = kind {
                    let parent = self.tcx().parent(d);
                    v.push(("of", js(self.cx.dp(parent))));
                }
                v
            }
            Res::SelfTyAlias { alias_to, .. } => {
                vec![("r", js("selfty")), ("path", js(self.cx.dp(alias_to)))]
            }
            Res::SelfCtor(d) => vec![("r", js("selfctor")), ("path", js(self.cx.dp(d)))],
            Res::PrimTy(p) => vec![("r", js("prim")), ("path", js(format!("{:?}", p)))],
            other => vec![("r", js("other")), ("path", js(format!("{:?}", other)))],
        }
    }

    fn lit(&self, l: &hir::Lit) -> Vec<(&'static str, J)> {
        use rustc_ast::LitKind;
        match &l.node {
            LitKind::Str(s, _) => vec![("lk", js("str")), ("v", js(s.to_string()))],
            LitKind::ByteStr(b, _) => vec![("lk", js("bytestr")), ("v", js(format!("{:?}", b)))],
            LitKind::CStr(b, _) => vec![("lk", js("cstr")), ("v", js(format!("{:?}", b)))],
            LitKind::Byte(b) => vec![("lk", js("byte")), ("v", J::N(*b as i64))],
            LitKind::Char(c) => vec![("lk", js("char")), ("v", js(c.to_string()))],
            LitKind::Int(n, t) => vec![
                ("lk", js("int")),
                ("v", js(n.get().to_string())),
                ("suffix", js(format!("{:?}", t))),
            ],
            LitKind::Float(s, t) => vec![
                ("lk", js("float")),
                ("v", js(s.to_string())),
                ("suffix", js(format!("{:?}", t))),
            ],
            LitKind::Bool(b) => vec![("lk", js("bool")), ("v", J::B(*b))],
            LitKind::Err(_) => vec![("lk", js("err"))],
        }
    }

    fn pat_expr(&mut self, pe: &'tcx hir::PatExpr<'tcx>) -> J {
        match &pe.kind {
            hir::PatExprKind::Lit { lit, negated } => {
                let mut v = vec![("k", js("PLit")), ("neg", J::B(*negated))];
                v.extend(self.lit(lit));
                J::O(v)
            }
            hir::PatExprKind::Path(qp) => {
                let res = self.typeck.qpath_res(qp, pe.hir_id);
                let mut v = vec![("k", js("PPath"))];
                v.extend(self.res(res));
                J::O(v)
            }
        }
    }

    fn pat(&mut self, p: &'tcx hir::Pat<'tcx>) -> J {
        let ty = self.typeck.pat_ty(p);
        let tyj = self.cx.ty(ty);
        let mut v: Vec<(&'static str, J)> = vec![];
        match p.kind {
            hir::PatKind::Wild => v.push(("k", js("Wild"))),
            hir::PatKind::Missing => v.push(("k", js("Missing"))),
            hir::PatKind::Never => v.push(("k", js("Never"))),
            hir::PatKind::Binding(mode, id, ident, sub) => {
                v.push(("k", js("Bind")));
                v.push(("id", J::N(id.local_id.as_u32() as i64)));
                v.push(("name", js(ident.to_string())));
                v.push(("mode", js(format!("{:?}", mode))));
                v.push(("mut", J::B(matches!(mode.1, hir::Mutability::Mut))));
                v.push(("byref", J::B(!matches!(mode.0, hir::ByRef::No))));
                if let Some(s) = sub {
                    v.push(("sub", self.pat(s)));
                }
            }
            hir::PatKind::Struct(ref qp, fs, rest) => {
                let res = self.typeck.qpath_res(qp, p.hir_id);
                v.push(("k", js("PStruct")));
                v.extend(self.res(res));
                let mut fv = vec![];
                for f in fs {
                    fv.push(J::O(vec![("name", js(f.ident.to_string())), ("p", self.pat(f.pat))]));
                }
                v.push(("fields", J::A(fv)));
                v.push(("rest", J::B(rest.is_some())));
            }
            hir::PatKind::TupleStruct(ref qp, ps, ddp) => {
                let res = self.typeck.qpath_res(qp, p.hir_id);
                v.push(("k", js("PTupleStruct")));
                v.extend(self.res(res));
                v.push(("ps", J::A(ps.iter().map(|q| self.pat(q)).collect())));
                if let Some(n) = ddp.as_opt_usize() {
                    v.push(("dotdot", J::N(n as i64)));
                }
            }
            hir::PatKind::Or(ps) => {
                v.push(("k", js("Or")));
                v.push(("ps", J::A(ps.iter().map(|q| self.pat(q)).collect())));
            }
            hir::PatKind::Tuple(ps, ddp) => {
                v.push(("k", js("PTuple")));
                v.push(("ps", J::A(ps.iter().map(|q| self.pat(q)).collect())));
                if let Some(n) = ddp.as_opt_usize() {
                    v.push(("dotdot", J::N(n as i64)));
                }
            }
            hir::PatKind::Box(q) => {
                v.push(("k", js("PBox")));
                v.push(("p", self.pat(q)));
            }
            hir::PatKind::Deref(q) => {
                v.push(("k", js("PDeref")));
                v.push(("p", self.pat(q)));
            }
            hir::PatKind::Ref(q, _, m) => {
                v.push(("k", js("PRef")));
                v.push(("mut", J::B(matches!(m, hir::Mutability::Mut))));
                v.push(("p", self.pat(q)));
            }
            hir::PatKind::Expr(pe) => {
                v.push(("k", js("PExpr")));
                v.push(("e", self.pat_expr(pe)));
            }
            hir::PatKind::Guard(q, e) => {
                v.push(("k", js("PGuard")));
                v.push(("p", self.pat(q)));
                v.push(("e", self.expr(e)));
            }
            hir::PatKind::Range(lo, hi, end) => {
                v.push(("k", js("PRange")));
                if let Some(lo) = lo {
                    v.push(("lo", self.pat_expr(lo)));
                }
                if let Some(hi) = hi {
                    v.push(("hi", self.pat_expr(hi)));
                }
                v.push(("end", js(format!("{:?}", end))));
            }
            hir::PatKind::Slice(before, mid, after) => {
                v.push(("k", js("PSlice")));
                v.push(("before", J::A(before.iter().map(|q| self.pat(q)).collect())));
                if let Some(m) = mid {
                    v.push(("mid", self.pat(m)));
                }
                v.push(("after", J::A(after.iter().map(|q| self.pat(q)).collect())));
            }
            hir::PatKind::Err(_) => v.push(("k", js("PErr"))),
        }
        v.push(("ty", tyj));
        J::O(v)
    }

    fn block(&mut self, b: &'tcx hir::Block<'tcx>) -> J {
        let mut stmts = vec![];
        for s in b.stmts {
            match s.kind {
                hir::StmtKind::Let(l) => {
                    let (sp, x) = self.cx.span_fields(s.span);
                    let mut v = vec![("k", js("SLet")), ("sp", sp), ("x", x), ("pat", self.pat(l.pat))];
                    if let Some(i) = l.init {
                        v.push(("init", self.expr(i)));
                    }
                    if let Some(e) = l.els {
                        v.push(("els", self.block(e)));
                    }
                    stmts.push(J::O(v));
                }
                hir::StmtKind::Item(_) => {}
                hir::StmtKind::Expr(e) => {
                    stmts.push(J::O(vec![("k", js("SExpr")), ("e", self.expr(e))]));
                }
                hir::StmtKind::Semi(e) => {
                    stmts.push(J::O(vec![("k", js("SSemi")), ("e", self.expr(e))]));
                }
            }
        }
        let mut v = vec![("stmts", J::A(stmts))];
        if let Some(e) = b.expr {
            v.push(("expr", self.expr(e)));
        }
        J::O(v)
    }

    fn expr(&mut self, e: &'tcx hir::Expr<'tcx>) -> J {
        let (sp, x) = self.cx.span_fields(e.span);
        let ty = self.typeck.expr_ty(e);
        let tyj = self.cx.ty(ty);
        let adj = self.typeck.expr_ty_adjusted(e);
        let adjj = if adj != ty { self.cx.ty(adj) } else { J::Null };
        let mut v: Vec<(&'static str, J)> = vec![];
        match e.kind {
            hir::ExprKind::ConstBlock(_) => v.push(("k", js("ConstBlock"))),
            hir::ExprKind::Array(es) => {
                v.push(("k", js("Array")));
                v.push(("es", J::A(es.iter().map(|q| self.expr(q)).collect())));
            }
            hir::ExprKind::Call(f, args) => {
                v.push(("k", js("Call")));
                let mut resolved = false;
                if let hir::ExprKind::Path(ref qp) = f.kind {
                    let res = self.typeck.qpath_res(qp, f.hir_id);
                    if let Res::Def(kind, d) = res {
                        v.push(("callee", js(self.cx.dp(d))));
                        v.push(("dk", js(format!("{:?}", kind))));
                        if let DefKind::Ctor(..) = kind {
                            let parent = self.tcx().parent(d);
                            v.push(("of", js(self.cx.dp(parent))));
                        }
                        let substs = self.typeck.node_args(f.hir_id);
                        if !substs.is_empty() {
                            let s = ty::print::with_no_trimmed_paths!(format!("{:?}", substs));
                            v.push(("gen", self.cx.intern(s)));
                        }
                        resolved = true;
                    } else if let Res::SelfCtor(d) = res {
                        v.push(("callee", js(format!("SelfCtor:{}", self.cx.dp(d)))));
                        resolved = true;
                    }
                }
                if !resolved {
                    v.push(("f", self.expr(f)));
                }
                v.push(("args", J::A(args.iter().map(|q| self.expr(q)).collect())));
            }
            hir::ExprKind::MethodCall(seg, recv, args, _) => {
                v.push(("k", js("MethodCall")));
                v.push(("name", js(seg.ident.to_string())));
                if let Some(d) = self.typeck.type_dependent_def_id(e.hir_id) {
                    v.push(("callee", js(self.cx.dp(d))));
                }
                let substs = self.typeck.node_args(e.hir_id);
                if !substs.is_empty() {
                    let s = ty::print::with_no_trimmed_paths!(format!("{:?}", substs));
                    v.push(("gen", self.cx.intern(s)));
                }
                v.push(("recv", self.expr(recv)));
                v.push(("args", J::A(args.iter().map(|q| self.expr(q)).collect())));
            }
            hir::ExprKind::Use(q, _) => {
                v.push(("k", js("Use")));
                v.push(("e", self.expr(q)));
            }
            hir::ExprKind::Tup(es) => {
                v.push(("k", js("Tup")));
                v.push(("es", J::A(es.iter().map(|q| self.expr(q)).collect())));
            }
            hir::ExprKind::Binary(op, a, b) => {
                v.push(("k", js("Binary")));
                v.push(("op", js(op.node.as_str())));
                if let Some(d) = self.typeck.type_dependent_def_id(e.hir_id) {
                    v.push(("callee", js(self.cx.dp(d))));
                }
                v.push(("l", self.expr(a)));
                v.push(("r", self.expr(b)));
            }
            hir::ExprKind::Unary(op, a) => {
                v.push(("k", js("Unary")));
                v.push(("op", js(format!("{:?}", op))));
                if let Some(d) = self.typeck.type_dependent_def_id(e.hir_id) {
                    v.push(("callee", js(self.cx.dp(d))));
                }
                v.push(("e", self.expr(a)));
            }
            hir::ExprKind::Lit(l) => {
                v.push(("k", js("Lit")));
                v.extend(self.lit(&l));
            }
            hir::ExprKind::Cast(a, _) => {
                v.push(("k", js("Cast")));
                v.push(("e", self.expr(a)));
            }
            hir::ExprKind::Type(a, _) => {
                v.push(("k", js("TypeAscr")));
                v.push(("e", self.expr(a)));
            }
            hir::ExprKind::DropTemps(a) => {
                v.push(("k", js("DropTemps")));
                v.push(("e", self.expr(a)));
            }
            hir::ExprKind::Let(l) => {
                v.push(("k", js("Let")));
                v.push(("pat", self.pat(l.pat)));
                v.push(("init", self.expr(l.init)));
            }
            hir::ExprKind::If(c, t, el) => {
                v.push(("k", js("If")));
                v.push(("cond", self.expr(c)));
                v.push(("then", self.expr(t)));
                if let Some(el) = el {
                    v.push(("else", self.expr(el)));
                }
            }
            hir::ExprKind::Loop(b, label, src, _) => {
                v.push(("k", js("Loop")));
                v.push(("src", js(format!("{:?}", src))));
                if let Some(l) = label {
                    v.push(("label", js(l.ident.to_string())));
                }
                v.push(("body", self.block(b)));
            }
            hir::ExprKind::Match(s, arms, src) => {
                v.push(("k", js("Match")));
                v.push(("src", js(format!("{:?}", src))));
                v.push(("scrut", self.expr(s)));
                let mut av = vec![];
                for a in arms {
                    let mut arm = vec![("pat", self.pat(a.pat))];
                    if let Some(g) = a.guard {
                        arm.push(("guard", self.expr(g)));
                    }
                    arm.push(("body", self.expr(a.body)));
                    let (asp, _) = self.cx.span_fields(a.span);
                    arm.push(("sp", asp));
                    av.push(J::O(arm));
                }
                v.push(("arms", J::A(av)));
            }
            hir::ExprKind::Closure(c) => {
                v.push(("k", js("Closure")));
                v.push(("def", js(self.cx.dp(c.def_id.to_def_id()))));
                let body = self.tcx().hir_body(c.body);
                let mut ps = vec![];
                for p in body.params {
                    ps.push(self.pat(p.pat));
                }
                v.push(("params", J::A(ps)));
                v.push(("move", J::B(matches!(c.capture_clause, hir::CaptureBy::Value { .. }))));
                v.push(("body", self.expr(body.value)));
            }
            hir::ExprKind::Block(b, label) => {
                v.push(("k", js("Block")));
                if let Some(l) = label {
                    v.push(("label", js(l.ident.to_string())));
                }
                v.push(("unsafe", J::B(!matches!(b.rules, hir::BlockCheckMode::DefaultBlock))));
                v.push(("b", self.block(b)));
            }
            hir::ExprKind::Assign(l, r, _) => {
                v.push(("k", js("Assign")));
                v.push(("l", self.expr(l)));
                v.push(("r", self.expr(r)));
            }
            hir::ExprKind::AssignOp(op, l, r) => {
                v.push(("k", js("AssignOp")));
                v.push(("op", js(op.node.as_str())));
                if let Some(d) = self.typeck.type_dependent_def_id(e.hir_id) {
                    v.push(("callee", js(self.cx.dp(d))));
                }
                v.push(("l", self.expr(l)));
                v.push(("r", self.expr(r)));
            }
            hir::ExprKind::Field(b, ident) => {
                v.push(("k", js("Field")));
                v.push(("name", js(ident.to_string())));
                let bt = self.typeck.expr_ty_adjusted(b);
                // peel references and Box-like auto-deref is recorded in adjustments; the owner is
                // the type on which the field was found: walk autoderef manually through refs.
                let mut owner = bt;
                loop {
                    match owner.kind() {
                        ty::Ref(_, inner, _) => owner = *inner,
                        _ => break,
                    }
                }
                let o = self.cx.ty(owner);
                v.push(("owner", o));
                v.push(("base", self.expr(b)));
            }
            hir::ExprKind::Index(b, i, _) => {
                v.push(("k", js("Index")));
                if let Some(d) = self.typeck.type_dependent_def_id(e.hir_id) {
                    v.push(("callee", js(self.cx.dp(d))));
                }
                v.push(("base", self.expr(b)));
                v.push(("idx", self.expr(i)));
            }
            hir::ExprKind::Path(ref qp) => {
                v.push(("k", js("Path")));
                let res = self.typeck.qpath_res(qp, e.hir_id);
                v.extend(self.res(res));
            }
            hir::ExprKind::AddrOf(_, m, a) => {
                v.push(("k", js("AddrOf")));
                v.push(("mut", J::B(matches!(m, hir::Mutability::Mut))));
                v.push(("e", self.expr(a)));
            }
            hir::ExprKind::Break(dest, val) => {
                v.push(("k", js("Break")));
                if let Some(l) = dest.label {
                    v.push(("label", js(l.ident.to_string())));
                }
                if let Some(val) = val {
                    v.push(("e", self.expr(val)));
                }
            }
            hir::ExprKind::Continue(dest) => {
                v.push(("k", js("Continue")));
                if let Some(l) = dest.label {
                    v.push(("label", js(l.ident.to_string())));
                }
            }
            hir::ExprKind::Ret(val) => {
                v.push(("k", js("Ret")));
                if let Some(val) = val {
                    v.push(("e", self.expr(val)));
                }
            }
            hir::ExprKind::Become(a) => {
                v.push(("k", js("Become")));
                v.push(("e", self.expr(a)));
            }
            hir::ExprKind::InlineAsm(_) => v.push(("k", js("InlineAsm"))),
            hir::ExprKind::OffsetOf(..) => v.push(("k", js("OffsetOf"))),
            hir::ExprKind::Struct(qp, fields, tail) => {
                v.push(("k", js("Struct")));
                let res = self.typeck.qpath_res(qp, e.hir_id);
                v.extend(self.res(res));
                // the ADT and variant actually constructed
                if let ty::Adt(adt, _) = ty.kind() {
                    v.push(("adt", js(self.cx.dp(adt.did()))));
                    let vd = match res {
                        Res::Def(DefKind::Variant, d) => Some(adt.variant_with_id(d)),
                        _ if adt.is_struct() || adt.is_union() => Some(adt.non_enum_variant()),
                        _ => None,
                    };
                    if let Some(vd) = vd {
                        v.push(("variant", js(vd.name.to_string())));
                    }
                }
                let mut fv = vec![];
                for f in fields {
                    fv.push(J::O(vec![
                        ("name", js(f.ident.to_string())),
                        ("shorthand", J::B(f.is_shorthand)),
                        ("e", self.expr(f.expr)),
                    ]));
                }
                v.push(("fields", J::A(fv)));
                match tail {
                    hir::StructTailExpr::Base(b) => v.push(("base", self.expr(b))),
                    hir::StructTailExpr::DefaultFields(_) => v.push(("defaults", J::B(true))),
                    _ => {}
                }
            }
            hir::ExprKind::Repeat(a, _) => {
                v.push(("k", js("Repeat")));
                v.push(("e", self.expr(a)));
            }
            hir::ExprKind::Yield(a, _) => {
                v.push(("k", js("Yield")));
                v.push(("e", self.expr(a)));
            }
            hir::ExprKind::UnsafeBinderCast(_, a, _) => {
                v.push(("k", js("UnsafeBinderCast")));
                v.push(("e", self.expr(a)));
            }
            hir::ExprKind::Err(_) => v.push(("k", js("Err"))),
        }
        v.push(("ty", tyj));
        v.push(("adj", adjj));
        v.push(("sp", sp));
        v.push(("x", x));
        J::O(v)
    }
}

// ------------------------------------------------------------ MIR facts ----
fn mir_facts<'tcx>(cx: &mut Cx<'tcx>, ldid: LocalDefId) -> J {
    let tcx = cx.tcx;
    let body = tcx.optimized_mir(ldid.to_def_id());
    let typing_env = ty::TypingEnv::post_analysis(tcx, ldid.to_def_id());
    let mut asserts = vec![];
    let mut calls = vec![];
    let mut casts = vec![];
    for bb in body.basic_blocks.iter() {
        for st in bb.statements.iter() {
            if let mir::StatementKind::Assign(b) = &st.kind {
                if let mir::Rvalue::Cast(kind, op, to) = &b.1 {
                    if matches!(kind, mir::CastKind::IntToInt) {
                        let from = op.ty(&body.local_decls, tcx);
                        let (sp, x) = cx.span_fields(st.source_info.span);
                        casts.push(J::O(vec![
                            ("from", js(format!("{:?}", from))),
                            ("to", js(format!("{:?}", to))),
                            ("sp", sp),
                            ("x", x),
                        ]));
                    }
                }
            }
        }
        let Some(term) = &bb.terminator else { continue };
        match &term.kind {
            mir::TerminatorKind::Call { func, .. } | mir::TerminatorKind::TailCall { func, .. } => {
                let fty = func.ty(&body.local_decls, tcx);
                let (sp, x) = cx.span_fields(term.source_info.span);
                if let ty::FnDef(did, args) = *fty.kind() {
                    let inst = ty::Instance::try_resolve(tcx, typing_env, did, args).ok().flatten();
                    let mut v = vec![("callee", js(cx.dp(did)))];
                    if let Some(i) = inst {
                        if i.def_id() != did {
                            v.push(("inst", js(cx.dp(i.def_id()))));
                        }
                    }
                    let s = ty::print::with_no_trimmed_paths!(format!("{:?}", args));
                    v.push(("gen", cx.intern(s)));
                    v.push(("sp", sp));
                    v.push(("x", x));
                    calls.push(J::O(v));
                } else {
                    let t = ty::print::with_no_trimmed_paths!(format!("{:?}", fty));
                    calls.push(J::O(vec![("indirect", js(t)), ("sp", sp), ("x", x)]));
                }
            }
            mir::TerminatorKind::Assert { msg, expected, .. } => {
                let (sp, x) = cx.span_fields(term.source_info.span);
                let full = format!("{:?}", msg);
                let kind: String = full.chars().take_while(|c| c.is_alphanumeric() || *c == '_').collect();
                asserts.push(J::O(vec![
                    ("kind", js(kind)),
                    ("msg", js(full.chars().take(160).collect::<String>())),
                    ("expected", J::B(*expected)),
                    ("sp", sp),
                    ("x", x),
                ]));
            }
            _ => {}
        }
    }
    J::O(vec![
        ("blocks", J::N(body.basic_blocks.len() as i64)),
        ("asserts", J::A(asserts)),
        ("calls", J::A(calls)),
        ("casts", J::A(casts)),
    ])
}

// ------------------------------------------------------------ ADTs etc. ----
fn adt_facts<'tcx>(cx: &mut Cx<'tcx>, did: DefId) -> J {
    let tcx = cx.tcx;
    let adt = tcx.adt_def(did);
    let mut variants = vec![];
    for vd in adt.variants().iter() {
        let mut fields = vec![];
        for f in vd.fields.iter() {
            let t = tcx.type_of(f.did).instantiate_identity().skip_norm_wip();
            let ts = cx.tystr(t);
            fields.push(J::O(vec![
                ("name", js(f.name.to_string())),
                ("ty", js(ts)),
                ("vis", js(format!("{:?}", f.vis))),
                ("pub", J::B(f.vis.is_public())),
            ]));
        }
        variants.push(J::O(vec![
            ("name", js(vd.name.to_string())),
            ("ctor", js(format!("{:?}", vd.ctor_kind()))),
            ("fields", J::A(fields)),
        ]));
    }
    let kind = if adt.is_enum() {
        "enum"
    } else if adt.is_union() {
        "union"
    } else {
        "struct"
    };
    J::O(vec![
        ("path", js(cx.dp(did))),
        ("kind", js(kind)),
        ("pub", J::B(tcx.visibility(did).is_public())),
        ("variants", J::A(variants)),
        ("sp", js(cx.loc(tcx.def_span(did)))),
    ])
}

struct Cb;

fn wanted(krate: &str) -> Option<&'static str> {
    let list = std::env::var("TGFACTS_CRATES").unwrap_or_default();
    for item in list.split(',') {
        let mut it = item.splitn(2, ':');
        let name = it.next().unwrap_or("");
        let mode = it.next().unwrap_or("full");
        if name == krate {
            return Some(if mode == "adts" { "adts" } else { "full" });
        }
    }
    None
}

impl Callbacks for Cb {
    fn after_analysis<'tcx>(
        &mut self,
        _c: &rustc_interface::interface::Compiler,
        tcx: TyCtxt<'tcx>,
    ) -> Compilation {
        let krate = tcx.crate_name(LOCAL_CRATE).to_string();
        let Some(mode) = wanted(&krate) else { return Compilation::Continue };
        let Ok(outdir) = std::env::var("TGFACTS_OUT") else { return Compilation::Continue };
        // only library targets of the real build (no test harness, no bins/examples)
        let is_lib = tcx.crate_types().iter().all(|t| {
            !matches!(t, rustc_session_config_crate_type::Executable)
        });
        if !is_lib || tcx.sess.opts.test {
            return Compilation::Continue;
        }
        let mut cx = Cx {
            tcx,
            krate: krate.clone(),
            strs: vec![],
            str_ix: HashMap::new(),
            expns: vec![],
            expn_ix: HashMap::new(),
        };
        let mut bodies = vec![];
        let mut n_bodies = 0i64;
        for ldid in tcx.hir_body_owners() {
            let dk = tcx.def_kind(ldid);
            if matches!(dk, DefKind::Closure) {
                // closures are exported nested in their parent; MIR facts separately below
                if mode == "full" {
                    let m = mir_facts(&mut cx, ldid);
                    bodies.push(J::O(vec![
                        ("path", js(cx.dp(ldid.to_def_id()))),
                        ("dk", js("Closure")),
                        ("parent", js(cx.dp(tcx.typeck_root_def_id(ldid.to_def_id())))),
                        ("sp", js(cx.loc(tcx.def_span(ldid.to_def_id())))),
                        ("mir", m),
                    ]));
                }
                continue;
            }
            let is_fn = matches!(dk, DefKind::Fn | DefKind::AssocFn);
            if mode == "adts" && !is_fn {
                continue;
            }
            let body = tcx.hir_body_owned_by(ldid);
            let typeck = tcx.typeck(ldid);
            let mut v: Vec<(&'static str, J)> = vec![
                ("path", js(cx.dp(ldid.to_def_id()))),
                ("dk", js(format!("{:?}", dk))),
                ("sp", js(cx.loc(tcx.def_span(ldid.to_def_id())))),
            ];
            if is_fn {
                let sig = tcx.instantiate_bound_regions_with_erased(tcx.fn_sig(ldid.to_def_id()).instantiate_identity().skip_norm_wip());
                let ins: Vec<J> = sig.inputs().iter().map(|t| cx.ty(*t)).collect();
                v.push(("inputs", J::A(ins)));
                v.push(("output", cx.ty(sig.output())));
                v.push(("vis", js(format!("{:?}", tcx.visibility(ldid.to_def_id())))));
                v.push(("pub", J::B(tcx.visibility(ldid.to_def_id()).is_public())));
                if let Some(assoc) = tcx.opt_associated_item(ldid.to_def_id()) {
                    let cont = assoc.container_id(tcx);
                    if matches!(tcx.def_kind(cont), DefKind::Impl { .. }) {
                        let st = tcx.type_of(cont).instantiate_identity().skip_norm_wip();
                        v.push(("impl_self", cx.ty(st)));
                        if let Some(tr) = tcx.impl_opt_trait_ref(cont) {
                            let s = ty::print::with_no_trimmed_paths!(format!(
                                "{:?}",
                                tr.instantiate_identity().skip_norm_wip()
                            ));
                            v.push(("impl_trait", js(s)));
                        }
                    }
                }
            }
            if mode == "full" || is_fn {
                let mut w = W { cx: &mut cx, typeck };
                let mut ps = vec![];
                for p in body.params {
                    ps.push(w.pat(p.pat));
                }
                let b = w.expr(body.value);
                v.push(("params", J::A(ps)));
                v.push(("body", b));
            }
            if mode == "full" && is_fn {
                v.push(("mir", mir_facts(&mut cx, ldid)));
            }
            n_bodies += 1;
            bodies.push(J::O(v));
        }
        // ADTs and impls
        let mut adts = vec![];
        let mut impls = vec![];
        for ldid in tcx.hir_crate_items(()).definitions() {
            let dk = tcx.def_kind(ldid);
            match dk {
                DefKind::Struct | DefKind::Enum | DefKind::Union => {
                    adts.push(adt_facts(&mut cx, ldid.to_def_id()));
                }
                DefKind::Impl { of_trait } => {
                    let st = tcx.type_of(ldid.to_def_id()).instantiate_identity().skip_norm_wip();
                    let sts = ty::print::with_no_trimmed_paths!(format!("{:?}", st));
                    let mut v = vec![
                        ("self", js(sts)),
                        ("derived", J::B(tcx.is_automatically_derived(ldid.to_def_id()))),
                    ];
                    if of_trait {
                        let tr = tcx.impl_trait_ref(ldid.to_def_id());
                        let s = ty::print::with_no_trimmed_paths!(format!(
                            "{:?}",
                            tr.instantiate_identity().skip_norm_wip()
                        ));
                        v.push(("trait", js(s)));
                    }
                    impls.push(J::O(v));
                }
                _ => {}
            }
        }
        // foreign ADTs mentioned: scale_info's are exported when scale_info itself is compiled.
        let strs: Vec<J> = cx.strs.iter().map(|s| js(s.clone())).collect();
        let expns = std::mem::take(&mut cx.expns);
        let root = J::O(vec![
            ("crate", js(krate.clone())),
            ("mode", js(mode)),
            ("nonce", js(std::env::var("TGFACTS_NONCE").unwrap_or_default())),
            ("rustc", js(option_env!("CFG_VERSION").unwrap_or("nightly"))),
            ("n_bodies", J::N(n_bodies)),
            ("bodies", J::A(bodies)),
            ("adts", J::A(adts)),
            ("impls", J::A(impls)),
            ("expns", J::A(expns)),
            ("strs", J::A(strs)),
        ]);
        let mut out = String::with_capacity(1 << 22);
        root.write(&mut out);
        let path = format!("{}/{}.json", outdir, krate);
        let tmp = format!("{}.tmp{}", path, std::process::id());
        if std::fs::write(&tmp, out.as_bytes()).is_ok() {
            let _ = std::fs::rename(&tmp, &path);
        }
        Compilation::Continue
    }
}

mod rustc_session_config_crate_type {
    pub use rustc_hir::attrs::CrateType::*;
}

fn main() {
    let mut args: Vec<String> = std::env::args().collect();
    // invoked as RUSTC_WRAPPER: argv[1] is the path of the real rustc
    if args.len() > 1 && (args[1].ends_with("rustc") || args[1].contains("/rustc")) {
        args.remove(1);
    }
    rustc_driver::run_compiler(&args, &mut Cb);
}
